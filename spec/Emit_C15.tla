------------------------------ MODULE Emit_C15 ------------------------------
EXTENDS OutputIO, Json, IOUtils, SequencesExt
CONSTANTS MaxDepth, MaxObs
KindSeqs == UNION {[1..n -> EntryKinds] : n \in 1..MaxObs}
FmtSeqs == UNION {[1..n -> Formats] : n \in 1..MaxDepth}
KeyListSeq == SetToSeq(KeyLists)
Obls == {[kinds |-> ks, npts |-> np, keys |-> KeyListSeq[k], vcls |-> vc, rep |-> rep, fmts |-> fs,
          holds |-> RoundTripIdentity(MkOutput(ks, np, KeyListSeq[k], vc, rep), fs)] :
            ks \in KindSeqs, np \in 1..2, k \in 1..Len(KeyListSeq), vc \in {"normal", "special"}, rep \in {"list", "ndarray"},
            fs \in FmtSeqs}
ASSUME ndJsonSerialize(IOEnv.OUT, SetToSeq(Obls))
=============================================================================
