---------------------------- MODULE Emit_Session ----------------------------
(***************************************************************************)
(* Specification -> code: the BEHAVIOURS of Session on the real coordinate *)
(* universe (header: how many alternatives each coordinate has), collected *)
(* by TLC while it explores Next, written as one JSON line per complete    *)
(* session (every runner evaluated at least once, last event a             *)
(* get_result).  The real runners are driven along each behaviour in a     *)
(* fresh process and come back through Trace_Session.                      *)
(***************************************************************************)
EXTENDS Session, Json, IOUtils, SequencesExt
Hdr       == JsonDeserialize(IOEnv.HEADER_FILE)
HdrAlts   == Hdr.alts
HdrCoords == DOMAIN HdrAlts
ASSUME TLCSet(1, {})
Complete == /\ Len(hist) > 0 /\ hist[Len(hist)][1] = "G"
            /\ \A r \in 1..Len(runners) : runners[r].calls >= 1
Collect  == Complete => TLCSet(1, TLCGet(1) \cup {hist})
Written  == ndJsonSerialize(IOEnv.OUT, SetToSeq(TLCGet(1)))
=============================================================================
