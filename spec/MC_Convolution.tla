--------------------------- MODULE MC_Convolution ---------------------------
EXTENDS Convolution
VARIABLE s
Init == s \in BOOLEAN \X BOOLEAN \X BOOLEAN \X Positions
Next == UNCHANGED s
Spec == Init /\ [][Next]_s
Inv_Total == Total
Inv_Sound == Sound
Inv_Case == LET c == ConvCase(s[1], s[2], s[3], s[4]) IN (c.zero => c.integrand = "none" /\ ~c.local)
=============================================================================
