------------------------------ MODULE Emit_C16 ------------------------------
(* C16 obligations: every cell of the documented configuration lattice with the outcome the specification intends. *)
EXTENDS Lattice, Json, IOUtils, SequencesExt
CONSTANTS PROCS, PROJS, KINDS, FLAVS, SCHEMES, ORDERS, TMCS, XCS, QCS, PARTS,
          SVS      \* which scale variations the card asks for: "both" | "ren" | "fact" | "none" - documented switches, the outcome
                   \* of a cell does not depend on them
Pt(p, j, k, fl, s, o, pa) ==
  [proc |-> p, proj |-> ProjOf(j), kind |-> k, flav |-> fl, fns |-> SchemeOf(s).fns, nfff |-> SchemeOf(s).nfff,
   nfzm |-> SchemeOf(s).nfzm, parts |-> pa, pto |-> OrderOf(o)[1], ptoEvol |-> OrderOf(o)[2], target |-> <<One, One>>,
   pos |-> 0, s2w |-> R(1, 4), r |-> R(1, 5), omd |-> One, pol |-> Zero, ckm |-> "generic"]
IsXS(k) == k \in XSKinds
Predict(pt, k, tmc, xc, qc) ==
  LET ko == KinOutcome(xc, qc) IN
  IF ko # "OK" THEN ko
  ELSE IF IsXS(k) THEN OutcomeXS(CellOfPt(SetPt(pt, "kind", "F2")), k, tmc)
  ELSE OutcomeTMC(CellOfPt(pt), tmc)
Obls ==
  {[pt |-> Pt(p, j, IF IsXS(k) THEN "F2" ELSE k, fl, s, o, pa), name |-> k, tmc |-> t, xc |-> xc, qc |-> qc, sv |-> sv,
    predicted |-> Predict(Pt(p, j, IF IsXS(k) THEN "F2" ELSE k, fl, s, o, pa), k, t, xc, qc)] :
     p \in PROCS, j \in PROJS, k \in KINDS, fl \in FLAVS, s \in SCHEMES, o \in ORDERS, pa \in PARTS, t \in TMCS,
     xc \in XCS, qc \in QCS, sv \in SVS}
WellFormed(o) == o.pt.parts # "full" => o.pt.fns \in {"FONLL-FFNS", "FONLL-FFN0"}
ASSUME ndJsonSerialize(IOEnv.OUT, SetToSeq({o \in Obls : WellFormed(o)}))
=============================================================================
