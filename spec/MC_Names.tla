------------------------------ MODULE MC_Names ------------------------------
EXTENDS Names
VARIABLE o
Init == o \in AllNames
Next == UNCHANGED o
Spec == Init /\ [][Next]_o
Inv_Family == FamilyTotal(o) /\ HqIffMassive(o) /\ FamilyClosed(o) /\ RawDefinedIff(o) /\ AgreesWithLattice(o)
Inv_Apply  == \A k \in Kinds : ApplyKindKeeps(o, k)
Inv_Parse  == Parse(<<o.kind, o.flavor>>) = [ok |-> TRUE, kind |-> o.kind, flavor |-> o.flavor]
                /\ (o.flavor = "total" => Parse(<<o.kind>>) = Parse(<<o.kind, "total">>))
=============================================================================
