------------------------------ MODULE Trace_C06 ------------------------------
(* Trace validation for C06: the number of flavours the real run used, read from its OUTPUT (active quark rows at LO *)
(* and the ratio of the (2,0,1,0) to the (1,0,0,0) tensor = -beta0), must be the one the specification computes.    *)
EXTENDS FlavourNumber, Json, IOUtils
TraceLog == ndJsonDeserialize(IOEnv.TRACE_FILE)
Th(L) == [FNS |-> L.fns, NfFF |-> L.nfff, m |-> L.m, k |-> [i \in 1..3 |-> Fin(L.k[i])]]
Judge(L) ==
  LET t == Th(L)
      zt == [t EXCEPT !.FNS = "ZM-VFNS"]
      q2 == Q2Of(zt, L.i, L.cls)
      nf == NfActive(t, q2)
  IN IF t.FNS = "ZM-VFNS" /\ RewriteFNS(zt).ok /\ ~Monotone(Thresholds(zt))
       THEN (IF L.outcome \in {"Reject_ValueError", "Reject_NotImplementedError"} THEN "ok"
             ELSE IF L.outcome = "OK" THEN "unordered_matching_scales_accepted" ELSE "outcome_" \o L.outcome)
     ELSE IF ~(Valid(zt) /\ ClassValid(zt, L.i, L.cls)) THEN "obligation_outside_spec_domain"
     ELSE IF L.outcome # "OK" THEN "outcome_" \o L.outcome
     ELSE IF L.nf_rows # nf THEN "active_quark_rows_differ"
     ELSE IF L.beta0 # Beta0(nf) THEN "beta0_of_scale_variation_differs"
     ELSE IF L.beta0_total # Beta0(nf) THEN "beta0_of_scale_variation_differs_between_contributions"
     ELSE IF t.FNS = "ZM-VFNS" /\ nf # NfClass(zt, L.i, L.cls) THEN "spec_inconsistent"
     ELSE "ok"
VARIABLE l
Init == l = 1
Next == /\ l <= Len(TraceLog)
        /\ LET v == Judge(TraceLog[l]) IN IF v = "ok" THEN TRUE ELSE PrintT(<<"VERDICT", TraceLog[l].oid, v>>)
        /\ l' = l + 1
Spec == Init /\ [][Next]_l
Consumed == TLCGet("stats").diameter - 1
Accepted == PrintT(<<"CONSUMED", Consumed>>) /\ Consumed = Len(TraceLog)
=============================================================================
