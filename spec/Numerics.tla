------------------------------ MODULE Numerics ------------------------------
(***************************************************************************)
(* C04: exact constraints on the massless coefficient functions.            *)
(*  (i) the NLO quark and gluon coefficient functions of F2, FL, F3, g1     *)
(*      (a_s = alpha_s/4pi, MSbar) as TABLES of monomials                   *)
(*         coef * z^a * ln(z)^b * ln(1-z)^c / (1-z)^d                       *)
(*      with exact rational coefficients (CF = 4/3, TR = 1/2), transcribed  *)
(*      from the literature (Bardeen et al. / Furmanski-Petronzio /         *)
(*      Zijlstra-van Neerven), plus the D0, D1 and delta coefficients;      *)
(* (ii) the Adler, Gross-Llewellyn-Smith and Bjorken first-moment           *)
(*      coefficients per order and nf (Larin-Vermaseren), rational at       *)
(*      orders 1-2, with zeta atoms at order 3.                             *)
(* TLC proves, by exact term-wise Mellin integration over Q[zeta2], that    *)
(* the tables of (i) obey (ii) at NLO: this validates the transcription     *)
(* before it is used as an oracle against the code.                         *)
(***************************************************************************)
EXTENDS Rat

CF == R(4, 3)
TR == R(1, 2)
M(coef, a, b, c, d) == [coef |-> coef, a |-> a, b |-> b, c |-> c, d |-> d]
\* regular parts (quark coefficients: per quark; gluon coefficients: to be multiplied by nf)
C2qReg == << M(RMul(RI(-2), CF), 0, 0, 1, 0), M(RMul(RI(-2), CF), 1, 0, 1, 0),
             M(RMul(RI(-2), CF), 0, 1, 0, 1), M(RMul(RI(-2), CF), 2, 1, 0, 1),
             M(RMul(RI(6), CF), 0, 0, 0, 0),  M(RMul(RI(4), CF), 1, 0, 0, 0) >>
C3qReg == C2qReg \o << M(RMul(RI(-2), CF), 0, 0, 0, 0), M(RMul(RI(-2), CF), 1, 0, 0, 0) >>      \* C3q = C2q - 2 CF (1+z)
G1qReg == C3qReg                                                                                \* Delta C_q = C3q
CLqReg == << M(RMul(RI(4), CF), 1, 0, 0, 0) >>                                                  \* 4 CF z
\* gluon (per unit nf): C2g = 4 TR [ (z^2+(1-z)^2) ln((1-z)/z) - 1 + 8 z (1-z) ]
C2gReg == LET t == RMul(RI(4), TR) IN
          << M(t, 0, 0, 1, 0), M(RMul(RI(-2), t), 1, 0, 1, 0), M(RMul(RI(2), t), 2, 0, 1, 0),
             M(RNeg(t), 0, 1, 0, 0), M(RMul(RI(2), t), 1, 1, 0, 0), M(RMul(RI(-2), t), 2, 1, 0, 0),
             M(RNeg(t), 0, 0, 0, 0), M(RMul(RI(8), t), 1, 0, 0, 0), M(RMul(RI(-8), t), 2, 0, 0, 0) >>
CLgReg == << M(RMul(RI(16), TR), 1, 0, 0, 0), M(RMul(RI(-16), TR), 2, 0, 0, 0) >>              \* 16 TR z (1-z)
\* Delta C_g = 4 TR [ (2z-1) ln((1-z)/z) + 3 - 4z ]
G1gReg == LET t == RMul(RI(4), TR) IN
          << M(RMul(RI(2), t), 1, 0, 1, 0), M(RNeg(t), 0, 0, 1, 0), M(RMul(RI(-2), t), 1, 1, 0, 0), M(t, 0, 1, 0, 0),
             M(RMul(RI(3), t), 0, 0, 0, 0), M(RMul(RI(-4), t), 1, 0, 0, 0) >>
\* plus distributions and delta of the quark coefficients of F2, F3, g1: 4 CF D1 - 3 CF D0 - CF (9 + 4 zeta2) delta
D0Coef == RMul(RI(-3), CF)
D1Coef == RMul(RI(4), CF)
DeltaCoef == <<RMul(RI(-9), CF), RMul(RI(-4), CF)>>          \* <<rational part, coefficient of zeta2>>

\* ---- exact first moments (N = 1) over Q[zeta2]: a number is <<rational, coefficient of zeta2>>
RECURSIVE H(_)
H(n) == IF n = 0 THEN Zero ELSE RAdd(H(n - 1), R(1, n))          \* harmonic number
RECURSIVE S2(_)
S2(n) == IF n = 0 THEN Zero ELSE RAdd(S2(n - 1), R(1, n * n))
Mom1(m) ==      \* int_0^1 z^a ln^b z ln^c(1-z) / (1-z)^d dz  for the monomial shapes that occur
  CASE m.b = 0 /\ m.c = 0 /\ m.d = 0 -> <<R(1, m.a + 1), Zero>>
    [] m.b = 1 /\ m.c = 0 /\ m.d = 0 -> <<RNeg(R(1, (m.a + 1) * (m.a + 1))), Zero>>
    [] m.b = 0 /\ m.c = 1 /\ m.d = 0 -> <<RNeg(RDiv(H(m.a + 1), RI(m.a + 1))), Zero>>
    [] m.b = 1 /\ m.c = 0 /\ m.d = 1 -> <<S2(m.a), RI(-1)>>      \* -(zeta2 - S2(a))
QAdd(u, v) == <<RAdd(u[1], v[1]), RAdd(u[2], v[2])>>
QScale(r, u) == <<RMul(r, u[1]), RMul(r, u[2])>>
RECURSIVE FirstMoment(_)
FirstMoment(tab) == IF tab = <<>> THEN <<Zero, Zero>> ELSE QAdd(QScale(Head(tab).coef, Mom1(Head(tab))), FirstMoment(Tail(tab)))
\* first moment of a full quark coefficient: regular part + delta (the plus distributions have vanishing first moment)
QuarkFirstMoment(tab) == QAdd(FirstMoment(tab), DeltaCoef)

\* ---- sum rules: coefficient of a_s^k of the first moment, as <<rational, coeff of zeta3, coeff of zeta5>>
Adler(order, nf) == <<Zero, Zero, Zero>>
GLS(order, nf) ==                    \* non-singlet part (the light-by-light term is carried by the valence channel)
  CASE order = 1 -> <<RI(-4), Zero, Zero>>
    [] order = 2 -> <<RMul(RI(-16), RSub(R(55, 12), R(nf, 3))), Zero, Zero>>
    [] order = 3 -> <<RMul(RI(-64), RAdd(RSub(R(13841, 216), RMul(RI(nf), R(10339, 1296))), RMul(RI(nf * nf), R(115, 648)))),
                      RMul(RI(-64), RSub(R(44, 9), RMul(RI(nf), R(61, 54)))),
                      RMul(RI(-64), RAdd(R(-55, 2), RMul(RI(nf), R(5, 3))))>>
Bjorken(order, nf) == GLS(order, nf)                    \* identical through a_s^2 (the polarised kernels stop there)
\* light-by-light (flavour class fl02) contribution to GLS at a_s^3, carried by the valence channel
LightByLight(nf) == <<RMul(R(640, 3), RMul(RI(nf), R(-11, 144))), RMul(R(640, 3), R(nf, 6)), Zero>>

\* ---- theorems on the tables
NLO_Adler == QuarkFirstMoment(C2qReg) = <<Zero, Zero>>
NLO_GLS == QuarkFirstMoment(C3qReg) = <<GLS(1, 3)[1], Zero>>
NLO_Bjorken == QuarkFirstMoment(G1qReg) = <<Bjorken(1, 3)[1], Zero>>
\* the first moment of Delta C_g vanishes (the gluon does not contribute to the Bjorken / Ellis-Jaffe first moment at NLO)
NLO_G1g == FirstMoment(G1gReg) = <<Zero, Zero>>
\* second moment of FL: C_Lq(N=2) = 4 CF / 3, C_Lg(N=2) = 16 TR (1/3 - 1/4) per flavour
=============================================================================
