------------------------------ MODULE Trace_C17 ------------------------------
(* Trace validation for C17.  "pred" lines: the predictions of the REAL apply_pdf for integer operators / PDF tables at  *)
(* logarithms LR, LF in {0,1,2} (snapped to exact rationals) must equal the contraction formula evaluated here.         *)
(* "alphas" lines: the coupling apply_pdf_theory builds must run with the number of flavours the card's scheme asks for. *)
EXTENDS OutputIO, FlavourNumber, Json, IOUtils
TraceLog == ndJsonDeserialize(IOEnv.TRACE_FILE)
NP == 3
NN == 3
Pred(L, lr, lf) ==
  LET res == [keys |-> L.keys, op |-> L.op] IN
  RSumSeq([ij \in 1..16 |-> LET i == (ij - 1) \div 4 j == (ij - 1) % 4 IN
             RMul(LogCoeff(res, L.pdf[lf + 1], L.has, L.as[lr + 1], L.aem, i, j, NP, NN), RMul(RPow(RI(lr), i), RPow(RI(lf), j)))])
AlphaNf(t, mu2) == IF t.FNS = "ZM-VFNS" THEN NfActive([t EXCEPT !.FNS = "ZM-VFNS"], mu2) ELSE t.NfFF
JudgePred(L) ==
  IF L.outcome # "OK" THEN "outcome_" \o L.outcome
  ELSE IF ~L.scales_ok THEN "pdf_or_coupling_called_at_wrong_scale"
  ELSE IF L.read_missing THEN "read_a_parton_the_pdf_does_not_provide"
  ELSE IF \E lr \in 0..2, lf \in 0..2 : L.observed[lr + 1][lf + 1] # Pred(L, lr, lf) THEN "prediction_differs_from_contraction_formula"
  ELSE IF \E lr \in 0..2, lf \in 0..2 : L.observed_err[lr + 1][lf + 1] # RMul(RI(2), Pred(L, lr, lf)) THEN "error_differs_from_contraction_formula"
  ELSE "ok"
JudgeAlpha(L) ==
  LET t == [FNS |-> L.fns, NfFF |-> L.nfff, m |-> L.m, k |-> [i \in 1..3 |-> Fin(L.k[i])]] IN
  IF L.outcome # "OK" THEN "outcome_" \o L.outcome
  ELSE IF \E i \in 1..Len(L.probes) : L.nf[i] # AlphaNf(t, L.probes[i]) THEN "nf_policy_differs_from_spec"
  ELSE IF L.ref_milli > 1000 THEN "alphas_at_Qref_is_not_the_card_value"
  ELSE IF L.run_milli > 1000 THEN "alphas_running_differs_from_card_order_and_scheme"
  ELSE IF L.modev_milli > 1000 THEN "alphas_running_does_not_follow_the_method_of_the_card"
  ELSE "ok"
Judge(L) == IF L.kind = "alphas" THEN JudgeAlpha(L) ELSE JudgePred(L)
VARIABLE l
Init == l = 1
Next == /\ l <= Len(TraceLog)
        /\ LET v == Judge(TraceLog[l]) IN IF v = "ok" THEN TRUE ELSE PrintT(<<"VERDICT", TraceLog[l].oid, v>>)
        /\ l' = l + 1
Spec == Init /\ [][Next]_l
Consumed == TLCGet("stats").diameter - 1
Accepted == PrintT(<<"CONSUMED", Consumed>>) /\ Consumed = Len(TraceLog)
=============================================================================
