------------------------------ MODULE Trace_C04 ------------------------------
(* Trace validation for C04: "rule" lines - the first moment of a real coefficient function against the sum-rule     *)
(* constant of the specification (echoed exactly, deviation in units of the tolerance); "form" lines - the largest     *)
(* pointwise deviation of a real NLO coefficient function from the closed-form table of the specification.            *)
EXTENDS Numerics, TLC, Json, IOUtils
TraceLog == ndJsonDeserialize(IOEnv.TRACE_FILE)
RuleValue(L) == CASE L.rule = "Adler" -> Adler(L.order, L.nf) [] L.rule = "GLS" -> GLS(L.order, L.nf)
                  [] L.rule = "Bjorken" -> Bjorken(L.order, L.nf) [] L.rule = "LightByLight" -> LightByLight(L.nf)
Judge(L) ==
  IF L.what = "rule" THEN
     IF L.value # RuleValue(L) THEN "constant_differs_from_spec"
     ELSE IF ~L.finite THEN "non_finite_moment"
     ELSE IF L.dev_milli > 1000 THEN "sum_rule_violated"
     ELSE "ok"
  ELSE IF L.what = "form" THEN
     IF L.dev_milli > 1000 THEN "differs_from_published_closed_form" ELSE "ok"
  ELSE "unknown_line"
VARIABLE l
Init == l = 1
Next == /\ l <= Len(TraceLog)
        /\ LET v == Judge(TraceLog[l]) IN IF v = "ok" THEN TRUE ELSE PrintT(<<"VERDICT", TraceLog[l].oid, v>>)
        /\ l' = l + 1
Spec == Init /\ [][Next]_l
Consumed == TLCGet("stats").diameter - 1
Accepted == PrintT(<<"CONSUMED", Consumed>>) /\ Consumed = Len(TraceLog)
=============================================================================
