------------------------------- MODULE MC_C20 -------------------------------
EXTENDS CardsHeap
VARIABLES sh, done
Shapes == {[fns |-> f, nfff |-> n, ptodis |-> p, parts |-> pa, sv |-> s, qed |-> q, aqed |-> a, target |-> tg] :
             f \in Schemes, n \in 3..5, p \in PtodisVals, pa \in PtodisVals, s \in {"absent", "present"},
             q \in {"absent", "zero", "one"}, a \in {"absent", "present"}, tg \in NamedTargets \cup {"dict"}}
Init == sh \in {[fns |-> f, nfff |-> n] : f \in Schemes, n \in 3..5} /\ done = FALSE
Next == /\ ~done /\ done' = TRUE
        /\ \E s \in Shapes : s.fns = sh.fns /\ s.nfff = sh.nfff /\ sh' = s
Spec == Init /\ [][Next]_<<sh, done>>
Inv_Caller == done => CallerHeapUnchanged(sh)
Inv_Idem   == done => UpdateIdempotent(sh)
Inv_Echo   == done => EchoExact(sh)
=============================================================================
