------------------------------ MODULE Trace_C09 ------------------------------
(* Trace validation for C09: per lattice point the observed emptiness of the heavy-quark operator rows of real runs  *)
(* (and, for CC, the position of the LO delta) against the thresholds computed here.                                 *)
EXTENDS Thresholds, TLC, Json, IOUtils
TraceLog == ndJsonDeserialize(IOEnv.TRACE_FILE)
\* "blind" lines: the loop of the second massive quark (bottom, NfFF = 3) isolated by a mass difference, against the loop of the
\* first (charm) at the same mass: none at or below the pair threshold, the same above it (Theorems.C09_MissingIsFlavourBlind)
JudgeBlind(L) ==
  LET closed == BelowPair(L.x, L.Q2, L.m2) IN
  IF L.outcome # "OK" THEN "outcome_" \o L.outcome
  ELSE IF closed /\ ~L.all_zero THEN "missing_channel_contributes_below_threshold"
  ELSE IF ~closed /\ L.all_zero THEN "missing_channel_absent_above_its_threshold"
  ELSE IF L.delta_milli > 1000 THEN "missing_channel_depends_on_the_quark_beyond_its_mass"
  ELSE "ok"
JudgeMain(L) ==
  LET empty == IF L.proc = "NC" THEN BelowPair(L.x, L.Q2, L.m2) ELSE CCEmpty(L.x, L.Q2, L.m2) IN
  IF L.outcome # "OK" THEN "outcome_" \o L.outcome
  ELSE IF empty /\ ~L.all_zero THEN "contribution_below_threshold"
  ELSE IF ~empty /\ L.all_zero THEN "no_contribution_above_threshold"
  ELSE IF L.proc = "NC" /\ empty /\ ~L.light_unchanged THEN "missing_channel_contributes_below_threshold"
  ELSE IF L.proc = "NC" /\ ~empty /\ ~L.partonic_ok THEN "integrand_does_not_respect_the_partonic_threshold"
  ELSE IF L.proc = "CC" /\ ~empty /\ L.chi # Chi(L.x, L.Q2, L.m2) THEN "wrong_rescaling_variable_in_spec_echo"
  ELSE IF L.proc = "CC" /\ ~empty /\ L.delta_milli > 1000 THEN "LO_not_at_the_slow_rescaling_point"
  ELSE "ok"
Judge(L) == IF L.proc = "blind" THEN JudgeBlind(L) ELSE JudgeMain(L)
VARIABLE l
Init == l = 1
Next == /\ l <= Len(TraceLog)
        /\ LET v == Judge(TraceLog[l]) IN IF v = "ok" THEN TRUE ELSE PrintT(<<"VERDICT", TraceLog[l].oid, v>>)
        /\ l' = l + 1
Spec == Init /\ [][Next]_l
Consumed == TLCGet("stats").diameter - 1
Accepted == PrintT(<<"CONSUMED", Consumed>>) /\ Consumed = Len(TraceLog)
=============================================================================
