------------------------------ MODULE Trace_C05op ------------------------------
(***************************************************************************)
(* Trace validation for the operators behind the factorisation-scale       *)
(* terms of C05: ScaleVariations.compute_raw(nf) on a REAL grid.  One line  *)
(* per (splitting label, nf, column k, history): column k of the operator   *)
(* the runner's manager holds must be  (P (x) p_l)(x_k)  for every basis    *)
(* function l of THE RUNNER'S OWN interpolation (own quadrature of the      *)
(* definition, in units of the tolerance), the corner entry (last node,     *)
(* last basis function) exactly zero as the code leaves it, and this        *)
(* whatever other runners - same nodes with another polynomial degree,      *)
(* other nodes, another number of nodes - computed their operators before   *)
(* in the same process (`hist`).                                            *)
(***************************************************************************)
EXTENDS Naturals, Sequences, TLC, Json, IOUtils
TraceLog == ndJsonDeserialize(IOEnv.TRACE_FILE)
\* the labels ScaleVariations builds, per order of the expansion (splitting_functions.raw_labels)
RawLabels == << {"P_qq_0", "P_qg_0"},
                {"P_gq_0", "P_gg_0", "P_qq_1", "P_qg_1", "P_nsp_1", "P_nsm_1", "P_qq_0^2", "P_qg_0P_gq_0", "P_qq_0P_qg_0", "P_qg_0P_gg_0"} >>
Histories == {"fresh", "same_nodes_other_degree_first", "other_nodes_first", "other_size_first", "all_first"}
Judge(L) ==
  IF L.outcome # "OK" THEN "outcome_" \o L.outcome
  ELSE IF L.hist \notin Histories \/ L.nf \notin 3..6 THEN "malformed_line"
  ELSE IF \A o \in 1..Len(RawLabels) : L.label \notin RawLabels[o] THEN "not_a_label_of_the_expansion"
  ELSE IF ~L.present THEN "operator_missing_after_compute_raw"
  ELSE IF ~L.finite THEN "non_finite_entry"
  ELSE IF ~L.corner_zero THEN "corner_entry_not_zero"
  ELSE IF L.dev_milli > 1000 THEN "operator_is_not_the_kernel_convolved_with_the_runners_own_basis"
  ELSE "ok"
VARIABLE l
Init == l = 1
Next == /\ l <= Len(TraceLog)
        /\ LET v == Judge(TraceLog[l]) IN IF v = "ok" THEN TRUE ELSE PrintT(<<"VERDICT", TraceLog[l].oid, v>>)
        /\ l' = l + 1
Spec == Init /\ [][Next]_l
Consumed == TLCGet("stats").diameter - 1
Accepted == PrintT(<<"CONSUMED", Consumed>>) /\ Consumed = Len(TraceLog)
=============================================================================
