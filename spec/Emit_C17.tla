------------------------------ MODULE Emit_C17 ------------------------------
(* C17 obligations: integer operators / PDF tables, and the exact prediction polynomial evaluated at LR, LF in {0,1,2}. *)
EXTENDS OutputIO, FlavourNumber, Json, IOUtils, SequencesExt
CONSTANTS PTOS, VARIANTS
NP == 3
NN == 3
BuildOrders4(pto) == SetToSeq({<<k, 0, r, f>> : k \in 0..pto, r \in 0..3, f \in 0..3} \cap
                              {key \in (0..3) \X {0} \X (0..3) \X (0..3) : key[4] <= key[1] /\ key[3] < IMax(key[1], 1)})
\* one key with a power of alpha_qed is appended so that the aem factor is exercised
KeysOf(pto) == BuildOrders4(pto) \o << <<pto, 1, 0, 0>> >>
OpOf(pto, v) == [m \in 1..Len(KeysOf(pto)) |-> [p \in 1..NP |-> [n \in 1..NN |-> ((m * 5 + p * 3 + n * 7 + v) % 7) - 3]]]
PdfOf(v, lf) == [p \in 1..NP |-> [n \in 1..NN |-> ((p * 2 + n + v + 3 * lf) % 5) - 2]]   \* the PDF depends on the factorisation scale
HasOf(v) == CASE v % 3 = 0 -> <<TRUE, TRUE, TRUE>> [] v % 3 = 1 -> <<TRUE, FALSE, TRUE>> [] OTHER -> <<FALSE, TRUE, TRUE>>
AsOf(v, lr) == R(1, 7 + v + 3 * lr)                                                     \* a_s depends on the renormalisation scale
AemOf(v) == R(1, 100 + v)
Pred(pto, v, lr, lf) ==
  LET res == [keys |-> KeysOf(pto), op |-> OpOf(pto, v)] IN
  RSumSeq([ij \in 1..16 |-> LET i == (ij - 1) \div 4 j == (ij - 1) % 4 IN
             RMul(LogCoeff(res, PdfOf(v, lf), HasOf(v), AsOf(v, lr), AemOf(v), i, j, NP, NN), RMul(RPow(RI(lr), i), RPow(RI(lf), j)))])
Obl(pto, v) == [pto |-> pto, v |-> v, keys |-> KeysOf(pto), op |-> OpOf(pto, v), has |-> HasOf(v), aem |-> AemOf(v),
                pdf |-> [lf \in 1..3 |-> PdfOf(v, lf - 1)], as |-> [lr \in 1..3 |-> AsOf(v, lr - 1)],
                expect |-> [lr \in 1..3 |-> [lf \in 1..3 |-> Pred(pto, v, lr - 1, lf - 1)]]]
\* alpha_s of apply_pdf_theory: number of flavours it must run with at probe scales
AlphaNf(t, mu2) == IF t.FNS = "ZM-VFNS" THEN NfActive([t EXCEPT !.FNS = "ZM-VFNS"], mu2) ELSE t.NfFF
MassOf(n) == CASE n = "a" -> <<R(3, 2), RI(3), R(9, 2)>> [] n = "b" -> <<RI(2), RI(5), RI(30)>>
KOf(n) == CASE n = "one" -> <<One, One, One>> [] n = "two" -> <<RI(2), One, One>> [] n = "mix" -> <<R(1, 2), R(3, 2), One>>
Probes == <<RI(1), RI(3), RI(5), RI(8), RI(12), RI(24), RI(60), RI(81), RI(500), RI(5000)>>     \* 81 = Qref^2 of the cards
AlphaObl(f, n, m, k) ==
  LET t == [FNS |-> f, NfFF |-> n, m |-> MassOf(m), k |-> [i \in 1..3 |-> Fin(KOf(k)[i])]] IN
  [kind |-> "alphas", fns |-> f, nfff |-> n, m |-> MassOf(m), k |-> KOf(k), probes |-> Probes,
   nf |-> [i \in 1..Len(Probes) |-> AlphaNf(t, Probes[i])], valid |-> Monotone(Thresholds([t EXCEPT !.FNS = "ZM-VFNS"]))]
ASSUME ndJsonSerialize(IOEnv.OUT, SetToSeq({Obl(p, v) : p \in PTOS, v \in VARIANTS}))
ASSUME ndJsonSerialize(IOEnv.OUT2, SetToSeq({AlphaObl(f, n, m, k) : f \in Schemes, n \in 3..5, m \in {"a", "b"}, k \in {"one", "two", "mix"}}))
=============================================================================
