CONSTANTS
  S2W <- S2W_q1
  RR <- RR_q
  OMD <- OMD_q
  POL <- POL_q
  NFZM = {3,4,5,6}
  KINDS = {"F2","FL","F3","g1","gL","g4"}
  PROCS = {"EM","NC","CC"}
  FLAVS = {"light","charm"}
  CKMS = {"generic","unitary"}
