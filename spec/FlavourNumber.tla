---------------------------- MODULE FlavourNumber ----------------------------
(***************************************************************************)
(* C06: the number of active flavours as a function of thresholds, scheme  *)
(* and Q2.  Three formulations that must agree:                            *)
(*   NfActive   (Cards)  3 + number of matching scales <= Q2               *)
(*   NfDigitize          the implementation's walls / np.digitize reading  *)
(*   NfClass             from the position CLASS of Q2 relative to the     *)
(*                       i-th matching scale (below / pred / at / succ /   *)
(*                       above), the form the replay uses                  *)
(***************************************************************************)
EXTENDS Cards

\* walls [0, c, b, t, inf): index of the right-open interval containing Q2, plus 2
NfDigitize(t, Q2) ==
  LET thr == Thresholds(t)
      walls == <<Fin(Zero), thr[1], thr[2], thr[3], Inf>>
      \* np.digitize(x, bins) for increasing bins = number of bins b with b <= x
      idx == Cardinality({j \in 1..5 : ELeq(walls[j], Fin(Q2))})
  IN 2 + idx

Classes == {"below", "pred", "at", "succ", "above"}
\* expected nf when Q2 sits in class cls relative to the FINITE positive matching scale number i
NfClass(t, i, cls) ==
  LET thr == Thresholds(t)
      lower == {j \in 1..3 : ~thr[j].inf /\ RLt(thr[j].v, thr[i].v)}
      equal == {j \in 1..3 : ~thr[j].inf /\ thr[j].v = thr[i].v}
  IN 3 + Cardinality(lower) + (IF cls \in {"at", "succ", "above"} THEN Cardinality(equal) ELSE 0)
\* a rational representative of the class (pred/succ: closer to thr_i than any other scale)
Q2Of(t, i, cls) ==
  LET v == Thresholds(t)[i].v IN
  CASE cls = "at" -> v
    [] cls = "pred" -> RMul(v, R(99, 100))
    [] cls = "succ" -> RMul(v, R(101, 100))
    [] cls = "below" -> RMul(v, R(9, 10))
    [] cls = "above" -> RMul(v, R(11, 10))
\* the class representative is valid: no other matching scale strictly between it and thr_i
ClassValid(t, i, cls) ==
  LET thr == Thresholds(t) v == thr[i].v q == Q2Of(t, i, cls) IN
  /\ ~thr[i].inf /\ ~RIsZero(v)
  /\ \A j \in 1..3 : (~thr[j].inf /\ thr[j].v # v) =>
        ~(RLt(thr[j].v, v) /\ RLeq(q, thr[j].v)) /\ ~(RLt(v, thr[j].v) /\ RLeq(thr[j].v, q))

\* ---- theorems (per theory t)
Valid(t) == RewriteFNS(t).ok /\ Monotone(Thresholds(t))
NfIsCount(t, i, cls) ==
  (Valid(t) /\ ClassValid(t, i, cls)) =>
     /\ NfActive(t, Q2Of(t, i, cls)) = NfDigitize(t, Q2Of(t, i, cls))
     /\ NfActive(t, Q2Of(t, i, cls)) = NfClass(t, i, cls)
FixedSchemesConstantNf(t, Q2) ==
  (t.FNS # "ZM-VFNS" /\ RewriteFNS(t).ok) => NfActive(t, Q2) = t.NfFF
MassiveFlags(t) ==
  LET mv == MassiveOf(t) n == Cardinality({q \in 4..6 : mv[q]}) IN
  CASE t.FNS = "ZM-VFNS" -> n = 0
    [] t.FNS \in {"FFNS", "FFN0"} -> \A q \in 4..6 : mv[q] = (q > t.NfFF)
    [] OTHER -> /\ n = (IF t.NfFF < 6 THEN 1 ELSE 0) /\ (t.NfFF < 6 => mv[t.NfFF + 1])
\* the beta function of the scale-variation terms uses the same number
Beta0Of(t, Q2) == Beta0(NfActive(t, Q2))
=============================================================================
