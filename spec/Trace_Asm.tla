------------------------------ MODULE Trace_Asm ------------------------------
(***************************************************************************)
(* One line = one cell: what the real Combiner.collect_elems() returned    *)
(* (class keys, weights per parton summed per class and snapped onto exact *)
(* rationals, number of flavours).  The specification recomputes its own   *)
(* assembly of the cell.  This is conformance of the MODEL, not a listed   *)
(* property: a departure is a NOTE (the theorems TLC proves on Kernels.tla *)
(* then no longer speak about this code and the model has to follow), the  *)
(* properties themselves are decided on real runs elsewhere.               *)
(***************************************************************************)
EXTENDS Lattice, Json, IOUtils
TraceLog == ndJsonDeserialize(IOEnv.TRACE_FILE)
ObsKeys(L) == {L.asm[i].key : i \in 1..Len(L.asm)}
ObsW(L, k) == LET i == CHOOSE j \in 1..Len(L.asm) : L.asm[j].key = k IN L.asm[i].w
NoteOf(L) ==
  LET c == CellOfPt(L.pt) a == AG(c) IN
  IF L.outcome # "OK" THEN "cell_not_served_" \o L.outcome
  ELSE IF L.nf # c.nf THEN "number_of_flavours_differs"
  ELSE IF ObsKeys(L) # DOMAIN a THEN "class_keys_differ"
  ELSE IF \E k \in DOMAIN a : \E i \in 1..13 : ObsW(L, k)[i] # a[k][PidSeq[i]] THEN "weights_differ"
  ELSE "none"
VARIABLE l
Init == l = 1
Next == /\ l <= Len(TraceLog)
        /\ LET n == NoteOf(TraceLog[l]) IN IF n = "none" THEN TRUE ELSE PrintT(<<"NOTE", TraceLog[l].oid, n>>)
        /\ l' = l + 1
Spec == Init /\ [][Next]_l
Consumed == TLCGet("stats").diameter - 1
Accepted == PrintT(<<"CONSUMED", Consumed>>) /\ Consumed = Len(TraceLog)
=============================================================================
