---------------------------- MODULE Emit_FileStore ----------------------------
(* Specification -> code: the behaviours of FileStore that end in a load, collected while TLC explores Next. *)
EXTENDS FileStore, Json, IOUtils, SequencesExt
ASSUME TLCSet(1, {})
Complete == Len(hist) > 0 /\ hist[Len(hist)][1] = "load"
Collect  == Complete => TLCSet(1, TLCGet(1) \cup {hist})
Written  == ndJsonSerialize(IOEnv.OUT, SetToSeq(TLCGet(1)))
=============================================================================
