------------------------------ MODULE RunLoop ------------------------------
(***************************************************************************)
(* The runner as a state machine (runner.py Runner.__init__/get_result,    *)
(* sf.py StructureFunction.load/get_esf/drop_cache, xs.py, esf/tmc.py      *)
(* request plans, esf.py local memo, scale_variations.compute_raw memo).   *)
(*                                                                         *)
(* Values are SYMBOLIC: an object computes its term from ITS OWN           *)
(* attributes, a request is identified by ITS kinematics BY NAME.  A cache *)
(* key that omits something the value depends on therefore shows up as a   *)
(* slot holding the wrong term (SlotsIdeal).                               *)
(*                                                                         *)
(* Abstract kinematics: x and Q2 are small integers (ids).  ShiftOf[x][q]  *)
(* is the id of the Nachtmann variable xi(x,Q2), NodesOf[x][q] the ids of  *)
(* the grid nodes whose basis function is not entirely below xi(x,Q2), in  *)
(* grid order, NfOf[q] the number of active flavours at Q2 id q.           *)
(***************************************************************************)
EXTENDS Integers, Sequences, FiniteSets, TLC

CONSTANTS ShiftOf, NodesOf, NfOf,   \* functions on x ids / Q2 ids
          KeyMode                   \* "byname" (values sorted by field name) | "dictorder" (values in dict order)

YId == 0                            \* the single y value used by cross-section requests
SFNames == {"F2", "FL"}
\* "F2s": the card spells the observable without heavyness ("F2" for F2_total).  Runner.__init__ files the SF object of a card
\* entry under the CARD spelling, runner.get_sf - the one target-mass corrections and cross sections go through - under the
\* canonical name: an SF object of its own for the top-level elements, the canonical one for everything internal.
ShortName == "F2s"
KindOf(n) == IF n = ShortName THEN "F2" ELSE n
XSName  == "XS"                     \* XSHERANCAVG-like: combines F2 and FL (exs.py skips F3 when its coefficient is 0)

\* a kinematics dict = sequence of <<name, value>> in dict order
Get(k, n)  == LET i == CHOOSE j \in 1..Len(k) : k[j][1] = n IN k[i][2]
HasF(k, n) == \E j \in 1..Len(k) : k[j][1] = n
Vals(k)    == [i \in 1..Len(k) |-> k[i][2]]
KinXQ(x, q) == << <<"x", x>>, <<"Q2", q>> >>
KinQX(x, q) == << <<"Q2", q>>, <<"x", x>> >>
\* values in the order of the sorted field names  ("Q2" < "x" < "y")
ByName(k) == <<Get(k, "Q2"), Get(k, "x")>> \o (IF HasF(k, "y") THEN <<Get(k, "y")>> ELSE <<>>)
Key(k, flag) == (IF KeyMode = "byname" THEN ByName(k) ELSE Vals(k)) \o <<flag>>

VARIABLES tmc,      \* 0 none, 1 APFEL, 2 approximate, 3 exact
          plan,     \* sequence of [name, kins]
          ncalls,   \* how many times get_result will be called
          heap,     \* id -> [cls, obs, x, q, computed]
          cache,    \* SF name -> (key -> id); DOMAIN cache = the SF objects that exist
          elems,    \* plan index -> sequence of element ids
          slots,    \* plan index -> sequence of terms (<<"empty">> before)
          pc, cur, pos, order, lastQ, call,
          svmemo,   \* set of nf for which the scale-variation operators have been computed
          events    \* observable sub-events of the last step (computes, sv computations), in order
vars == <<tmc, plan, ncalls, heap, cache, elems, slots, pc, cur, pos, order, lastQ, call, svmemo, events>>

\* ------------------------------------------------------------------ ideal, history-free semantics
Sh(x, q) == ShiftOf[x][q]
Nd(x, q) == NodesOf[x][q]
RawT(o, x, q)  == <<"raw", o, x, q>>
NodeTerms(x, q) == [i \in 1..Len(Nd(x, q)) |-> RawT("F2", Nd(x, q)[i], q)]
TmcT(m, o, x, q) ==
  CASE m = 2 /\ o = "F2" -> <<"tmc", m, o, x, q, RawT("F2", Sh(x, q), q)>>
    [] m = 2 /\ o = "FL" -> <<"tmc", m, o, x, q, RawT("FL", Sh(x, q), q), RawT("F2", Sh(x, q), q)>>
    [] OTHER             -> <<"tmc", m, o, x, q, RawT(o, Sh(x, q), q), NodeTerms(x, q)>>
SFT(m, o, x, q) == IF m = 0 THEN RawT(o, x, q) ELSE TmcT(m, o, x, q)
Ideal(m, name, k) ==
  IF name = XSName THEN <<"xs", Get(k, "x"), Get(k, "Q2"), SFT(m, "F2", Get(k, "x"), Get(k, "Q2")), SFT(m, "FL", Get(k, "x"), Get(k, "Q2"))>>
  ELSE SFT(m, KindOf(name), Get(k, "x"), Get(k, "Q2"))

\* ------------------------------------------------------------------ implementation-shaped part
\* a "machine" M = [h, c, ev, sv, t] is threaded through the nested calls of one step (t = TMC mode)
Mk(h, c, ev, sv, t) == [h |-> h, c |-> c, ev |-> ev, sv |-> sv, t |-> t]
NewId(h) == Cardinality(DOMAIN h) + 1
\* runner.get_sf: the SF object is created on first use
EnsureSF(M, o) == IF o \in DOMAIN M.c THEN M ELSE [M EXCEPT !.c = @ @@ (o :> <<>>)]
\* StructureFunction.get_esf on the SF named o.  Returns <<M', id>>
GetEsf(M0, o, k, useRaw) ==
  LET M    == EnsureSF(M0, o)
      flag == (~useRaw) /\ M0.t # 0
      key  == Key(k, flag) IN
  IF key \in DOMAIN M.c[o] THEN <<M, M.c[o][key]>>
  ELSE LET id  == NewId(M.h)
           obj == [cls |-> IF flag THEN "TMC" ELSE "ESF", obs |-> KindOf(o), x |-> Get(k, "x"), q |-> Get(k, "Q2"),
                   computed |-> FALSE]
       IN <<[M EXCEPT !.h = @ @@ (id :> obj), !.c[o] = @ @@ (key :> id)], id>>

\* EvaluatedStructureFunction.get_result: compute_local once per OBJECT, from the object's own attributes;
\* the scale-variation operators are computed once per nf (ScaleVariations.operators memo)
EvalESF(M, id) ==
  LET obj == M.h[id] IN
  IF obj.computed THEN <<M, RawT(obj.obs, obj.x, obj.q)>>
  ELSE LET nf == NfOf[obj.q]
           e1 == IF nf \in M.sv THEN <<>> ELSE << <<"SV", nf>> >>
       IN <<[M EXCEPT !.h[id].computed = TRUE, !.ev = @ \o e1 \o << <<"Compute", obj.obs, obj.x, obj.q>> >>,
                       !.sv = @ \cup {nf}],
            RawT(obj.obs, obj.x, obj.q)>>

\* raw look-up + evaluation on SF o (TMC internals always use use_raw = TRUE, i.e. flag FALSE)
RawLookup(M, o, k) == LET r == GetEsf(M, o, k, TRUE) IN EvalESF(r[1], r[2])
RECURSIVE NodeLoop(_, _, _, _)
NodeLoop(M, js, q, acc) ==
  IF js = <<>> THEN <<M, acc>>
  ELSE LET r == RawLookup(M, "F2", KinQX(Head(js), q)) IN NodeLoop(r[1], Tail(js), q, Append(acc, r[2]))
\* EvaluatedStructureFunctionTMC.get_result (never memoised)
EvalTMC(M, id) ==
  LET obj == M.h[id] o == obj.obs x == obj.x q == obj.q
      r1 == RawLookup(M, o, KinXQ(Sh(x, q), q))                         \* own kind at the shifted point
      tm == M.t
  IN CASE tm = 2 /\ o = "F2" -> <<r1[1], <<"tmc", tm, o, x, q, r1[2]>> >>
       [] tm = 2 /\ o = "FL" -> LET r2 == RawLookup(r1[1], "F2", KinXQ(Sh(x, q), q))
                                IN <<r2[1], <<"tmc", tm, o, x, q, r1[2], r2[2]>> >>
       [] OTHER -> LET r2 == NodeLoop(r1[1], Nd(x, q), q, <<>>)          \* h2 over the F2 nodes
                       r3 == IF tm = 3 THEN NodeLoop(r2[1], Nd(x, q), q, <<>>) ELSE r2   \* g2: second pass
                   IN <<r3[1], <<"tmc", tm, o, x, q, r1[2], r2[2]>> >>
EvalSFObj(M, id) == IF M.h[id].cls = "TMC" THEN EvalTMC(M, id) ELSE EvalESF(M, id)
\* EvaluatedCrossSection.get_result: runner.get_sf(F2).get_esf(.., kin, use_raw=FALSE) with the FULL dict {x,Q2,y}
EvalXS(M, id) ==
  LET obj == M.h[id]
      g1 == GetEsf(M, "F2", obj.kin, FALSE)   r1 == EvalSFObj(g1[1], g1[2])
      g2 == GetEsf(r1[1], "FL", obj.kin, FALSE)  r2 == EvalSFObj(g2[1], g2[2])
  IN <<r2[1], <<"xs", obj.x, obj.q, r1[2], r2[2]>> >>
EvalElem(M, id) == IF M.h[id].cls = "EXS" THEN EvalXS(M, id) ELSE EvalSFObj(M, id)

DropAll(c) == [o \in DOMAIN c |-> <<>>]

\* Runner.__init__: SF / XS objects in runcard order, every kinematics loaded (SF.load -> get_esf(use_raw=FALSE))
RECURSIVE LoadKins(_, _, _, _)
LoadKins(M, name, ks, acc) ==
  IF ks = <<>> THEN <<M, acc>>
  ELSE IF name = XSName
       THEN LET id == NewId(M.h)
                obj == [cls |-> "EXS", obs |-> name, x |-> Get(Head(ks), "x"), q |-> Get(Head(ks), "Q2"),
                        computed |-> FALSE, kin |-> Head(ks)]
            IN LoadKins([M EXCEPT !.h = @ @@ (id :> obj)], name, Tail(ks), Append(acc, id))
       ELSE LET r == GetEsf(M, name, Head(ks), FALSE) IN LoadKins(r[1], name, Tail(ks), Append(acc, r[2]))
RECURSIVE LoadPlan(_, _, _)
LoadPlan(M, p, acc) ==
  IF p = <<>> THEN <<M, acc>>
  ELSE LET M1 == IF Head(p).name = XSName THEN M ELSE EnsureSF(M, Head(p).name)
           r == LoadKins(M1, Head(p).name, Head(p).kins, <<>>)
       IN LoadPlan(r[1], Tail(p), Append(acc, r[2]))

\* stable sort of element indices by the element's Q2 (sorted(enumerate(..), key=Q2))
RECURSIVE SortIdx(_, _)
SortIdx(S, f) == IF S = {} THEN <<>> ELSE
  LET m == CHOOSE i \in S : \A j \in S : f[i] < f[j] \/ (f[i] = f[j] /\ i <= j) IN <<m>> \o SortIdx(S \ {m}, f)

\* the state right after Runner.__init__ as a record of variable values
Loaded(t, p, n) ==
  LET r == LoadPlan(Mk(<<>>, <<>>, <<>>, {}, t), p, <<>>) IN
  [tmc |-> t, plan |-> p, ncalls |-> n, heap |-> r[1].h, cache |-> r[1].c, elems |-> r[2],
   slots |-> [i \in 1..Len(p) |-> [j \in 1..Len(p[i].kins) |-> <<"empty">>]]]
InitWith(t, p, n) ==
  LET s == Loaded(t, p, n) IN
  /\ tmc = s.tmc /\ plan = s.plan /\ ncalls = s.ncalls /\ heap = s.heap /\ cache = s.cache /\ elems = s.elems
  /\ slots = s.slots
  /\ pc = "start" /\ cur = 1 /\ pos = 1 /\ order = <<>> /\ lastQ = -1 /\ call = 1 /\ svmemo = {} /\ events = <<>>
\* a NEW runner (used by the trace specification between recorded runs); the scale-variation memo
\* belongs to the runner, so it is reset as well
Reset(t, p, n) ==
  LET s == Loaded(t, p, n) IN
  /\ tmc' = s.tmc /\ plan' = s.plan /\ ncalls' = s.ncalls /\ heap' = s.heap /\ cache' = s.cache /\ elems' = s.elems
  /\ slots' = s.slots
  /\ pc' = "start" /\ cur' = 1 /\ pos' = 1 /\ order' = <<>> /\ lastQ' = -1 /\ call' = 1 /\ svmemo' = {} /\ events' = <<>>

StartObsGuard == pc = "start" /\ cur <= Len(plan)
StartObs ==
  /\ StartObsGuard
  /\ order' = SortIdx(DOMAIN elems[cur], [i \in DOMAIN elems[cur] |-> heap[elems[cur][i]].q])
  /\ pos' = 1 /\ lastQ' = -1 /\ pc' = "loop" /\ events' = <<>>
  /\ UNCHANGED <<tmc, plan, ncalls, heap, cache, elems, slots, cur, call, svmemo>>

StepGuard == pc = "loop" /\ pos <= Len(order)
\* effect of evaluating the next element (a record, so that the trace specification can look at it)
StepRes ==
  LET idx == order[pos]
      id  == elems[cur][idx]
      q   == heap[id].q
      dropped == lastQ # -1 /\ lastQ # q                                  \* drop_cache on a change of Q2
      c0  == IF dropped THEN DropAll(cache) ELSE cache
      r   == EvalElem(Mk(heap, c0, IF dropped THEN << <<"Drop">> >> ELSE <<>>, svmemo, tmc), id)
  IN [idx |-> idx, q |-> q, M |-> r[1], term |-> r[2]]
Step ==
  /\ StepGuard
  /\ LET r == StepRes IN
        /\ heap' = r.M.h /\ cache' = r.M.c /\ svmemo' = r.M.sv /\ events' = r.M.ev
        /\ slots' = [slots EXCEPT ![cur][r.idx] = r.term]
        /\ lastQ' = r.q
  /\ pos' = pos + 1
  /\ UNCHANGED <<tmc, plan, ncalls, elems, pc, cur, order, call>>

EndObsGuard == pc = "loop" /\ pos > Len(order)
EndObs ==
  /\ EndObsGuard
  /\ cache' = DropAll(cache) /\ cur' = cur + 1 /\ pc' = "start" /\ events' = << <<"Drop">> >>
  /\ UNCHANGED <<tmc, plan, ncalls, heap, elems, slots, pos, order, lastQ, call, svmemo>>

\* get_result returned; the caller may ask again from the same runner
AgainGuard == pc = "start" /\ cur > Len(plan) /\ call < ncalls
Again ==
  /\ AgainGuard
  /\ call' = call + 1 /\ cur' = 1 /\ events' = <<>>
  /\ UNCHANGED <<tmc, plan, ncalls, heap, cache, elems, slots, pc, pos, order, lastQ, svmemo>>

Returned == pc = "start" /\ cur > Len(plan)
Next == StartObs \/ Step \/ EndObs \/ Again

\* ------------------------------------------------------------------ properties
Filled(i, j) == slots[i][j] # <<"empty">>
\* every filled slot holds the history-free ideal term of ITS request
SlotsIdeal == \A i \in 1..Len(plan) : \A j \in 1..Len(plan[i].kins) :
                Filled(i, j) => slots[i][j] = Ideal(tmc, plan[i].name, plan[i].kins[j])
\* a cache entry holds an object of that SF with the kinematics and TMC flag the key stands for
CacheCoherent == \A o \in DOMAIN cache : \A key \in DOMAIN cache[o] :
                   LET ob == heap[cache[o][key]] IN ob.obs = KindOf(o) /\ (ob.cls = "TMC") = key[Len(key)]
\* when get_result returns, every requested slot is filled
AllFilledAtReturn == Returned => \A i \in 1..Len(plan) : \A j \in 1..Len(plan[i].kins) : Filled(i, j)
\* results never change once stored (second call gives the same terms)
SlotsStable == [][\A i \in 1..Len(plan) : \A j \in 1..Len(plan[i].kins) :
                    Filled(i, j) => slots'[i][j] = slots[i][j]]_vars
\* an object is computed at most once (local memo), operators once per nf
ComputeOnce == \A e \in 1..Len(events) : events[e][1] = "SV" => events[e][2] \in svmemo
=============================================================================
