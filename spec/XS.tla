--------------------------------- MODULE XS ---------------------------------
(***************************************************************************)
(* Reduced cross sections as linear combinations of structure functions    *)
(* (docs/source/theory/intro.rst, "Cross sections"; esf/exs.py):           *)
(*   sigma = a F2 + b FL + c xF3   with                                    *)
(*   sigma = N ( F2 - yL/y+ FL + (-1)^l y-/y+ xF3 ),  l = 0 leptons,       *)
(*   1 antileptons.  N may contain transcendental / dimensionful constants *)
(*   (pi, G_F, unit conversions): they are ATOMS, the specification gives  *)
(*   the exact rational prefactor of the atom.                             *)
(* A point: [x, y, Q2, M, MW2] rationals (M the target MASS, so that M^2   *)
(* and M are both rational).                                               *)
(***************************************************************************)
EXTENDS Rat

XSKinds == {"XSHERANC", "XSHERANCAVG", "XSHERACC", "XSCHORUSCC", "XSNUTEVCC", "XSNUTEVNU", "FW", "F1", "g5", "XSFPFCC"}
Yp(y) == RAdd(One, RSq(RSub(One, y)))
Ym(y) == RSub(One, RSq(RSub(One, y)))
YL(y) == RSq(y)
\* y+ with the target-mass term of the CHORUS / NuTeV definitions
Ypc(p) == RSub(Yp(p.y), RDiv(RMul(RI(2), RSq(RMul(RMul(p.M, p.x), p.y))), p.Q2))
Prop(p) == RSq(RAdd(One, RDiv(p.Q2, p.MW2)))                      \* (1 + Q2/MW2)^2
Sign(proj) == IF proj < 0 THEN -1 ELSE 1                          \* (-1)^l
\* atoms: "one";  "GF2_CM2/pi" = G_F^2 * (GeV^-2 -> 1e-38 cm^2) / pi ;  "GF2_PB/pi" = G_F^2 * (GeV^-2 -> pb) / pi
Atom(kind) == CASE kind \in {"XSCHORUSCC", "XSNUTEVNU"} -> "GF2_CM2/pi" [] kind = "XSFPFCC" -> "GF2_PB/pi" [] OTHER -> "one"
\* rational part of the normalisation n with  sigma = n (y+ F2 - yL FL + s y- xF3)
\* (docFPF selects the normalisation the documentation had before it was corrected, 8 pi x instead of 4 pi x; kept so
\*  that the check can tell "differs from the old documentation" from "differs from the combination")
Norm(kind, p, docFPF) ==
  CASE kind = "XSHERACC"   -> R(1, 4)
    [] kind = "XSCHORUSCC" -> RDiv(p.M, RMul(RI(2), Prop(p)))
    [] kind = "XSNUTEVCC"  -> RDiv(RI(100), RMul(RI(2), Prop(p)))
    [] kind = "XSNUTEVNU"  -> RDiv(p.M, RI(2))
    [] kind = "XSFPFCC"    -> RDiv(One, RMul(RMul(RI(IF docFPF THEN 8 ELSE 4), p.x), Prop(p)))
    [] OTHER -> One
\* <<a, b, c>> on the basis (F2, FL, xF3)  [ (g4, gL, 2x g1) for g5 ]
Coeffs(kind, proj, p, docFPF) ==
  LET s == RI(Sign(proj)) IN
  CASE kind \in {"F1", "g5"}   -> <<One, RI(-1), Zero>>                         \* 2xF1 = F2 - FL, 2x g5 = g4 - gL
    [] kind = "XSHERANCAVG"    -> <<One, RNeg(RDiv(YL(p.y), Yp(p.y))), Zero>>
    [] kind = "XSHERANC"       -> <<One, RNeg(RDiv(YL(p.y), Yp(p.y))), RMul(s, RDiv(Ym(p.y), Yp(p.y)))>>
    [] kind = "FW"             -> <<One, RNeg(RDiv(RSq(p.y), RMul(RI(2), RSub(RAdd(RDiv(RSq(p.y), RI(2)), RSub(One, p.y)),
                                                                              RDiv(RSq(RMul(RMul(p.M, p.x), p.y)), p.Q2))))), Zero>>
    [] kind \in {"XSCHORUSCC", "XSNUTEVCC", "XSNUTEVNU"} ->
         LET n == Norm(kind, p, docFPF) IN <<RMul(n, Ypc(p)), RNeg(RMul(n, YL(p.y))), RMul(n, RMul(s, Ym(p.y)))>>
    [] OTHER -> LET n == Norm(kind, p, docFPF) IN <<RMul(n, Yp(p.y)), RNeg(RMul(n, YL(p.y))), RMul(n, RMul(s, Ym(p.y)))>>
NeedsF3(kind, proj, p) == Coeffs(kind, proj, p, FALSE)[3] # Zero
Basis(kind) == IF kind = "g5" THEN <<"g4", "gL", "g1">> ELSE <<"F2", "FL", "F3">>

\* ---- theorems
\* the sign of the F3 term is fixed by the lepton charge and nothing else changes with it
SignRule(kind, p) == LET a == Coeffs(kind, 11, p, FALSE) b == Coeffs(kind, -11, p, FALSE) IN
                     a[1] = b[1] /\ a[2] = b[2] /\ a[3] = RNeg(b[3])
\* HERA CC is y+/4 times HERA NC; NuTeV CC and CHORUS differ by a constant of the point only
Related(p) == LET nc == Coeffs("XSHERANC", 11, p, FALSE) cc == Coeffs("XSHERACC", 11, p, FALSE) f == RDiv(Yp(p.y), RI(4)) IN
              \A i \in 1..3 : cc[i] = RMul(f, nc[i])
\* the documented form  N (F2 - yL/y+ FL + s y-/y+ xF3)  with N = n y+ is the same thing whenever y+ # 0
DocForm(kind, proj, p) ==
  (kind \in {"XSHERACC", "XSFPFCC"}) =>
     LET c == Coeffs(kind, proj, p, FALSE) yp == Yp(p.y) N == c[1] IN
     /\ c[2] = RNeg(RMul(N, RDiv(YL(p.y), yp))) /\ c[3] = RMul(N, RMul(RI(Sign(proj)), RDiv(Ym(p.y), yp)))
=============================================================================
