---------------------------- MODULE MC_Session ----------------------------
(* Exhaustive small-constant instance of Session: three coordinates (one with two alternatives), every schedule of up *)
(* to MaxRunners runners and MaxEvents events.  Run with LeakMode = "none" (the properties hold) and with the two faulty *)
(* variants (SessionIdeal must fail: negative controls).                                                               *)
EXTENDS Session
MCCoords == {"a", "b", "c"}
MCAlts   == [c \in MCCoords |-> IF c = "b" THEN 2 ELSE 1]
\* the history variable is not part of the state identity
View == <<runners, modstate>>
=============================================================================
