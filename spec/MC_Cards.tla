------------------------------ MODULE MC_Cards ------------------------------
(* Staged lattice of theories for the flavour-number theorems (C06). *)
EXTENDS FlavourNumber
CONSTANTS NFFFS, MASSES, KS
VARIABLES stage, th, probe
vars == <<stage, th, probe>>
MassOf(n) == CASE n = "a" -> <<R(3, 2), RI(3), R(9, 2)>> [] n = "b" -> <<RI(2), RI(5), RI(30)>> [] n = "c" -> <<R(3, 2), R(3, 2), RI(4)>>
KOf(n) == CASE n = "one" -> <<One, One, One>> [] n = "two" -> <<RI(2), One, One>> [] n = "half" -> <<One, R(1, 2), RI(2)>>
            [] n = "mix" -> <<R(1, 2), R(3, 2), One>>
Init == /\ stage = 0 /\ probe = <<>>
        /\ th \in {[FNS |-> f, NfFF |-> n, m |-> MassOf(m), k |-> [i \in 1..3 |-> Fin(KOf(k)[i])]] :
                     f \in Schemes, n \in NFFFS, m \in MASSES, k \in KS}
Pick == /\ stage = 0 /\ stage' = 1 /\ UNCHANGED th
        /\ \E i \in 1..3, c \in Classes : probe' = <<i, c>>
Spec == Init /\ [][Pick]_vars
Leaf == stage = 1
Inv_NfIsCount == Leaf => NfIsCount(th, probe[1], probe[2])
Inv_Fixed == Leaf => \A q \in {R(1, 100), RI(1), RI(10), RI(100000)} : FixedSchemesConstantNf(th, q)
Inv_Massive == Leaf => (RewriteFNS(th).ok => MassiveFlags(th))
=============================================================================
