-------------------------------- MODULE Rat --------------------------------
(***************************************************************************)
(* Exact rational arithmetic for TLC.  A rational is a pair <<num, den>>   *)
(* with den > 0 and gcd(|num|, den) = 1.  TLC integers are 32 bit and TLC  *)
(* RAISES on overflow, so a result is either exact or the run aborts       *)
(* (machinery failure, never a silently wrong verdict).                    *)
(***************************************************************************)
EXTENDS Integers, Sequences, FiniteSets

RECURSIVE Gcd(_, _)
Gcd(a, b) == IF b = 0 THEN a ELSE Gcd(b, a % b)
Abs(a)    == IF a < 0 THEN -a ELSE a
Sgn(a)    == IF a < 0 THEN -1 ELSE IF a = 0 THEN 0 ELSE 1
IMax(a, b) == IF a >= b THEN a ELSE b
IMin(a, b) == IF a <= b THEN a ELSE b

RNorm(n, d) ==
  IF n = 0 THEN <<0, 1>>
  ELSE LET g == Gcd(Abs(n), Abs(d))
           s == IF d < 0 THEN -1 ELSE 1
       IN <<s * (n \div g), s * (d \div g)>>

R(n, d)   == RNorm(n, d)
RI(n)     == <<n, 1>>
Zero      == <<0, 1>>
One       == <<1, 1>>
IsRat(a)  == /\ a \in Int \X Int
             /\ a[2] > 0
             /\ Gcd(Abs(a[1]), a[2]) = 1

RNeg(a)    == <<-a[1], a[2]>>
RMul(a, b) ==
  IF a[1] = 0 \/ b[1] = 0 THEN Zero
  ELSE LET g1 == Gcd(Abs(a[1]), b[2])
           g2 == Gcd(Abs(b[1]), a[2])
       IN <<(a[1] \div g1) * (b[1] \div g2), (a[2] \div g2) * (b[2] \div g1)>>
Lcm(a, b)  == (a \div Gcd(a, b)) * b
RAdd(a, b) == LET l == Lcm(a[2], b[2])
              IN RNorm(a[1] * (l \div a[2]) + b[1] * (l \div b[2]), l)
RSub(a, b) == RAdd(a, RNeg(b))
RInv(a)    == IF a[1] < 0 THEN <<-a[2], -a[1]>> ELSE <<a[2], a[1]>>
RDiv(a, b) == RMul(a, RInv(b))
RSq(a)     == RMul(a, a)
RScale(k, a) == RMul(RI(k), a)
RIsZero(a) == a[1] = 0
RSign(a)   == Sgn(a[1])
\* comparisons through cross multiplication (denominators positive)
RLeq(a, b) == a[1] * b[2] <= b[1] * a[2]
RLt(a, b)  == a[1] * b[2] < b[1] * a[2]
RAbs(a)    == <<Abs(a[1]), a[2]>>

RECURSIVE RSumSeq(_)
RSumSeq(s) == IF s = <<>> THEN Zero ELSE RAdd(Head(s), RSumSeq(Tail(s)))

\* Sum of f[x] over a finite set S (f a function into rationals)
RECURSIVE RSumOver(_, _)
RSumOver(S, f) ==
  IF S = {} THEN Zero
  ELSE LET x == CHOOSE y \in S : TRUE IN RAdd(f[x], RSumOver(S \ {x}, f))

RECURSIVE RPow(_, _)
RPow(a, n) == IF n = 0 THEN One ELSE RMul(a, RPow(a, n - 1))

RECURSIVE Binom(_, _)
Binom(n, k) == IF k = 0 \/ k = n THEN 1 ELSE Binom(n - 1, k - 1) + Binom(n - 1, k)
RECURSIVE IPow(_, _)
IPow(a, n) == IF n = 0 THEN 1 ELSE a * IPow(a, n - 1)
=============================================================================
