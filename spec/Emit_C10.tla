------------------------------ MODULE Emit_C10 ------------------------------
EXTENDS TMC, Json, IOUtils, SequencesExt
CONSTANT DEEP     \* thorough tier: a finer lattice in x and in rho = sqrt(1 + 4 x^2 M^2 / Q2) (rational by construction)
Xs == IF DEEP THEN {R(1, 8), R(1, 4), R(2, 5), R(1, 2), R(3, 5), R(3, 4), R(7, 8), R(19, 20)} ELSE {R(1, 4), R(2, 5), R(3, 4), R(19, 20)}      \* (19/20: xi in the LAST interval of the grid for the smaller rho)
Rhos == IF DEEP THEN {R(9, 8), R(5, 4), R(3, 2), RI(2), RI(3)} ELSE {R(9, 8), R(5, 4), R(3, 2)}
Obls == {[kind |-> k, mode |-> m, p |-> [x |-> x, rho |-> r], mu |-> Mu([x |-> x, rho |-> r]), xi |-> Xi([x |-> x, rho |-> r]),
          terms |-> Formula(k, m, [x |-> x, rho |-> r])] : k \in Kinds, m \in Modes, x \in Xs, r \in Rhos}
ASSUME ndJsonSerialize(IOEnv.OUT, SetToSeq(Obls))
=============================================================================
