------------------------------ MODULE Emit_C10 ------------------------------
EXTENDS TMC, Json, IOUtils, SequencesExt
Xs == {R(1, 4), R(2, 5), R(3, 4)}
Rhos == {R(9, 8), R(5, 4), R(3, 2)}
Obls == {[kind |-> k, mode |-> m, p |-> [x |-> x, rho |-> r], mu |-> Mu([x |-> x, rho |-> r]), xi |-> Xi([x |-> x, rho |-> r]),
          terms |-> Formula(k, m, [x |-> x, rho |-> r])] : k \in Kinds, m \in Modes, x \in Xs, r \in Rhos}
ASSUME ndJsonSerialize(IOEnv.OUT, SetToSeq(Obls))
=============================================================================
