------------------------------ MODULE Emit_C20 ------------------------------
EXTENDS CardsHeap, Json, IOUtils, SequencesExt
CONSTANTS FNSS, NFFFS, TARGETS
Shapes == {[fns |-> f, nfff |-> n, ptodis |-> p, parts |-> pa, sv |-> s, qed |-> q, aqed |-> a, target |-> tg] :
             f \in FNSS, n \in NFFFS, p \in PtodisVals, pa \in PtodisVals, s \in {"absent", "present"},
             q \in {"absent", "zero", "one"}, a \in {"absent", "present"}, tg \in TARGETS}
ASSUME ndJsonSerialize(IOEnv.OUT, SetToSeq({[shape |-> s, expect |-> ProjOf(s)] : s \in Shapes}))
=============================================================================
