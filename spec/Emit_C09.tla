------------------------------ MODULE Emit_C09 ------------------------------
EXTENDS Thresholds, Json, IOUtils, SequencesExt
CONSTANT DEEP      \* thorough tier: a finer lattice
Xs == IF DEEP THEN {R(1, 16), R(1, 8), R(1, 4), R(3, 8), R(1, 2), R(5, 8), R(3, 4), R(7, 8), R(9, 10)}
      ELSE {R(1, 8), R(1, 4), R(1, 2), R(3, 4)}
\* charm mass 3/2 (m2 = 9/4), bottom mass 9/2 (m2 = 81/4); Q2 chosen so that some points sit EXACTLY on a threshold:
\*   Q2 (1-x)/x = 4 m2 = 9  at (x=1/2,Q2=9), (x=1/4,Q2=3), (x=3/4,Q2=27)
\* deep: more exact hits  (x=3/8,Q2=27/5 no; x=1/10... ) 4 m_c^2 = 9: (9/10, 81), (1/2, 9), (1/4, 3), (3/4, 27), (1/16 -> 3/5);
\*       4 m_b^2 = 81: (1/4, 27), (1/2, 81), (3/4, 243), (9/10, 729)
Q2s == IF DEEP THEN {RI(2), RI(3), R(3, 5), RI(5), RI(9), RI(12), RI(27), RI(45), RI(81), RI(100), RI(243), RI(729), RI(2000)}
       ELSE {RI(3), RI(9), RI(27), RI(12), RI(100), RI(2)}
\* (mass^2, heavy quark, NfFF): the threshold of a heavy quark is set by ITS OWN mass whatever the number of light flavours
\* (bottom as second massive quark with NfFF = 3, as first with NfFF = 4); 4 m_b^2 = 81 is met exactly at (x=1/4, Q2=27)
HQs == {<<R(9, 4), 4, 3>>, <<R(81, 4), 5, 3>>, <<R(81, 4), 5, 4>>}
NC == {[proc |-> "NC", x |-> x, Q2 |-> q, m2 |-> m[1], hq |-> m[2], nfff |-> m[3], cls |-> PairClass(x, q, m[1]),
        empty |-> BelowPair(x, q, m[1]), chi |-> x] : x \in Xs, q \in Q2s, m \in HQs}
CC == {[proc |-> "CC", x |-> x, Q2 |-> q, m2 |-> m[1], hq |-> m[2], nfff |-> m[3], cls |-> IF CCEmpty(x, q, m[1]) THEN "below" ELSE "above",
        empty |-> CCEmpty(x, q, m[1]), chi |-> Chi(x, q, m[1])] : x \in Xs, q \in Q2s, m \in HQs}
ASSUME \E o \in NC : o.cls = "at"
ASSUME ndJsonSerialize(IOEnv.OUT, SetToSeq(NC \cup CC))
=============================================================================
