------------------------------ MODULE Emit_C11 ------------------------------
EXTENDS XS, Json, IOUtils, SequencesExt
CONSTANTS KINDS, PROJS
ProjOf(n) == CASE n = "e-" -> 11 [] n = "e+" -> -11 [] n = "nu" -> 12 [] n = "nubar" -> -12
Points == { [x |-> R(3, 10), y |-> R(1, 2), Q2 |-> RI(20), M |-> R(15, 16), MW2 |-> RI(6400)],
            [x |-> R(1, 10), y |-> R(1, 5), Q2 |-> RI(4), M |-> R(15, 16), MW2 |-> RI(6400)],
            [x |-> R(9, 10), y |-> R(19, 20), Q2 |-> One, M |-> One, MW2 |-> RI(6400)],       \* y+ of CHORUS/NuTeV negative here
            [x |-> R(1, 2), y |-> One, Q2 |-> RI(9), M |-> R(15, 16), MW2 |-> RI(6400)] }      \* the end of the y range
ASSUME \A p \in Points, k \in XSKinds : SignRule(k, p) /\ Related(p) /\ DocForm(k, 11, p) /\ DocForm(k, -12, p)
ASSUME \E p \in Points : RLt(Ypc(p), Zero)
\* a second request at the SAME (x, Q2) with half the inelasticity, in the same card: the coefficients are functions of y
Half(p) == [p EXCEPT !.y = RDiv(p.y, RI(2))]
Obls == {[kind |-> k, proj |-> ProjOf(j), pt |-> p, coeffs |-> Coeffs(k, ProjOf(j), p, FALSE), atom |-> Atom(k),
          coeffs2 |-> Coeffs(k, ProjOf(j), Half(p), FALSE),
          doc_coeffs |-> Coeffs(k, ProjOf(j), p, TRUE), basis |-> Basis(k)] : k \in KINDS, j \in PROJS, p \in Points}
ASSUME ndJsonSerialize(IOEnv.OUT, SetToSeq(Obls))
=============================================================================
