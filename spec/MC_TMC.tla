-------------------------------- MODULE MC_TMC --------------------------------
EXTENDS TMC, TLC
VARIABLES stage, pick
Xs == {R(1, 10), R(1, 4), R(2, 5), R(1, 2), R(3, 4)}
Rhos == {One, R(9, 8), R(5, 4), R(3, 2), RI(2)}
Init == stage = 0 /\ pick \in {[kind |-> k, mode |-> m] : k \in Kinds, m \in Modes}
Next == stage = 0 /\ stage' = 1 /\ \E x \in Xs, r \in Rhos : pick' = [kind |-> pick.kind, mode |-> pick.mode, p |-> [x |-> x, rho |-> r]]
Spec == Init /\ [][Next]_<<stage, pick>>
Leaf == stage = 1
Inv_Zero == Leaf => VanishesAtZeroMass(pick.kind, pick.mode, pick.p.x)
Inv_Apfel == Leaf => ApfelInExact(pick.kind, pick.p)
Inv_FL == Leaf => FLRelation(pick.p)
Inv_XiBelowX == Leaf => RLeq(Xi(pick.p), pick.p.x) /\ (pick.p.rho # One => RLt(Xi(pick.p), pick.p.x))
=============================================================================
