------------------------------ MODULE Theorems ------------------------------
(***************************************************************************)
(* Property theorems over assembled kernel bags (C02 C06 C07 C12 C13 C16), *)
(* stated per cell; MC_Lattice enumerates the cells.                       *)
(***************************************************************************)
EXTENDS Kernels, Cards, Registry

\* ------------------------------------------------------------------ cells
\* scheme setting s: [fns, nfff, nfzm]   (nfzm: number of active flavours when fns = ZM-VFNS)
SchemeTheory(s) == [FNS |-> s.fns, NfFF |-> s.nfff, m |-> <<RI(2), RI(5), RI(170)>>,
                    k |-> [i \in 1..3 |-> Fin(One)]]
\* a Q2 realising nf = n in the variable flavour scheme with the masses above
Q2ForNf(n) == CASE n = 3 -> RI(2) [] n = 4 -> RI(10) [] n = 5 -> RI(100) [] n = 6 -> RI(30000)
SchemeQ2(s) == IF s.fns = "ZM-VFNS" THEN Q2ForNf(s.nfzm) ELSE RI(10)
SchemeNf(s) == NfActive(SchemeTheory(s), SchemeQ2(s))
MkCell(ew, ckm, kind, fam, hq, s, parts, pto, ptoEvol, Z, A) ==
  LET nf == SchemeNf(s) IN
  [ew |-> ew, ckm |-> ckm, kind |-> kind, fam |-> fam, hq |-> hq, fns |-> s.fns, parts |-> parts,
   pto |-> pto, ptoEvol |-> ptoEvol, nf |-> nf, massive |-> MassiveOf(SchemeTheory(s)),
   Z |-> Z, A |-> A, wt |-> WeightTable(ew), wfl11 |-> IF pto = 3 THEN FL11Table(ew, nf) ELSE [q \in 1..6 |-> Zero]]
With(c, f, v) == [c EXCEPT ![f] = v]
WithEw(c, f, v) == LET ew == [c.ew EXCEPT ![f] = v] IN
                   [c EXCEPT !.ew = ew, !.wt = WeightTable(ew),
                            !.wfl11 = IF c.pto = 3 THEN FL11Table(ew, c.nf) ELSE [q \in 1..6 |-> Zero]]
FamOf(fl) == IF fl \in {"light", "total"} THEN fl ELSE "heavy"
HqOf(fl)  == CASE fl = "charm" -> 4 [] fl = "bottom" -> 5 [] fl = "top" -> 6 [] OTHER -> 0
WithFlavor(c, fl) == [c EXCEPT !.fam = FamOf(fl), !.hq = HqOf(fl)]

\* the cell is one the code can serve (else the intended outcome is an explicit rejection)
Supported(c) ==
  LET pc == ProcClass(c.ew.proc) IN
  /\ ModuleExists(c.kind, pc)
  /\ Keys(Collect(c)) \cap MissingKeys(c.kind, pc) = {}
AG(c) == AggClean(Agg(Assemble(c)))

\* ------------------------------------------------------------------ C02  LO = parton model
LOKeys == {"light/NonSinglet", "light/NonSingletEven", "light/NonSingletOdd"}
HasLO(kind) == kind \in {"F2", "F3", "g1", "g4"}
LOWeightOf(a, c, p) ==
  IF ~HasLO(c.kind) THEN Zero
  ELSE RSumSeq([i \in 1..3 |->
         LET k == CASE i = 1 -> "light/NonSinglet" [] i = 2 -> "light/NonSingletEven" [] i = 3 -> "light/NonSingletOdd"
         IN IF k \in DOMAIN a THEN a[k][p] ELSE Zero])
LOWeight(c, p) == LOWeightOf(AG(c), c, p)
\* textbook: massless quarks 1..nf (or the single quark hq for heavy-light), proton target
TextbookLO(c, p) ==
  LET q == IAbs(p) pv == IsPV(c.kind) IN
  IF ~HasLO(c.kind) \/ p = 21 \/ q > c.nf
     \/ (c.fam = "heavy" /\ c.hq > c.nf)                        \* the heavy quark is not active: nothing
     \/ (c.fam = "heavy" /\ c.ew.proc # "CC" /\ q # c.hq) THEN Zero
  ELSE IF c.ew.proc = "CC"
       THEN PartonModelCC(c.ew, c.ckm, IF c.fam = "heavy" THEN MaskOfHq(c.hq) ELSE MaskOfNf(c.nf), p, pv)
       ELSE LET w == PartonModelNC(c.ew, q, pv) IN IF pv /\ p < 0 THEN RNeg(w) ELSE w
\* domain of the textbook comparison: massless assembly, proton, neutrino beams unpolarised in NC
C02Domain(c) == /\ c.fns = "ZM-VFNS" /\ c.Z = c.A
                /\ (c.ew.proc # "CC" /\ IAbs(c.ew.proj) = 12 => RIsZero(c.ew.pol))
                /\ (c.ew.proc = "CC" => c.ew.pos = 0)
                /\ Supported(c)
\* a neutrino beam couples through the Z only: every LO weight is (Q2/(Q2+MZ2))^2 times the weight at ratio one, on both sides
\* (a degree-2 identity in r: holding at the four lattice ratios it holds for every r - used for ratios too small for 32 bit)
C02_NeutrinoScaling(c) ==
  (C02Domain(c) /\ c.ew.proc = "NC" /\ IAbs(c.ew.proj) = 12) =>
     LET c1 == WithEw(c, "r", One) a == AG(c) a1 == AG(c1) r2 == RSq(c.ew.r) IN
     \A p \in Pids : /\ TextbookLO(c, p) = RMul(r2, TextbookLO(c1, p))
                     /\ LOWeightOf(a, c, p) = RMul(r2, LOWeightOf(a1, c1, p))
C02_LOIsPartonModel(c) == C02Domain(c) => LET a == AG(c) IN \A p \in Pids : LOWeightOf(a, c, p) = TextbookLO(c, p)

\* ------------------------------------------------------------------ C07  additivity
Flavors == {"light", "total", "charm", "bottom", "top"}
MassiveFlavors(c) == {fl \in {"charm", "bottom", "top"} : c.massive[HqOf(fl)]}
RECURSIVE AggSum(_, _)
AggSum(S, f) == IF S = {} THEN <<>> ELSE LET x == CHOOSE y \in S : TRUE IN AggAdd(f[x], AggSum(S \ {x}, f))
AllSupported(c, fls) == \A fl \in fls : Supported(WithFlavor(c, fl))
\* fixed flavour (and FONLL, which also has a fixed nf): total = light + the massive heavy flavours
C07_FFNSPartition(c) ==
  (c.fns # "ZM-VFNS" /\ AllSupported(c, Flavors)) =>
     AG(WithFlavor(c, "total")) =
       AggClean(AggAdd(AG(WithFlavor(c, "light")),
                       AggSum(MassiveFlavors(c), [fl \in MassiveFlavors(c) |-> AG(WithFlavor(c, fl))])))
C07_ZMTotalIsLight(c) ==
  (c.fns = "ZM-VFNS" /\ AllSupported(c, {"light", "total"})) => AG(WithFlavor(c, "total")) = AG(WithFlavor(c, "light"))
C07_FONLLParts(c) ==
  (c.fns \in {"FONLL-FFNS", "FONLL-FFN0"} /\ Supported(With(c, "parts", "full"))) =>
     AG(With(c, "parts", "full")) = AggClean(AggAdd(AG(With(c, "parts", "massless")), AG(With(c, "parts", "massive"))))
C07_PositivitySum(c) ==
  (c.ew.proc # "CC" /\ Supported(c)) =>
     AG(WithEw(c, "pos", 0)) = AggClean(AggSum(1..6, [q \in 1..6 |-> AG(WithEw(c, "pos", q))]))

\* ------------------------------------------------------------------ C12  isospin
\* contraction of an aggregated bag with a PDF vector f : Pids -> Rat, per key
Contract(a, f) == [k \in DOMAIN a |-> RSumOver(Pids, [p \in Pids |-> RMul(a[k][p], f[p])])]
MixPdf(f, Z, AA) ==
  LET zf == RDiv(Z, AA) nz == RDiv(RSub(AA, Z), AA) IN
  [p \in Pids |-> CASE IAbs(p) = 2 -> RAdd(RMul(zf, f[p]), RMul(nz, f[Sgn(p)]))
                    [] IAbs(p) = 1 -> RAdd(RMul(zf, f[p]), RMul(nz, f[2 * Sgn(p)]))
                    [] OTHER -> f[p]]
TestPdfs == { [p \in Pids |-> RI(IF p = 21 THEN 7 ELSE (p * p + 3 * p + 5))],
              [p \in Pids |-> IF p = 2 THEN One ELSE Zero],
              [p \in Pids |-> IF p = -1 THEN One ELSE Zero] }
Proton(c) == [c EXCEPT !.Z = One, !.A = One]
SameKeysContract(a, b, f, g) ==
  LET ca == Contract(a, f) cb == Contract(b, g)
      ks == (DOMAIN a) \cup (DOMAIN b)
  IN \A k \in ks : (IF k \in DOMAIN ca THEN ca[k] ELSE Zero) = (IF k \in DOMAIN cb THEN cb[k] ELSE Zero)
C12_IsospinIsPdfRotation(c) ==
  Supported(c) => \A f \in TestPdfs : SameKeysContract(AG(c), AG(Proton(c)), f, MixPdf(f, c.Z, c.A))
SwapUD(w) == [p \in Pids |-> CASE IAbs(p) = 1 -> w[2 * Sgn(p)] [] IAbs(p) = 2 -> w[Sgn(p)] [] OTHER -> w[p]]
C12_NeutronIsUDSwap(c) ==
  Supported(c) =>
     LET n == AG([c EXCEPT !.Z = Zero, !.A = One]) p == AG(Proton(c)) IN
     /\ DOMAIN n = DOMAIN p
     /\ \A k \in DOMAIN n : n[k] = SwapUD(p[k])
\* the in-place loop of the code equals the intended rotation iff no u/d-asymmetric dict is shared
C12_InPlaceSound(c) ==
  Supported(c) => (NoHarmfulSharing(Collect(c)) => AggClean(Agg(AssembleInPlace(c))) = AG(c))
SharingHarmful(c) == Supported(c) /\ ~NoHarmfulSharing(Collect(c)) /\ AggClean(Agg(AssembleInPlace(c))) # AG(c)

\* ------------------------------------------------------------------ C13  symmetries
C13_NCReducesToEM(c) ==
  (c.ew.proc = "NC" /\ Supported(c)) => AG(WithEw(WithEw(c, "r", Zero), "proc", "NC")) = AG(WithEw(WithEw(c, "r", Zero), "proc", "EM"))
C13_PositronFlip(c) ==
  (c.ew.proc # "CC" /\ IAbs(c.ew.proj) = 11 /\ Supported(c)) =>
     AG(WithEw(WithEw(c, "proj", -11), "pol", c.ew.pol)) = AG(WithEw(WithEw(c, "proj", 11), "pol", RNeg(c.ew.pol)))
Conj(p) == IF p = 21 THEN 21 ELSE -p
C13_ChargeConjugation(c) ==
  (c.ew.proc = "CC" /\ Supported(c)) =>
     LET a == AG(WithEw(c, "proj", 12)) b == AG(WithEw(c, "proj", -12))
         s == IF c.kind = "F3" THEN -1 ELSE 1
         c1 == AG(WithEw(c, "proj", -11)) d1 == AG(WithEw(c, "proj", 11))
     IN /\ DOMAIN a = DOMAIN b /\ \A k \in DOMAIN a : \A p \in Pids : b[k][p] = RScale(s, a[k][Conj(p)])
        /\ DOMAIN c1 = DOMAIN d1 /\ \A k \in DOMAIN c1 : \A p \in Pids : d1[k][p] = RScale(s, c1[k][Conj(p)])
        /\ a = c1 /\ b = d1                       \* e+ behaves as nu, e- as nubar
\* massless NC schemes: rows of two ACTIVE quarks with identical charges coincide
\* (proton target for d<->s, any target for s<->b and c<->t)
MasslessCell(c) == c.fns = "ZM-VFNS" /\ c.fam \in {"light", "total"}
C13_EqualChargeExchange(c) ==
  (c.ew.proc # "CC" /\ c.ew.pos = 0 /\ MasslessCell(c) /\ Supported(c)) =>
     LET a == AG(c)
         same(p, q) == (p <= c.nf /\ q <= c.nf) => \A k \in DOMAIN a : a[k][p] = a[k][q] /\ a[k][-p] = a[k][-q]
     IN /\ same(3, 5) /\ same(4, 6) /\ (c.Z = c.A => (same(1, 3) /\ same(2, 4)))
\* a flavour-tagged observable on the massless path (F2_charm above the bottom threshold, ...): the quarks other than the tagged
\* one enter through the flavour-blind pure-singlet / valence / gluon channels only - ALL active spectators have the same rows
\* (whatever their charge), inactive ones none
TaggedMassless(c) == c.fns = "ZM-VFNS" /\ c.fam = "heavy" /\ c.hq \in 4..6 /\ c.hq <= c.nf
Spectators(c) == {q \in 1..c.nf : q # c.hq}
C13_TaggedSpectators(c) ==
  (c.ew.proc # "CC" /\ c.ew.pos = 0 /\ TaggedMassless(c) /\ Supported(c)) =>
     LET a == AG(c) IN
     /\ \A p \in Spectators(c), q \in Spectators(c) : \A k \in DOMAIN a : a[k][p] = a[k][q] /\ a[k][-p] = a[k][-q]
     /\ \A q \in (c.nf + 1)..6 : \A k \in DOMAIN a : RIsZero(a[k][q]) /\ RIsZero(a[k][-q])

\* a flavour-tagged observable on the massless path is the total with the couplings restricted to the tagged quark
\* (F2_charm = F2_total with NCPositivityCharge = charm, above the charm threshold of a variable-flavour scheme): the same number
\* of flavours, the same classes, the same weights - whatever the order
C07_TaggedIsRestricted(c) ==
  (c.ew.proc # "CC" /\ c.ew.pos = 0 /\ TaggedMassless(c) /\ Supported(c)) =>
     AG(c) = AG(WithEw(WithFlavor(c, "total"), "pos", c.hq))

\* ------------------------------------------------------------------ C09  the 'missing' channel (heavy-quark loop on a light line)
\* it couples through the LIGHT quarks only: which massive quark runs in the loop enters through its mass alone - the kernels of
\* the charm, bottom and top loops are the same (class, weights)
C09_MissingIsFlavourBlind(c) ==
  (~AsyScheme(c.fns) /\ c.ew.proc # "CC") => (Missing(c, 4) = Missing(c, 5) /\ Missing(c, 5) = Missing(c, 6))

\* ------------------------------------------------------------------ C06  flavour number (assembly side)
\* two threshold settings with the same count give the same assembly: Collect depends on the
\* thresholds only through c.nf  -- by construction of the cell; stated on Cards in MC_Cards.

\* ------------------------------------------------------------------ C08  FFN0 mirrors FFNS
\* for every massive (FFNS) cell the asymptotic (FFN0) cell selects, per massive kernel, asymptotic kernels with the SAME parton
\* weights, one per log tower j <= ptoEvol:  gluon / singlet (VV + AA), the heavy-quark initiated ones, and CC quark / gluon
SumKeys(a, ks, p) == RSumOver(ks \cap DOMAIN a, [k \in ks \cap DOMAIN a |-> a[k][p]])
C08_AsyMirrorsMassive(c) ==
  (c.fns = "FFNS" /\ c.fam = "heavy" /\ Supported(c) /\ Supported(With(c, "fns", "FFN0"))) =>
     LET m == AG(c) a == AG(With(c, "fns", "FFN0")) IN
     \A p \in Pids :
       IF c.ew.proc = "CC"
         THEN /\ SumKeys(a, {"asy/AsyQuark"}, p) = SumKeys(m, {"heavy/NonSinglet"}, p)
              /\ SumKeys(a, {"asy/AsyGluon"}, p) = SumKeys(m, {"heavy/Gluon"}, p)
              /\ SumKeys(a, {"asy/AsyLLIntrinsic"}, p) = SumKeys(m, {"intrinsic/Splus", "intrinsic/Rplus"}, p)
         ELSE /\ \A j \in 0..c.ptoEvol :
                   /\ ("heavy/GluonVV" \in DOMAIN m \/ "heavy/GluonAA" \in DOMAIN m) =>
                        (AsyName(j, "Gluon") \in EmptyKeys(c.kind, "nc") \/
                         SumKeys(a, {AsyName(j, "Gluon")}, p) = SumKeys(m, {"heavy/GluonVV", "heavy/GluonAA"}, p))
                   /\ ("heavy/SingletVV" \in DOMAIN m \/ "heavy/SingletAA" \in DOMAIN m) =>
                        (AsyName(j, "Singlet") \in EmptyKeys(c.kind, "nc") \/
                         SumKeys(a, {AsyName(j, "Singlet")}, p) = SumKeys(m, {"heavy/SingletVV", "heavy/SingletAA"}, p))
              /\ ("asy/AsyLLIntrinsic" \in DOMAIN a) =>
                   SumKeys(a, {"asy/AsyLLIntrinsic"}, p) = SumKeys(m, {"intrinsic/Splus", "intrinsic/Rplus"}, p)
\* the 'missing' channel: the asymptotic kernels skip the LAST light quark (skip_heavylight), the massive one does not:
\* named deviation of the implementation (see known findings of C08)
C08_MissingMirrors(c) ==
  (c.fns = "FFNS" /\ c.fam = "light" /\ c.ew.proc # "CC" /\ Supported(c) /\ Supported(With(c, "fns", "FFN0"))) =>
     LET m == AG(c) a == AG(With(c, "fns", "FFN0")) IN
     \A p \in Pids : (p # 21 /\ IAbs(p) < c.nf) =>
        \A j \in 0..c.ptoEvol : (AsyName(j, "NonSinglet") \in DOMAIN a /\ "heavy/NonSinglet" \in DOMAIN m) =>
            a[AsyName(j, "NonSinglet")][p] = m["heavy/NonSinglet"][p]

\* ------------------------------------------------------------------ C16  outcome alphabet (assembly side)
\* intended outcome of a cell: "OK" or an explicit rejection naming the reason
Outcome(c) ==
  LET pc == ProcClass(c.ew.proc) IN
  IF ~ModuleExists(c.kind, pc) THEN "Reject:module"
  ELSE IF Keys(Collect(c)) \cap MissingKeys(c.kind, pc) # {} THEN "Reject:order"
  ELSE "OK"
\* target-mass corrections exist for F2, FL, F3, g1 only; TMC of FL (and, as implemented, of g1) also needs F2
TMCKinds == {"F2", "FL", "F3", "g1"}
OutcomeTMC(c, tmc) ==
  IF tmc = 0 THEN Outcome(c)
  ELSE IF c.kind \notin TMCKinds THEN "Reject:tmc"
  ELSE IF Outcome(c) # "OK" THEN Outcome(c)
  ELSE IF c.kind = "FL" THEN Outcome(With(c, "kind", "F2")) ELSE "OK"
\* cross sections: the structure functions each kind combines (exs.py); g5 uses (g4, gL)
XSKinds == {"XSHERANC", "XSHERANCAVG", "XSHERACC", "XSCHORUSCC", "XSNUTEVCC", "XSNUTEVNU", "FW", "F1", "g5", "XSFPFCC"}
XSNeeds(xs) == CASE xs = "g5" -> <<"g4", "gL">>
                 [] xs \in {"F1", "XSHERANCAVG", "FW"} -> <<"F2", "FL">>
                 [] OTHER -> <<"F2", "FL", "F3">>
RECURSIVE FirstBad(_)
FirstBad(seq) == IF seq = <<>> THEN "OK" ELSE IF Head(seq) # "OK" THEN Head(seq) ELSE FirstBad(Tail(seq))
OutcomeXS(c, xs, tmc) == FirstBad([i \in 1..Len(XSNeeds(xs)) |-> OutcomeTMC(With(c, "kind", XSNeeds(xs)[i]), tmc)])
\* kinematic domain (ESF.__init__): 0 < x <= 1, Q2 > 0, x >= smallest grid node; classes of requests
XClasses == {"in", "zero", "negative", "above1", "belowgrid", "one"}
Q2Classes == {"pos", "zero", "negative"}
\* ("tiny": the first node of a grid reaching 1e-7 at a high virtuality - inside the domain)
KinOutcome(xc, qc) == IF xc \in {"in", "one", "tiny"} /\ qc = "pos" THEN "OK" ELSE "Reject:kinematics"

\* registry completeness: every class the assembly of ANY cell names is in the class table (so no kernel the runner can
\* use escapes the per-kernel checks C03 / C18 / C01), or is a named empty / missing class
KindName(k) == k
RegistryComplete(c) ==
  LET pc == ProcClass(c.ew.proc) IN
  ModuleExists(c.kind, pc) =>
    Keys(Collect(c)) \subseteq (ClassKeys(c.kind, pc) \cup EmptyKeys(c.kind, pc) \cup MissingKeys(c.kind, pc))
\* and every order a kernel can be asked for is defined by its class or intentionally absent (None): orders are 0..pto

\* every key the assembly names is either defined or leads to an explicit rejection; every
\* weight is a rational with positive denominator (no division by zero in the assembly)
C16_OutcomeTotal(c) ==
  /\ Outcome(c) \in {"OK", "Reject:module", "Reject:order"}
  /\ (Outcome(c) = "OK" => LET ks == Assemble(c) IN \A i \in DOMAIN ks : \A p \in Pids : ks[i].w[p][2] > 0)
=============================================================================
