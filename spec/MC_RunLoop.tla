---------------------------- MODULE MC_RunLoop ----------------------------
(* Exhaustive small-constant instance of RunLoop: every plan over a small universe of kinematics. *)
EXTENDS RunLoop
CONSTANTS MaxPts, MaxObs, AllowSwapped, TMCS, MaxCalls, OBS

\* universe: x ids 1..5; user-requestable {2,3,4}; xi(3)=2, xi(4)=3, xi(2)=1 (so TMC look-ups collide with user
\* requests); grid nodes are ids 4 and 5 (a user may sit exactly on node 4); Q2 ids are 2 (nf=4) and 3 (nf=5): they
\* overlap numerically with x ids, as real x and Q2 values may
MCShift == [x \in 1..5 |-> [q \in 2..3 |-> IF x = 1 THEN 1 ELSE x - 1]]
MCNodes == [x \in 1..5 |-> [q \in 2..3 |-> <<4, 5>>]]
MCNf    == [q \in 2..3 |-> q + 2]
UX == {2, 3, 4}
UQ == {2, 3}
WithY(k) == k \o << <<"y", YId>> >>
SFKins == {KinXQ(x, q) : x \in UX, q \in UQ} \cup (IF AllowSwapped THEN {KinQX(x, q) : x \in UX, q \in UQ} ELSE {})
KinsFor(name) == IF name = XSName THEN {WithY(k) : k \in SFKins} ELSE SFKins
KinSeqs(name) == UNION {[1..n -> KinsFor(name)] : n \in 1..MaxPts}
\* (SANY rejects dependent bounds in one binder: nest a UNION)
ObsSeqs == {<<a>> : a \in OBS} \cup (IF MaxObs >= 2 THEN UNION {{<<a, b>> : b \in OBS \ {a}} : a \in OBS} ELSE {})
Plans == UNION { IF Len(os) = 1
                   THEN {<<[name |-> os[1], kins |-> ks]>> : ks \in KinSeqs(os[1])}
                   ELSE {<<[name |-> os[1], kins |-> k1], [name |-> os[2], kins |-> k2]>> :
                            k1 \in KinSeqs(os[1]), k2 \in KinSeqs(os[2])}
                 : os \in ObsSeqs }
Init == \E t \in TMCS, p \in Plans, n \in 1..MaxCalls : InitWith(t, p, n)
Spec == Init /\ [][Next]_vars
\* history/observation variables are not part of the state identity
View == <<tmc, plan, ncalls, heap, cache, elems, slots, pc, cur, pos, order, lastQ, call, svmemo>>
=============================================================================
