SPECIFICATION Spec
CONSTANTS
  S2W <- S2W_one
  RR <- RR_one
  OMD <- OMD_one
  POL <- POL_one
  ORDERS <- ORD_one
  NFZM = {3,4,5}
  NFFF = {3,4}
  TARGETS = {"third"}
  KINDS = {"F2","F3"}
  PROCS = {"NC","CC"}
  FLAVS = {"light","total","charm","bottom"}
  POSS = {0}
  CKMS = {"generic"}
INVARIANT Inv_C02
INVARIANT Inv_C07_FFNS
INVARIANT Inv_C07_ZM
INVARIANT Inv_C07_FONLL
INVARIANT Inv_C07_Pos
INVARIANT Inv_C12_Rot
INVARIANT Inv_C12_Neutron
INVARIANT Inv_C12_InPlace
INVARIANT Inv_C13_NCEM
INVARIANT Inv_C13_Flip
INVARIANT Inv_C13_Conj
INVARIANT Inv_C13_Exch
INVARIANT Inv_C16
CHECK_DEADLOCK FALSE
