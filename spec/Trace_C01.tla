------------------------------ MODULE Trace_C01 ------------------------------
(***************************************************************************)
(* Trace validation for C01.                                               *)
(*  "vector" lines: one per (registry element, nf, position of the         *)
(*   convolution point): the REAL convolve_vector against an independent   *)
(*   quadrature of the definition in the PDF variable, entry-wise, in      *)
(*   units of the tolerance; the structural clauses of Convolution.tla     *)
(*   (exact zeros below the support / beyond the end point) exactly.       *)
(*  "assembly" lines: one per cell and position: the operator tensor of    *)
(*   the real element against  sum_k partons_k (x) x_c,k vec_k .           *)
(***************************************************************************)
EXTENDS Registry, Convolution, TLC, Json, IOUtils
TraceLog == ndJsonDeserialize(IOEnv.TRACE_FILE)
Tol(order) == 1000
Judge(L) ==
  IF L.what = "vector" THEN
     IF <<L.kind, L.pc, L.cls, L.order>> \notin Elements THEN "not_a_registry_element"
     ELSE IF ~L.finite THEN "non_finite_entry"
     ELSE IF ~L.zeros_ok THEN "non_zero_entry_where_the_basis_function_lies_below_x"
     ELSE IF ConvCase(L.has_reg, L.has_sing, L.has_loc, "inside").integrand = "none" /\ L.quad_calls > 0 THEN "integration_without_integrand"
     ELSE IF L.dev_milli > Tol(L.order) THEN "entry_is_not_the_convolution_with_the_basis_function"
     ELSE "ok"
  ELSE IF L.what = "assembly" THEN
     IF L.outcome # "OK" THEN "outcome_" \o L.outcome
     ELSE IF L.dev_milli > 1000 THEN "operator_is_not_the_weighted_sum_of_x_times_convolutions"
     ELSE "ok"
  ELSE IF L.what = "masses" THEN
     \* the NC heavy-quark classes of a fixed-flavour cell (pair production and the heavy-quark loop on light lines) are built
     \* once per massive quark, each with THAT quark's mass: 6 - NfFF distinct masses, all of them masses of the theory
     IF ~L.all_theory_masses THEN "kernel_built_with_a_mass_that_is_no_quark_mass_of_the_theory"
     ELSE IF L.fns = "FFNS" /\ L.proc = "NC" /\ L.flav = "total" /\ L.distinct # 6 - L.nfff THEN "heavy_quark_class_not_built_with_one_mass_per_massive_quark"
     ELSE "ok"
  ELSE IF L.what = "finite" THEN (IF L.finite THEN "ok" ELSE "non_finite_operator")
  ELSE "unknown_line"
VARIABLE l
Init == l = 1
Next == /\ l <= Len(TraceLog)
        /\ LET v == Judge(TraceLog[l]) IN IF v = "ok" THEN TRUE ELSE PrintT(<<"VERDICT", TraceLog[l].oid, v>>)
        /\ l' = l + 1
Spec == Init /\ [][Next]_l
Consumed == TLCGet("stats").diameter - 1
Accepted == PrintT(<<"CONSUMED", Consumed>>) /\ Consumed = Len(TraceLog)
=============================================================================
