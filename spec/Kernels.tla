------------------------------ MODULE Kernels ------------------------------
(***************************************************************************)
(* Component / kernel selection of yadism (coefficient_functions/__init__   *)
(* Combiner.collect, light/heavy/asy/intrinsic kernels.generate*,           *)
(* kernels.cc_weights*, generate_single_flavor_light, apply_isospin,        *)
(* drop_empty), transcribed one operator per code function.                 *)
(*                                                                          *)
(* A cell `c` is a record                                                   *)
(*   ew      : electroweak point (see Couplings)                            *)
(*   ckm     : 3x3 matrix of squared CKM elements (rationals)               *)
(*   kind    : "F2","FL","F3","g1","gL","g4"                                *)
(*   fam     : "light" | "total" | "heavy";  hq : 0 | 4 | 5 | 6             *)
(*   fns     : scheme string;  parts : "full" | "massless" | "massive"      *)
(*   pto     : PTODIS;  ptoEvol : PTO (number of log towers in FFN0)        *)
(*   nf      : active flavours at this Q2 (from Cards.NfActive)             *)
(*   massive : [4..6 -> BOOLEAN]  (NOT ZMq, from Cards.RewriteFNS)          *)
(*   Z, A    : target, rationals                                            *)
(*   wt, wfl11 : weight tables derived from ew and nf (WeightTable/FL11Table) *)
(*                                                                          *)
(* A kernel is [key, w, share]: key = "src/Class", w : Pids -> Rat, share = *)
(* 0 for a private weight dict or a tag naming a dict OBJECT that several   *)
(* kernels hold (the code's apply_isospin mutates dicts in place).          *)
(***************************************************************************)
EXTENDS Couplings, TLC

Pids == ((-6)..6 \ {0}) \cup {21}
W0   == [p \in Pids |-> Zero]
IsPV(kind)   == kind \in {"F3", "gL", "g4"}
ProcClass(proc) == IF proc = "CC" THEN "cc" ELSE "nc"
AsyScheme(fns)  == fns \in {"FFN0", "FONLL-FFN0"}
Rest(proj)   == IF proj \in {-11, 12} THEN 1 ELSE 0
CCSign(q, rest) == IF q % 2 = rest THEN 1 ELSE -1
\* TLCEval forces the weight function to a table: TLC would otherwise re-evaluate the defining
\* expression (exact rational arithmetic) at every application
Ker(key, w)        == [key |-> key, w |-> TLCEval(w), share |-> 0]
KerS(key, w, tag)  == [key |-> key, w |-> TLCEval(w), share |-> tag]
\* per-cell weight table, computed once by Theorems.MkCell:  c.wt[q][t], c.wfl11[q]
Types == {"VV", "AA", "VA", "AV"}
WeightTable(ew) == TLCEval([q \in 1..6 |-> [t \in Types |-> Weight(ew, q, t)]])
FL11Table(ew, nf) == TLCEval([q \in 1..6 |-> IF ew.proc = "CC" THEN Zero ELSE WFL11(ew, q, nf)])
CW(c, q, t) == c.wt[q][t]
AsyName(r, ch) == CASE r = 0 -> "asy/AsyLL" \o ch [] r = 1 -> "asy/AsyNLL" \o ch
                    [] r = 2 -> "asy/AsyNNLL" \o ch [] r = 3 -> "asy/AsyNNNLL" \o ch

RECURSIVE SumQ(_, _, _)
SumQ(f, lo, hi) == IF lo > hi THEN Zero ELSE RAdd(f[lo], SumQ(f, lo + 1, hi))

\* ------------------------------------------------------------------ NC
\* W(q) used by a parity class
WNC(c, q) == IF IsPV(c.kind) THEN RAdd(CW(c, q, "VA"), CW(c, q, "AV")) ELSE RAdd(CW(c, q, "VV"), CW(c, q, "AA"))

\* light.kernels.nc_weights
NCns(c, nf, skip) ==
  [p \in Pids |-> IF p # 21 /\ IAbs(p) <= nf /\ ~(skip /\ IAbs(p) = nf)
                    THEN (IF IsPV(c.kind) /\ p < 0 THEN RNeg(WNC(c, IAbs(p))) ELSE WNC(c, IAbs(p)))
                    ELSE Zero]
NCavg(c, nf, skip) ==
  RDiv(SumQ([q \in 1..6 |-> IF skip /\ q = nf THEN Zero ELSE WNC(c, q)], 1, nf), RI(nf))
QuarkFlat(nf, v)   == [p \in Pids |-> IF p # 21 /\ IAbs(p) <= nf THEN v ELSE Zero]
QuarkSigned(nf, v) == [p \in Pids |-> IF p # 21 /\ IAbs(p) <= nf THEN RScale(Sgn(p), v) ELSE Zero]
GluonOnly(v)       == [p \in Pids |-> IF p = 21 THEN v ELSE Zero]

\* nc_fl11_weights (as implemented)
FL11q(c, nf) == [p \in Pids |-> IF p # 21 /\ IAbs(p) <= nf THEN c.wfl11[IAbs(p)] ELSE Zero]
FL11g(c, nf) == RDiv(SumQ(c.wfl11, 1, nf), RI(nf))

\* ------------------------------------------------------------------ CC
WCCq(c, q, mask) == WCC(c.ckm, q, mask)
CCtot(c, mask, nfl) == SumQ([q \in 1..6 |-> WCCq(c, q, mask)], 1, IMin(nfl + 1, 6))
\* cc_weights_even / cc_weights_odd : "ns"
CCeven(c, mask, nf) ==
  LET rest == Rest(c.ew.proj) IN
  [p \in Pids |-> IF p # 21 /\ IAbs(p) <= nf
                    THEN LET q == IAbs(p) f == IF IsPV(c.kind) THEN CCSign(q, rest) ELSE 1
                         IN RScale(f, RDiv(WCCq(c, q, mask), RI(2)))
                    ELSE Zero]
CCodd(c, mask, nf) ==
  LET rest == Rest(c.ew.proj) IN
  [p \in Pids |-> IF p # 21 /\ IAbs(p) <= nf
                    THEN LET q == IAbs(p) sg == CCSign(q, rest)
                             f == IF IsPV(c.kind) THEN sg ELSE 1
                         IN RScale(f * (IF Sgn(p) = sg THEN 1 ELSE -1), RDiv(WCCq(c, q, mask), RI(2)))
                    ELSE Zero]
CCavg(c, mask, nf) == RDiv(RDiv(CCtot(c, mask, nf), RI(MaskLen(mask))), RI(2))
\* cc_weights : "ns" (only the struck sign), "g"
CCns(c, mask, nfl) ==
  LET rest == Rest(c.ew.proj) IN
  [p \in Pids |-> IF p # 21 /\ IAbs(p) <= nfl /\ Sgn(p) = CCSign(IAbs(p), rest)
                    THEN (IF IsPV(c.kind) THEN RScale(Sgn(p), WCCq(c, IAbs(p), mask)) ELSE WCCq(c, IAbs(p), mask))
                    ELSE Zero]
CCg(c, mask, nfl) ==
  LET t == CCtot(c, mask, nfl)
      s == IF Rest(c.ew.proj) = 0 /\ IsPV(c.kind) THEN RNeg(t) ELSE t
  IN RDiv(RDiv(s, RI(MaskLen(mask))), RI(2))
OnlyHq(w, hq) == [p \in Pids |-> IF IAbs(p) = hq THEN w[p] ELSE Zero]

\* ------------------------------------------------------------------ generators
\* light.kernels.generate
Light(c) ==
  LET nf == c.nf pv == IsPV(c.kind) IN
  IF c.ew.proc = "CC" THEN
    LET mask == MaskOfNf(nf) av == CCavg(c, mask, nf) IN
    IF pv THEN << Ker("light/NonSingletEven", CCeven(c, mask, nf)),
                  Ker("light/NonSingletOdd",  CCodd(c, mask, nf)),
                  Ker("light/Valence",        QuarkSigned(nf, av)) >>
          ELSE << Ker("light/NonSingletEven", CCeven(c, mask, nf)),
                  Ker("light/Gluon",          GluonOnly(av)),
                  Ker("light/Singlet",        QuarkFlat(nf, av)),
                  Ker("light/NonSingletOdd",  CCodd(c, mask, nf)) >>
  ELSE
    LET av == NCavg(c, nf, FALSE) IN
    IF pv THEN << Ker("light/NonSinglet", NCns(c, nf, FALSE)),
                  Ker("light/Valence",    QuarkSigned(nf, av)) >>
    ELSE << Ker("light/NonSinglet", NCns(c, nf, FALSE)),
            Ker("light/Gluon",      GluonOnly(av)),
            Ker("light/Singlet",    QuarkFlat(nf, av)) >>
         \o (IF c.pto = 3 THEN << Ker("light/QuarkFL11", FL11q(c, nf)),
                                  Ker("light/GluonFL11", GluonOnly(FL11g(c, nf))) >>
                          ELSE <<>>)

\* heavy.kernels.generate_missing / asy.kernels.generate_missing_asy (NC only)
Missing(c, ihq) ==
  IF c.ew.proc = "CC" THEN <<>>
  ELSE IF AsyScheme(c.fns)
       THEN [r \in 1..(c.ptoEvol + 1) |->
               KerS(AsyName(r - 1, "NonSinglet"), NCns(c, c.nf, TRUE), ihq)]   \* ONE dict object per ihq
       ELSE << Ker("heavy/NonSinglet", NCns(c, c.nf, FALSE)) >>

\* kernels.generate_single_flavor_light
SingleFlavorLight(c, ihq) ==
  LET nf == c.nf pv == IsPV(c.kind) IN
  IF c.ew.proc = "CC" THEN
    LET mask == MaskOfHq(ihq) av == RDiv(CCavg(c, mask, nf), RI(nf)) IN
    IF pv THEN << Ker("light/NonSingletEven", CCeven(c, mask, nf)),
                  Ker("light/NonSingletOdd",  CCodd(c, mask, nf)),
                  Ker("light/Valence",        QuarkSigned(nf, av)) >>
          ELSE << Ker("light/NonSingletEven", CCeven(c, mask, nf)),
                  Ker("light/Gluon",          GluonOnly(av)),
                  Ker("light/Singlet",        QuarkFlat(nf, av)),
                  Ker("light/NonSingletOdd",  CCodd(c, mask, nf)) >>
  ELSE
    LET w  == WNC(c, ihq)
        av == RDiv(w, RI(nf))
        ns == [p \in Pids |-> IF p = ihq THEN w ELSE IF p = -ihq THEN (IF pv THEN RNeg(w) ELSE w) ELSE Zero]
    IN IF pv THEN << Ker("light/NonSinglet", ns), Ker("light/Valence", QuarkSigned(nf, av)) >>
       ELSE << Ker("light/NonSinglet", ns), Ker("light/Gluon", GluonOnly(av)),
               Ker("light/Singlet", QuarkFlat(nf, av)) >>
            \o (IF c.pto = 3
                  THEN LET w11 == c.wfl11[ihq] IN
                       << Ker("light/QuarkFL11", [p \in Pids |-> IF IAbs(p) = ihq THEN w11 ELSE Zero]),
                          Ker("light/GluonFL11", GluonOnly(RDiv(w11, RI(nf)))) >>
                  ELSE <<>>)

\* heavy.kernels.generate / asy.kernels.generate_heavy_asy
Heavy(c, ihq) ==
  LET nf == c.nf pv == IsPV(c.kind) asy == AsyScheme(c.fns) IN
  IF c.ew.proc = "CC" THEN
    LET mask == MaskOfHq(ihq) IN
    IF asy THEN << Ker("asy/AsyQuark", CCns(c, mask, nf)), Ker("asy/AsyGluon", GluonOnly(CCg(c, mask, nf))) >>
           ELSE << Ker("heavy/NonSinglet", CCns(c, mask, nf)), Ker("heavy/Gluon", GluonOnly(CCg(c, mask, nf))) >>
  ELSE IF pv THEN <<>>
  ELSE
    LET wv == CW(c, ihq, "VV") wa == CW(c, ihq, "AA") IN
    IF asy THEN
      LET one(ch, mk(_), off) == [i \in 1..(2 * (c.ptoEvol + 1)) |->
             LET r == (i - 1) \div 2 isAA == (i % 2 = 1) IN
             KerS(AsyName(r, ch), mk(IF isAA THEN wa ELSE wv), off + (IF isAA THEN 100 + ihq ELSE 200 + ihq))]
          g(v) == GluonOnly(v)
          s(v) == QuarkFlat(nf, v)
      IN one("Gluon", g, 0) \o one("Singlet", s, 1000)
    ELSE << Ker("heavy/GluonVV", GluonOnly(wv)), Ker("heavy/GluonAA", GluonOnly(wa)),
            Ker("heavy/SingletVV", QuarkFlat(nf, wv)), Ker("heavy/SingletAA", QuarkFlat(nf, wa)) >>

\* intrinsic.kernels.generate / asy.kernels.generate_intrinsic_asy
Intrinsic(c, ihq) ==
  LET pv == IsPV(c.kind) asy == AsyScheme(c.fns)
      sg == IF pv THEN -1 ELSE 1
      two(v) == [p \in Pids |-> IF p = ihq THEN v ELSE IF p = -ihq THEN RScale(sg, v) ELSE Zero]
      asyNames == IF c.ptoEvol > 0
                    THEN <<"asy/AsyLLIntrinsic", "asy/AsyNLLIntrinsicMatching", "asy/AsyNLLIntrinsicLight">>
                    ELSE <<"asy/AsyLLIntrinsic">>
  IN
  IF c.ew.proc = "CC" THEN
    LET wq == OnlyHq(CCns(c, MaskOfHq(ihq), ihq), ihq) IN
    IF asy THEN [i \in 1..Len(asyNames) |-> KerS(asyNames[i], wq, 300 + ihq)]
           ELSE << Ker(IF pv THEN "intrinsic/Rplus" ELSE "intrinsic/Splus", wq) >>
  ELSE
    LET w1 == CW(c, ihq, IF pv THEN "VA" ELSE "VV")
        w2 == CW(c, ihq, IF pv THEN "AV" ELSE "AA")
        wp == RAdd(w1, w2) wm == RSub(w1, w2)
    IN IF asy THEN [i \in 1..Len(asyNames) |-> KerS(asyNames[i], two(wp), 300 + ihq)]
       ELSE << Ker(IF pv THEN "intrinsic/Rplus" ELSE "intrinsic/Splus", two(wp)),
               Ker(IF pv THEN "intrinsic/Rminus" ELSE "intrinsic/Sminus", two(wm)) >>

\* ------------------------------------------------------------------ Combiner.collect
RECURSIVE ConcatOver(_, _, _)
ConcatOver(f, lo, hi) == IF lo > hi THEN <<>> ELSE f[lo] \o ConcatOver(f, lo + 1, hi)

LightComponent(c) ==
  Light(c) \o ConcatOver([ihq \in 4..6 |-> IF ihq > c.nf /\ c.massive[ihq] THEN Missing(c, ihq) ELSE <<>>], 4, 6)
HeavyLightComponents(c) ==
  IF c.hq < c.nf \/ (c.hq = c.nf /\ ~c.massive[c.hq]) THEN SingleFlavorLight(c, c.hq) ELSE <<>>
HeavyComponents(c) ==
  ConcatOver([sfh \in 4..6 |-> IF sfh >= c.nf /\ c.massive[sfh] /\ c.hq \in {0, sfh}
                                 THEN Intrinsic(c, sfh) \o Heavy(c, sfh) ELSE <<>>], 4, 6)
Collect(c) ==
  (IF c.fam \in {"light", "total"} /\ c.parts \in {"massless", "full"} THEN LightComponent(c) ELSE <<>>)
  \o (IF c.fam = "heavy" /\ c.parts \in {"massless", "full"} THEN HeavyLightComponents(c) ELSE <<>>)
  \o (IF c.fam \in {"heavy", "total"} /\ c.parts \in {"massive", "full"} THEN HeavyComponents(c) ELSE <<>>)

\* ------------------------------------------------------------------ isospin
\* one application of nucl_factors to a weight dict
Rotate(w, Z, A) ==
  LET zf == RDiv(Z, A) nz == RDiv(RSub(A, Z), A) IN
  TLCEval([p \in Pids |->
     CASE IAbs(p) = 1 -> RAdd(RMul(zf, w[p]), RMul(nz, w[2 * Sgn(p)]))
       [] IAbs(p) = 2 -> RAdd(RMul(nz, w[Sgn(p)]), RMul(zf, w[p]))
       [] OTHER -> w[p]])
RECURSIVE RotateN(_, _, _, _)
RotateN(w, Z, A, n) == IF n = 0 THEN w ELSE RotateN(Rotate(w, Z, A), Z, A, n - 1)
\* intended: each kernel's weights are rotated exactly once
RotateEachKernelOnce(ks, Z, A) == [i \in DOMAIN ks |-> [ks[i] EXCEPT !.w = Rotate(@, Z, A)]]
\* what an in-place loop over kernels does when kernels hold the SAME dict object:
\* the shared dict is rotated once per holder, and every holder sees the final state
Holders(ks, tag) == Cardinality({i \in DOMAIN ks : ks[i].share = tag})
ApplyIsospinInPlace(ks, Z, A) ==
  [i \in DOMAIN ks |-> [ks[i] EXCEPT !.w = IF ks[i].share = 0 THEN Rotate(@, Z, A)
                                            ELSE RotateN(@, Z, A, Holders(ks, ks[i].share))]]
\* the side condition under which the two coincide
NoHarmfulSharing(ks) ==
  \A i \in DOMAIN ks : ks[i].share # 0 /\ Holders(ks, ks[i].share) > 1
        => /\ ks[i].w[1] = ks[i].w[2] /\ ks[i].w[-1] = ks[i].w[-2]

\* ------------------------------------------------------------------ class registry
\* classes that are EmptyPartonicChannel in module kind_proc of package src
EmptyKeys(kind, pc) ==
  CASE kind = "F3" /\ pc = "nc" -> {"light/Gluon", "light/Singlet", "asy/AsyNNNLLNonSinglet"}
    [] kind = "F3" /\ pc = "cc" -> {"light/Gluon", "light/Singlet", "asy/AsyLLNonSinglet", "asy/AsyNLLNonSinglet",
                                    "asy/AsyNNLLNonSinglet", "asy/AsyNNNLLNonSinglet"}
    [] kind \in {"F2", "FL"} /\ pc = "cc" -> {"asy/AsyLLNonSinglet", "asy/AsyNLLNonSinglet",
                                    "asy/AsyNNLLNonSinglet", "asy/AsyNNNLLNonSinglet"}
    [] kind = "FL" /\ pc = "nc" -> {"asy/AsyLLGluon", "asy/AsyLLSinglet", "asy/AsyLLNonSinglet", "asy/AsyNNNLLNonSinglet"}
    [] kind = "g1" /\ pc = "nc" -> {"intrinsic/Splus", "intrinsic/Sminus", "asy/AsyLLIntrinsic",
                                    "asy/AsyNLLIntrinsicMatching", "asy/AsyNLLIntrinsicLight"}
    [] kind = "gL" /\ pc = "nc" -> {"light/Gluon", "light/Singlet", "light/Valence", "intrinsic/Rplus", "intrinsic/Rminus",
                                    "asy/AsyLLNonSinglet", "asy/AsyNLLNonSinglet", "asy/AsyNNLLNonSinglet",
                                    "asy/AsyNNNLLNonSinglet", "asy/AsyLLIntrinsic",
                                    "asy/AsyNLLIntrinsicMatching", "asy/AsyNLLIntrinsicLight"}
    [] kind = "g4" /\ pc = "nc" -> {"light/Gluon", "light/Singlet", "light/Valence", "intrinsic/Rplus", "intrinsic/Rminus",
                                    "asy/AsyLLNonSinglet", "asy/AsyNLLNonSinglet", "asy/AsyNNLLNonSinglet",
                                    "asy/AsyNNNLLNonSinglet", "asy/AsyLLIntrinsic",
                                    "asy/AsyNLLIntrinsicMatching", "asy/AsyNLLIntrinsicLight"}
    [] OTHER -> {}
\* modules kind_proc that exist (polarised CC does not: documented dynamic dispatch fails by name)
ModuleExists(kind, pc) == ~(pc = "cc" /\ kind \in {"g1", "gL", "g4"})
\* classes a generator may name but the module does not define (an AttributeError in the code)
MissingKeys(kind, pc) ==
  CASE kind = "g1" /\ pc = "nc" -> {"light/QuarkFL11", "light/GluonFL11", "asy/AsyNNNLLGluon",
                                    "asy/AsyNNNLLSinglet", "asy/AsyNNNLLNonSinglet"}
    [] OTHER -> {}

\* ------------------------------------------------------------------ assembly and projections
IsZeroW(w) == \A p \in Pids : RIsZero(w[p])
DropEmpty(c, ks) ==
  SelectSeq(ks, LAMBDA k : ~IsZeroW(k.w) /\ k.key \notin EmptyKeys(c.kind, ProcClass(c.ew.proc)))
Assemble(c)        == DropEmpty(c, RotateEachKernelOnce(Collect(c), c.Z, c.A))
AssembleInPlace(c) == DropEmpty(c, ApplyIsospinInPlace(Collect(c), c.Z, c.A))

Keys(ks) == {ks[i].key : i \in DOMAIN ks}
\* aggregated projection: key -> pid -> sum of weights (what the conformance check compares)
RECURSIVE SumW(_, _, _)
SumW(ks, key, p) ==
  IF ks = <<>> THEN Zero
  ELSE RAdd(IF Head(ks).key = key THEN Head(ks).w[p] ELSE Zero, SumW(Tail(ks), key, p))
Agg(ks) == TLCEval([key \in Keys(ks) |-> [p \in Pids |-> SumW(ks, key, p)]])
\* bag union of aggregated maps (used by the partition theorems)
AggAdd(a, b) ==
  TLCEval([key \in (DOMAIN a) \cup (DOMAIN b) |->
     [p \in Pids |-> RAdd(IF key \in DOMAIN a THEN a[key][p] ELSE Zero,
                          IF key \in DOMAIN b THEN b[key][p] ELSE Zero)]])
AggClean(a) == LET keep == {k \in DOMAIN a : ~IsZeroW(a[k])} IN [k \in keep |-> a[k]]
=============================================================================
