------------------------------ MODULE Emit_C19 ------------------------------
EXTENDS Refinement, Json, IOUtils
ASSUME ndJsonSerialize(IOEnv.OUT, <<[family |-> Family]>>)
=============================================================================
