------------------------------ MODULE Emit_Rel ------------------------------
(* Relation instances (C07 C12 C13) over the configuration lattice, as obligations. *)
EXTENDS Lattice, Json, IOUtils, SequencesExt

CONSTANTS RELS, PROCS, PROJS, KINDS, FLAVS, SCHEMES, ORDERS, TARGETS, EWS, POSS, CKMS, PARTS

SchemeOf(n) ==
  CASE n = "ZM3" -> [fns |-> "ZM-VFNS", nfff |-> 4, nfzm |-> 3] [] n = "ZM4" -> [fns |-> "ZM-VFNS", nfff |-> 4, nfzm |-> 4]
    [] n = "ZM5" -> [fns |-> "ZM-VFNS", nfff |-> 4, nfzm |-> 5] [] n = "ZM6" -> [fns |-> "ZM-VFNS", nfff |-> 4, nfzm |-> 6]
    [] n = "FFNS3" -> [fns |-> "FFNS", nfff |-> 3, nfzm |-> 0] [] n = "FFNS4" -> [fns |-> "FFNS", nfff |-> 4, nfzm |-> 0]
    [] n = "FFNS5" -> [fns |-> "FFNS", nfff |-> 5, nfzm |-> 0]
    [] n = "FFN03" -> [fns |-> "FFN0", nfff |-> 3, nfzm |-> 0] [] n = "FFN04" -> [fns |-> "FFN0", nfff |-> 4, nfzm |-> 0]
    [] n = "FONLLS3" -> [fns |-> "FONLL-FFNS", nfff |-> 3, nfzm |-> 0] [] n = "FONLLS4" -> [fns |-> "FONLL-FFNS", nfff |-> 4, nfzm |-> 0]
    [] n = "FONLL03" -> [fns |-> "FONLL-FFN0", nfff |-> 3, nfzm |-> 0] [] n = "FONLL04" -> [fns |-> "FONLL-FFN0", nfff |-> 4, nfzm |-> 0]
EwOf(n) ==
  CASE n = "g1" -> [s2w |-> R(1, 4), r |-> R(1, 5), omd |-> R(1, 2), pol |-> R(1, 3)]
    [] n = "g2" -> [s2w |-> R(3, 8), r |-> R(2, 3), omd |-> R(5, 4), pol |-> R(-1, 2)]
    [] n = "u"  -> [s2w |-> R(1, 4), r |-> R(1, 5), omd |-> One, pol |-> Zero]
ProjOf(n) == CASE n = "e-" -> 11 [] n = "e+" -> -11 [] n = "nu" -> 12 [] n = "nubar" -> -12
OrderOf(n) == CASE n = "00" -> <<0, 0>> [] n = "11" -> <<1, 1>> [] n = "22" -> <<2, 2>> [] n = "23" -> <<2, 3>>
                [] n = "12" -> <<1, 2>> [] n = "32" -> <<3, 2>> [] n = "33" -> <<3, 3>> [] n = "21" -> <<2, 1>>

Points ==
  {[proc |-> p, proj |-> ProjOf(j), kind |-> k, flav |-> fl, fns |-> SchemeOf(s).fns, nfff |-> SchemeOf(s).nfff,
    nfzm |-> SchemeOf(s).nfzm, parts |-> pa, pto |-> OrderOf(o)[1], ptoEvol |-> OrderOf(o)[2], target |-> TargetOf(tg),
    pos |-> ps, s2w |-> EwOf(e).s2w, r |-> EwOf(e).r, omd |-> EwOf(e).omd, pol |-> EwOf(e).pol, ckm |-> ck] :
     p \in PROCS, j \in PROJS, k \in KINDS, fl \in FLAVS, s \in SCHEMES, pa \in PARTS, o \in ORDERS, tg \in TARGETS,
     ps \in POSS, e \in EWS, ck \in CKMS}
WellFormed(pt) ==
  /\ (pt.parts # "full" => pt.fns \in {"FONLL-FFNS", "FONLL-FFN0"})
  /\ (pt.proc = "CC" => pt.pos = 0)
  /\ (pt.proc # "CC" => pt.ckm = "generic")
Canonical(rel, pt) ==
  CASE rel \in {"FFNSPartition", "ZMTotalIsLight"} -> pt.flav = "total"
    [] rel \in NamedRels        -> TRUE
    [] rel = "FONLLParts"      -> pt.parts = "full"
    [] rel = "PositivitySum"   -> pt.pos = 0
    [] rel = "IsospinRotation" -> pt.target # <<One, One>>
    [] rel = "NCReducesToEM"   -> pt.proc = "NC"
    [] rel = "PositronFlip"    -> pt.proj = 11
    [] rel \in {"ChargeConjugation", "LeptonAsNeutrino"} -> pt.proj = 12
    [] rel = "EqualCharge"     -> pt.pos = 0
Instances ==
  {[rel |-> rel, pt |-> pt, terms |-> RelTerms(rel, pt)] :
     rel \in RELS, pt \in {q \in Points : WellFormed(q)} }
Wanted(i) == Canonical(i.rel, i.pt) /\ RelApplies(i.rel, i.pt)
ASSUME ndJsonSerialize(IOEnv.OUT, SetToSeq({i \in Instances : Wanted(i)}))
=============================================================================
