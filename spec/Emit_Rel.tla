------------------------------ MODULE Emit_Rel ------------------------------
(* Relation instances (C07 C12 C13) over the configuration lattice, as obligations. *)
EXTENDS Lattice, Json, IOUtils, SequencesExt

CONSTANTS RELS, PROCS, PROJS, KINDS, FLAVS, SCHEMES, ORDERS, TARGETS, EWS, POSS, CKMS, PARTS

Points ==
  {[proc |-> p, proj |-> ProjOf(j), kind |-> k, flav |-> fl, fns |-> SchemeOf(s).fns, nfff |-> SchemeOf(s).nfff,
    nfzm |-> SchemeOf(s).nfzm, parts |-> pa, pto |-> OrderOf(o)[1], ptoEvol |-> OrderOf(o)[2], target |-> TargetOf(tg),
    pos |-> ps, s2w |-> EwOf(e).s2w, r |-> EwOf(e).r, omd |-> EwOf(e).omd, pol |-> EwOf(e).pol, ckm |-> ck] :
     p \in PROCS, j \in PROJS, k \in KINDS, fl \in FLAVS, s \in SCHEMES, pa \in PARTS, o \in ORDERS, tg \in TARGETS,
     ps \in POSS, e \in EWS, ck \in CKMS}
WellFormed(pt) ==
  /\ (pt.parts # "full" => pt.fns \in {"FONLL-FFNS", "FONLL-FFN0"})
  /\ (pt.proc = "CC" => pt.pos = 0)
  /\ (pt.proc # "CC" => pt.ckm = "generic")
Canonical(rel, pt) ==
  CASE rel \in {"FFNSPartition", "ZMTotalIsLight"} -> pt.flav = "total"
    [] rel \in NamedRels        -> TRUE
    [] rel = "FONLLParts"      -> pt.parts = "full"
    [] rel = "PositivitySum"   -> pt.pos = 0
    [] rel = "IsospinRotation" -> pt.target # <<One, One>>
    [] rel = "NCReducesToEM"   -> pt.proc = "NC"
    [] rel = "PositronFlip"    -> pt.proj = 11
    [] rel \in {"ChargeConjugation", "LeptonAsNeutrino"} -> pt.proj = 12
    [] rel = "EqualCharge"     -> pt.pos = 0
    [] rel = "TaggedSpectators" -> pt.pos = 0
    [] rel = "TaggedIsRestricted" -> pt.pos = 0
Instances ==
  {[rel |-> rel, pt |-> pt, terms |-> RelTerms(rel, pt)] :
     rel \in RELS, pt \in {q \in Points : WellFormed(q)} }
Wanted(i) == Canonical(i.rel, i.pt) /\ RelApplies(i.rel, i.pt)
ASSUME ndJsonSerialize(IOEnv.OUT, SetToSeq({i \in Instances : Wanted(i)}))
=============================================================================
