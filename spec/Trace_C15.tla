------------------------------ MODULE Trace_C15 ------------------------------
(* Trace validation for C15: one line per executed operation sequence on a real Output; `steps` records, per cycle, *)
(* whether dump and load completed and whether the loaded object is content-identical to the ORIGINAL.              *)
EXTENDS OutputIO, Json, IOUtils
TraceLog == ndJsonDeserialize(IOEnv.TRACE_FILE)
Judge(L) ==
  LET o == MkOutput(L.kinds, L.npts, L.keys, L.vcls, L.rep) IN
  IF ~RoundTripIdentity(o, L.fmts) THEN "spec_theorem_false"
  ELSE IF Len(L.steps) # Len(L.fmts) THEN "sequence_not_completed"
  ELSE IF \E i \in 1..Len(L.steps) : L.steps[i].fmt # L.fmts[i] THEN "wrong_operation_sequence"
  ELSE IF \E i \in 1..Len(L.steps) : L.steps[i].dump # "ok" THEN "dump_failed"
  ELSE IF \E i \in 1..Len(L.steps) : L.steps[i].load # "ok" THEN "load_failed"
  ELSE IF \E i \in 1..Len(L.steps) : ~L.steps[i].same_content THEN "content_changed"
  ELSE IF \E i \in 1..Len(L.steps) : ~L.steps[i].same_predictions THEN "predictions_changed"
  ELSE "ok"
VARIABLE l
Init == l = 1
Next == /\ l <= Len(TraceLog)
        /\ LET v == Judge(TraceLog[l]) IN IF v = "ok" THEN TRUE ELSE PrintT(<<"VERDICT", TraceLog[l].oid, v>>)
        /\ l' = l + 1
Spec == Init /\ [][Next]_l
Consumed == TLCGet("stats").diameter - 1
Accepted == PrintT(<<"CONSUMED", Consumed>>) /\ Consumed = Len(TraceLog)
=============================================================================
