---------------------------- MODULE MC_ScaleVar ----------------------------
(* RGE / switch-off theorems on generic integer instantiations of the splitting labels and coefficients. *)
EXTENDS ScaleVar
CONSTANTS NI, NFS, PTOS
VARIABLES stage, pick
Val(n, salt) == RI(((n * (2 * salt + 3) + salt * salt) % 9) - 4)
Inst(n) ==
  LET b == [qq0 |-> Val(n, 1), qg0 |-> Val(n, 2), gq0 |-> Val(n, 3), gg0 |-> Val(n, 4), qq1 |-> Val(n, 5), qg1 |-> Val(n, 6),
            gq1 |-> Val(n, 7), gg1 |-> Val(n, 8), nsp1 |-> Val(n, 9), nsm1 |-> Val(n, 10)]
  IN [qq0 |-> b.qq0, qg0 |-> b.qg0, gq0 |-> b.gq0, gg0 |-> b.gg0, qq1 |-> b.qq1, qg1 |-> b.qg1, gq1 |-> b.gq1, gg1 |-> b.gg1,
      nsp1 |-> b.nsp1, nsm1 |-> b.nsm1,
      qq0sq |-> RMul(b.qq0, b.qq0), qg0gq0 |-> RMul(b.qg0, b.gq0), qq0qg0 |-> RMul(b.qq0, b.qg0), qg0gg0 |-> RMul(b.qg0, b.gg0)]
\* raw coefficients per order for a kernel of sector sec (LO has no gluon part; non-singlets have none at all)
Coef(n, sec) ==
  [o \in 0..3 |-> CASE sec = "G" -> IF o = 0 THEN VZero ELSE <<Zero, Val(n, 20 + o)>>
                    [] sec = "S" -> <<Val(n, 11 + o), Zero>>
                    [] OTHER -> <<Val(n, 11 + o), Zero>>]
\* a full singlet coefficient (quark and gluon parts together), the general case of the RGE
CoefFull(n) == [o \in 0..3 |-> IF o = 0 THEN <<Val(n, 11), Zero>> ELSE <<Val(n, 11 + o), Val(n, 20 + o)>>]
Init == stage = 0 /\ pick \in {[sec |-> sc, nf |-> nf, pto |-> p] : sc \in Sectors \cup {"SG"}, nf \in NFS, p \in PTOS}
Next == stage = 0 /\ stage' = 1 /\ \E n \in 1..NI : pick' = [pick EXCEPT !.sec = @] @@ [n |-> n]
Spec == Init /\ [][Next]_<<stage, pick>>
Leaf == stage = 1
Sec == IF pick.sec = "SG" THEN "S" ELSE pick.sec
C == IF pick.sec = "SG" THEN CoefFull(pick.n) ELSE Coef(pick.n, pick.sec)
Inv_RGE_muR == Leaf => RGE_muR(Inst(pick.n), Sec, pick.nf, pick.pto, C)
Inv_RGE_muF == Leaf => RGE_muF(Inst(pick.n), Sec, pick.nf, pick.pto, C)
Inv_SwitchOff == Leaf => SwitchOff(Inst(pick.n), Sec, pick.nf, pick.pto, C)
Inv_Keys == Leaf => KeysCovered(Inst(pick.n), Sec, pick.nf, pick.pto, C)
Inv_Intrinsic == Leaf => IntrinsicDenied(Inst(pick.n), Sec, pick.nf, pick.pto, C)
=============================================================================
