------------------------------ MODULE Trace_Rel ------------------------------
(***************************************************************************)
(* Trace validation of relation instances.  A line records, for one        *)
(* instance, the outcome of the real runs, whether all terms carried the   *)
(* same order keys, and the largest residual of the relation over all      *)
(* order keys and entries in units of the tolerance (thousandths).  The    *)
(* line is accepted iff the specification asserts that relation at that    *)
(* point, the relation holds in the specification, and the real runs       *)
(* satisfy it.                                                             *)
(***************************************************************************)
EXTENDS Lattice, Json, IOUtils

TraceLog == ndJsonDeserialize(IOEnv.TRACE_FILE)
Judge(L) ==
  IF L.rel \notin RelNames THEN "unknown_relation"
  ELSE IF ~RelApplies(L.rel, L.pt) THEN "relation_not_asserted_by_spec"
  ELSE IF ~RelHolds(L.rel, L.pt) THEN "relation_false_in_spec"
  ELSE IF L.terms # RelTerms(L.rel, L.pt) THEN "terms_differ_from_spec"
  ELSE IF L.outcome # "OK" THEN "outcome_" \o L.outcome
  ELSE IF ~L.keyset_ok THEN "order_keys_differ_between_terms"
  ELSE IF L.nkeys < 1 THEN "no_order_keys"
  ELSE IF L.resid_milli > 1000 THEN "relation_violated_by_code"          \* (over the order keys whose entries are finite)
  ELSE IF ~L.finite THEN "non_finite_entries"
  ELSE "ok"
VARIABLE l
Init == l = 1
Next == /\ l <= Len(TraceLog)
        /\ LET v == Judge(TraceLog[l]) IN IF v = "ok" THEN TRUE ELSE PrintT(<<"VERDICT", TraceLog[l].oid, v>>)
        /\ l' = l + 1
Spec == Init /\ [][Next]_l
Consumed == TLCGet("stats").diameter - 1
Accepted == PrintT(<<"CONSUMED", Consumed>>) /\ Consumed = Len(TraceLog)
=============================================================================
