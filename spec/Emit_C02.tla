------------------------------ MODULE Emit_C02 ------------------------------
(* Obligations for C02: for every lattice cell the textbook LO row (exact). *)
EXTENDS Lattice, Json, IOUtils, SequencesExt

CONSTANTS S2W, RR, OMD, POL, NFZM, KINDS, PROCS, FLAVS, CKMS
S2W_q1 == {R(3, 8)}   S2W_q == {R(1, 4), R(3, 8)}      S2W_full == {R(1, 2), R(1, 4), R(1, 8), R(3, 8)}
RR_q  == {Zero, R(1, 5)}         RR_full  == {Zero, R(1, 2), R(1, 5), R(2, 3)}
OMD_q == {R(1, 2)}               OMD_full == {One, R(1, 2), R(5, 4)}
POL_q == {RI(-1), Zero, R(1, 3)} POL_full == {RI(-1), R(-1, 2), Zero, R(1, 3), One}
ZM(n) == [fns |-> "ZM-VFNS", nfff |-> 4, nfzm |-> n]

Pt(p, j, k, fl, n, s, r, o, pl, ck, e) ==
  [proc |-> p, proj |-> j, kind |-> k, flav |-> fl, nf |-> n, s2w |-> s, r |-> r, omd |-> o, pol |-> pl, ckm |-> ck, rexp |-> e, tza |-> 1]
Points0 ==
  {Pt(p, j, k, fl, n, s, r, o, pl, ck, 0) :
     p \in PROCS, j \in {11, -11, 12, -12}, k \in KINDS, fl \in FLAVS, n \in NFZM,
     s \in S2W, r \in RR, o \in OMD, pl \in POL, ck \in CKMS}
PointsTiny ==
  {Pt(p, j, k, fl, n, s, r, o, Zero, "generic", 16) :
     p \in PROCS \cap {"NC"}, j \in {12, -12}, k \in KINDS, fl \in FLAVS, n \in NFZM,
     s \in S2W, r \in RR \ {Zero}, o \in OMD}
\* canonical points only: EM/NC do not depend on the CKM, CC not on the EW point
Canon(pt) == /\ (pt.proc # "CC" => pt.ckm = "generic")
             /\ (pt.proc = "CC" => /\ pt.s2w = (CHOOSE s \in S2W : TRUE) /\ pt.r = (CHOOSE r \in RR : TRUE)
                                   /\ pt.omd = (CHOOSE o \in OMD : TRUE) /\ pt.pol = (CHOOSE q \in POL : TRUE))
             /\ (pt.proc = "EM" => pt.r = (CHOOSE r \in RR : TRUE))
             \* rexp = e: the run is made at the propagator ratio r / 2^e (every weight of a neutrino beam far below 1e-8, tiny but
             \* not zero) and the observed row, multiplied by 4^e, must be the row at r (Theorems.C02_NeutrinoScaling)
             /\ (pt.rexp # 0 => pt.proc = "NC" /\ pt.proj \in {12, -12} /\ ~RIsZero(pt.r))
             /\ (pt.flav \in {"charm", "bottom", "top"} => HqOf(pt.flav) <= pt.nf)
CellOf(pt) ==
  MkCell([proc |-> pt.proc, proj |-> pt.proj, s2w |-> pt.s2w, r |-> pt.r, omd |-> pt.omd, pol |-> pt.pol, pos |-> 0],
         CkmOf(pt.ckm), pt.kind, FamOf(pt.flav), HqOf(pt.flav), ZM(pt.nf), "full", 0, 0, One, One)
\* tza = 1: the proton; tza = 3: a nucleus with Z/A = 1/3 (card: a dict listing A before Z, as a YAML dump does) - the parton model of
\* a nucleus is the one of the proton with u and d (ubar and dbar) mixed, (Z f_p + (A - Z) f_n)/A with the neutron the u <-> d swap
TextbookRow(c) == [p \in Pids |-> TextbookLO(c, p)]
Expect(pt) == LET c == CellOf(pt) IN IF pt.tza = 1 THEN TextbookRow(c) ELSE Rotate(TextbookRow(c), One, RI(pt.tza))
Obligation(pt) ==
  LET c == CellOf(pt) IN
  [pt |-> pt, ckm2 |-> CkmOf(pt.ckm), indomain |-> C02Domain(c),
   expect |-> [i \in 1..13 |-> Expect(pt)[PidSeq[i]]]]
\* the nuclear points: one EW point per cell
PointsNucl == {[q EXCEPT !.tza = 3] : q \in {q \in Points0 : Canon(q) /\ q.s2w = (CHOOSE s \in S2W : TRUE) /\ q.omd = (CHOOSE o \in OMD : TRUE)
                                                              /\ q.pol = (CHOOSE pl \in POL : TRUE) /\ q.ckm = "generic"}}
\* other weak mixing angles than the lattice's own, on a thin slice of the NC cells: every worker process meets several values of
\* sin^2(theta_W) one after the other (whatever is remembered of the couplings at class or module level belongs to ONE theory)
PointsS2W == IF "NC" \notin PROCS \/ "light" \notin FLAVS THEN {} ELSE
  {Pt("NC", j, k, "light", n, s, r, o, pl, "generic", 0) :
     j \in {11, -12}, k \in KINDS \cap {"F2", "F3"}, n \in NFZM, s \in {R(1, 4), R(1, 8)} \ S2W, r \in RR \ {Zero}, o \in OMD, pl \in POL}
\* (the two point sets are filtered lazily and only the obligations are united: a union of the point sets themselves makes TLC
\* normalise half a million records)
ASSUME ndJsonSerialize(IOEnv.OUT, SetToSeq({Obligation(pt) : pt \in {q \in Points0 : Canon(q)}}
                                            \cup {Obligation(pt) : pt \in {q \in PointsTiny : Canon(q)}}
                                            \cup {Obligation(pt) : pt \in PointsNucl}
                                            \cup {Obligation(pt) : pt \in PointsS2W}))
=============================================================================
