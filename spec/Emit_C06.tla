------------------------------ MODULE Emit_C06 ------------------------------
(* C06 obligations: theory x (threshold i, class) with the expected nf and beta0 (exact). *)
EXTENDS FlavourNumber, Json, IOUtils, SequencesExt
CONSTANTS NFFFS, MASSES, KS, FNSS
MassOf(n) == CASE n = "a" -> <<R(3, 2), RI(3), R(9, 2)>> [] n = "b" -> <<RI(2), RI(5), RI(30)>> [] n = "c" -> <<R(3, 2), R(3, 2), RI(4)>>
KOf(n) == CASE n = "one" -> <<One, One, One>> [] n = "two" -> <<RI(2), One, One>> [] n = "half" -> <<One, R(1, 2), RI(2)>>
            [] n = "mix" -> <<R(1, 2), R(3, 2), One>>
Th(f, n, m, k) == [FNS |-> f, NfFF |-> n, m |-> MassOf(m), k |-> [i \in 1..3 |-> Fin(KOf(k)[i])]]
\* in fixed schemes the card's matching ratios are overwritten: the class is taken relative to (m_i k_i)^2 of the CARD
CardThr(t, i) == RMul(RSq(t.m[i]), RSq(t.k[i].v))
ZMTheory(t) == [t EXCEPT !.FNS = "ZM-VFNS"]
Probes(t) == {<<i, c>> : i \in 1..3, c \in Classes}
Obl(f, n, m, k, i, c) ==
  LET t == Th(f, n, m, k)
      q2 == Q2Of(ZMTheory(t), i, c)
  IN [fns |-> f, nfff |-> n, m |-> MassOf(m), k |-> KOf(k), i |-> i, cls |-> c, thr |-> CardThr(t, i),
      valid |-> Valid(ZMTheory(t)) /\ ClassValid(ZMTheory(t), i, c),
      \* matching scales that are not in ascending order: no flavour number can be read off, the card is refused
      unordered |-> RewriteFNS(ZMTheory(t)).ok /\ ~Monotone(Thresholds(ZMTheory(t))),
      nf |-> NfActive(t, q2), beta0 |-> Beta0(NfActive(t, q2))]
ASSUME ndJsonSerialize(IOEnv.OUT, SetToSeq({Obl(f, n, m, k, i, c) :
          f \in FNSS, n \in NFFFS, m \in MASSES, k \in KS, i \in 1..3, c \in Classes}))
=============================================================================
