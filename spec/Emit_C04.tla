------------------------------ MODULE Emit_C04 ------------------------------
EXTENDS Numerics, Json, IOUtils, SequencesExt
ASSUME NLO_Adler /\ NLO_GLS /\ NLO_Bjorken /\ NLO_G1g
Tables == << [name |-> "C2q", tab |-> C2qReg], [name |-> "C3q", tab |-> C3qReg], [name |-> "G1q", tab |-> G1qReg],
             [name |-> "CLq", tab |-> CLqReg], [name |-> "C2g", tab |-> C2gReg], [name |-> "CLg", tab |-> CLgReg],
             [name |-> "G1g", tab |-> G1gReg] >>
Rules == {[rule |-> r, order |-> o, nf |-> nf,
           value |-> CASE r = "Adler" -> Adler(o, nf) [] r = "GLS" -> GLS(o, nf) [] r = "Bjorken" -> Bjorken(o, nf)
                       [] r = "LightByLight" -> LightByLight(nf)] :
            r \in {"Adler", "GLS", "Bjorken", "LightByLight"}, o \in 1..3, nf \in 3..6}
ASSUME ndJsonSerialize(IOEnv.OUT, <<[tables |-> Tables, d0 |-> D0Coef, d1 |-> D1Coef, delta |-> DeltaCoef]>>)
ASSUME ndJsonSerialize(IOEnv.OUT2, SetToSeq({r \in Rules : ~(r.rule = "Bjorken" /\ r.order = 3) /\ (r.rule = "LightByLight" => r.order = 3)}))
=============================================================================
