--------------------------------- MODULE TMC ---------------------------------
(***************************************************************************)
(* Target-mass corrections (esf/tmc.py) as published (Schienbein et al.,   *)
(* J.Phys.G35 (2008) 053101, Eqs. 21-23 exact, 26 approximate; APFEL = the *)
(* exact form without the double integral g2).  yadism's F3 is x F3.       *)
(*                                                                         *)
(* Kinematics: x, mu = M^2/Q^2, rho = sqrt(1 + 4 x^2 mu), xi = 2x/(1+rho). *)
(* The lattice is chosen with RATIONAL rho, so every prefactor is an exact *)
(* rational; ln(xi) enters the approximate formulas linearly and is kept   *)
(* as an atom.  A corrected structure function is a list of terms          *)
(*   <<term, coefficient, atom>>,  term in                                 *)
(*   "SF@xi"  the same kind at xi          "F2@xi"  F2 at xi               *)
(*   "h2" = int_xi^1 du F2(u)/u^2          "g2" = int_xi^1 du (u-xi) F2(u)/u^2 *)
(*   "h3" = int_xi^1 du [u F3(u)]/u^2   (= int du F3(u)/u of the paper)    *)
(***************************************************************************)
EXTENDS Rat

Modes == {1, 2, 3}          \* 1 APFEL, 2 approximate, 3 exact
Kinds == {"F2", "FL", "F3"}
\* a lattice point is [x, rho]; mu and xi follow
Mu(p) == RDiv(RSub(RSq(p.rho), One), RMul(RI(4), RSq(p.x)))
Xi(p) == RDiv(RMul(RI(2), p.x), RAdd(One, p.rho))
T(term, coef, atom) == <<term, coef, atom>>
Pow(a, n) == RPow(a, n)
Shifted(kind, p) ==          \* x^2 / (xi^2 rho^n), n = 3, 1, 2 for F2, FL, xF3
  RDiv(RSq(p.x), RMul(RSq(Xi(p)), Pow(p.rho, CASE kind = "F2" -> 3 [] kind = "FL" -> 1 [] kind = "F3" -> 2)))
Exact(kind, p) ==
  LET mu == Mu(p) x == p.x r == p.rho IN
  CASE kind = "F2" -> << T("SF@xi", Shifted("F2", p), "one"),
                         T("h2", RDiv(RMul(RI(6), RMul(mu, Pow(x, 3))), Pow(r, 4)), "one"),
                         T("g2", RDiv(RMul(RI(12), RMul(RSq(mu), Pow(x, 4))), Pow(r, 5)), "one") >>
    [] kind = "FL" -> << T("SF@xi", Shifted("FL", p), "one"),
                         T("h2", RDiv(RMul(RI(4), RMul(mu, Pow(x, 3))), Pow(r, 2)), "one"),
                         T("g2", RDiv(RMul(RI(8), RMul(RSq(mu), Pow(x, 4))), Pow(r, 3)), "one") >>
    [] kind = "F3" -> << T("SF@xi", Shifted("F3", p), "one"),
                         T("h3", RDiv(RMul(RI(2), RMul(mu, Pow(x, 3))), Pow(r, 3)), "one") >>
Apfel(kind, p) == SelectSeq(Exact(kind, p), LAMBDA t : t[1] # "g2")
Approx(kind, p) ==
  LET mu == Mu(p) x == p.x r == p.rho xi == Xi(p) a == RDiv(RMul(mu, RMul(x, xi)), r) IN      \* a = mu x xi / rho
  CASE kind = "F2" -> << T("SF@xi", RMul(Shifted("F2", p), RAdd(One, RMul(RMul(RI(6), a), RSq(RSub(One, xi))))), "one") >>
    [] kind = "FL" -> << T("SF@xi", Shifted("FL", p), "one"),
                         T("F2@xi", RMul(Shifted("FL", p), RAdd(RMul(RMul(RI(4), a), RSub(One, xi)),
                                                                RMul(RMul(RI(8), RSq(a)), RSub(xi, One)))), "one"),
                         T("F2@xi", RMul(Shifted("FL", p), RMul(RI(-8), RSq(a))), "ln_xi") >>
    [] kind = "F3" -> << T("SF@xi", Shifted("F3", p), "one"),
                         T("SF@xi", RMul(Shifted("F3", p), RNeg(RMul(a, RSub(One, xi)))), "ln_xi") >>
Formula(kind, mode, p) == CASE mode = 1 -> Apfel(kind, p) [] mode = 2 -> Approx(kind, p) [] mode = 3 -> Exact(kind, p)

\* ---- theorems
\* no target mass: rho = 1, xi = x, the corrected function is the bare one
RECURSIVE SumCoef(_, _, _)
SumCoef(ts, term, atom) == IF ts = <<>> THEN Zero
                           ELSE RAdd(IF Head(ts)[1] = term /\ Head(ts)[3] = atom THEN Head(ts)[2] ELSE Zero, SumCoef(Tail(ts), term, atom))
VanishesAtZeroMass(kind, mode, x) ==
  LET p == [x |-> x, rho |-> One] ts == Formula(kind, mode, p) IN
  /\ Xi(p) = x /\ Mu(p) = Zero
  /\ SumCoef(ts, "SF@xi", "one") = One
  /\ \A i \in 1..Len(ts) : (ts[i][1] # "SF@xi" \/ ts[i][3] # "one") => ts[i][2] = Zero
\* APFEL is the exact form with g2 dropped, nothing else changed
ApfelInExact(kind, p) == \A i \in 1..Len(Apfel(kind, p)) : \E j \in 1..Len(Exact(kind, p)) : Apfel(kind, p)[i] = Exact(kind, p)[j]
\* F_L = rho^2 F_2 - 2 x F_1: the h2 and g2 weights of FL are rho^2 x those of F2 minus those of 2xF1 (= x^2/(xi^2 rho) shifted,
\* 2 mu x^3/rho^2 h2, 4 mu^2 x^4/rho^3 g2 ... ): checked on the integral weights, which are convention free
FLRelation(p) ==
  LET f2 == Exact("F2", p) fl == Exact("FL", p) r2 == RSq(p.rho) IN
  \* 2xF1 weights = rho^2 F2 weights - FL weights must be the published 2xF1 row: h2: 2 mu x^3/rho^2, g2: 4 mu^2 x^4/rho^3
  /\ RSub(RMul(r2, SumCoef(f2, "h2", "one")), SumCoef(fl, "h2", "one")) = RDiv(RMul(RI(2), RMul(Mu(p), Pow(p.x, 3))), RSq(p.rho))
  /\ RSub(RMul(r2, SumCoef(f2, "g2", "one")), SumCoef(fl, "g2", "one")) = RDiv(RMul(RI(4), RMul(RSq(Mu(p)), Pow(p.x, 4))), Pow(p.rho, 3))
\* the shifted point leaves the grid: rejection (xi < xmin)
Rejected(p, xmin) == RLt(Xi(p), xmin)
=============================================================================
