------------------------------ MODULE Emit_Names ------------------------------
(* every well-formed name plus malformed ones (unknown kind / flavour, wrong case, empty part, three parts) *)
EXTENDS Names, Json, IOUtils, SequencesExt
KindParts   == Kinds \cup {"F4", "f2", "", "XS"}
FlavorParts == Flavors \cup {"strange", "Total", "", "lightcharm", "charm light"}
Names1 == {<<k>> : k \in KindParts}
Names2 == {<<k, f>> : k \in KindParts, f \in FlavorParts}
Names3 == {<<"F2", "charm", "light">>, <<"F2", "total", "">>, <<"XSHERANC", "total", "x">>}
ASSUME ndJsonSerialize(IOEnv.OUT, SetToSeq({[parts |-> p] : p \in Names1 \cup Names2 \cup Names3}))
=============================================================================
