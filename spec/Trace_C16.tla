------------------------------ MODULE Trace_C16 ------------------------------
(***************************************************************************)
(* Trace validation for C16.  A line records the outcome class of one real *)
(* run (OK / Reject_<explicit error> / Crash_<internal error>) and whether *)
(* every value and error entry was finite.  Accepted iff the outcome is in *)
(* the allowed alphabet for the class the specification predicts.          *)
(***************************************************************************)
EXTENDS Lattice, Json, IOUtils
TraceLog == ndJsonDeserialize(IOEnv.TRACE_FILE)
IsXS(k) == k \in XSKinds
Predict(pt, k, tmc, xc, qc) ==
  LET ko == KinOutcome(xc, qc) IN
  IF ko # "OK" THEN ko
  ELSE IF IsXS(k) THEN OutcomeXS(CellOfPt(SetPt(pt, "kind", "F2")), k, tmc)
  ELSE OutcomeTMC(CellOfPt(pt), tmc)
Judge(L) ==
  IF Predict(L.pt, L.name, L.tmc, L.xc, L.qc) # L.predicted THEN "prediction_differs_from_spec"
  ELSE IF L.cls = "Crash" THEN "internal_error_" \o L.etype
  ELSE IF L.cls = "OK" /\ ~L.finite THEN "non_finite_entries"
  ELSE IF L.cls = "OK" /\ L.predicted = "Reject:kinematics" THEN "out_of_domain_kinematics_accepted"
  ELSE IF L.cls \notin {"OK", "Reject"} THEN "unknown_outcome_class"
  ELSE "ok"
VARIABLE l
Init == l = 1
Next == /\ l <= Len(TraceLog)
        /\ LET v == Judge(TraceLog[l]) IN IF v = "ok" THEN TRUE ELSE PrintT(<<"VERDICT", TraceLog[l].oid, v>>)
        /\ l' = l + 1
Spec == Init /\ [][Next]_l
Consumed == TLCGet("stats").diameter - 1
Accepted == PrintT(<<"CONSUMED", Consumed>>) /\ Consumed = Len(TraceLog)
=============================================================================
