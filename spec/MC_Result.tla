------------------------------ MODULE MC_Result ------------------------------
(* The theorems of Result.tla on all triples of the universe. *)
EXTENDS ResultUniverse
VARIABLES a, b, c
Init == a \in Universe /\ b \in Universe /\ c \in Universe
Next == UNCHANGED <<a, b, c>>
Spec == Init /\ [][Next]_<<a, b, c>>
Inv_Add == AddCommutesInContent(a, b) /\ AddAssociative(a, b, c) /\ AddIdentity(a) /\ KeysOfSum(a, b) /\ MetaFromLeft(a, b)
Inv_Mul == (\A s \in Scalars : MulDistributes(a, b, s)) /\ MulComposes(a, 2, -3) /\ ErrorsAreLinear(a)
Inv_XS  == \A cf \in {<<2, -1, 0>>, <<1, 1, -1>>} : XSKeys(cf, <<a, b, c>>)
=============================================================================
