------------------------------ MODULE ScaleVar ------------------------------
(***************************************************************************)
(* Scale variations (esf/scale_variations.py, splitting_functions/          *)
(* sector_mapping) at SECTOR level in exact rationals.                      *)
(*                                                                          *)
(* A coefficient is a row vector <<quark part, gluon part>> in channel      *)
(* space (non-singlet sectors use the quark part only).  The stored order   *)
(* key (k, i, j) multiplies  a_s(muR)^k * tR^i * tF^j  with                 *)
(* tR = ln(Q2/muR2), tF = ln(Q2/muF2) (as apply_pdf evaluates them).        *)
(* Row-vector convention: a splitting matrix acts as  c' = c . P .          *)
(*                                                                          *)
(* An instance `s` gives the value of every splitting label (the operators  *)
(* are taken proportional to the identity in interpolation space):          *)
(*   qq0 qg0 gq0 gg0 (LO), qq1 qg1 gq1 gg1 nsp1 nsm1 (NLO),                 *)
(*   qq0sq qg0gq0 qq0qg0 qg0gg0 (the convolved labels)                      *)
(* and c : 0..3 -> the raw coefficient of the kernel per order.             *)
(***************************************************************************)
EXTENDS Rat, TLC, SequencesExt

Sectors == {"nsp", "nsm", "nsv", "S", "G"}     \* the flavour sector a test kernel lives in
V2(a, b)   == <<a, b>>
VZero      == <<Zero, Zero>>
VAdd(u, v) == <<RAdd(u[1], v[1]), RAdd(u[2], v[2])>>
VScale(r, v) == <<RMul(r, v[1]), RMul(r, v[2])>>
VM(v, M)   == <<RAdd(RMul(v[1], M[1][1]), RMul(v[2], M[2][1])), RAdd(RMul(v[1], M[1][2]), RMul(v[2], M[2][2]))>>
MM(A, B)   == << <<RAdd(RMul(A[1][1], B[1][1]), RMul(A[1][2], B[2][1])), RAdd(RMul(A[1][1], B[1][2]), RMul(A[1][2], B[2][2]))>>,
                 <<RAdd(RMul(A[2][1], B[1][1]), RMul(A[2][2], B[2][1])), RAdd(RMul(A[2][1], B[1][2]), RMul(A[2][2], B[2][2]))>> >>
MSub(A, B) == << <<RSub(A[1][1], B[1][1]), RSub(A[1][2], B[1][2])>>, <<RSub(A[2][1], B[2][1]), RSub(A[2][2], B[2][2])>> >>
MScale(r, A) == << <<RMul(r, A[1][1]), RMul(r, A[1][2])>>, <<RMul(r, A[2][1]), RMul(r, A[2][2])>> >>
Id2 == << <<One, Zero>>, <<Zero, One>> >>
QRow(M) == << M[1], <<Zero, Zero>> >>                          \* gluon rows empty (empty_gluon)

B0(nf) == RSub(RI(11), RMul(R(2, 3), RI(nf)))
B1(nf) == RSub(RI(102), RMul(R(38, 3), RI(nf)))

\* ------------------------------------------------------------------ sector view of the labels
\* LO matrix seen by a kernel of sector sec (non-singlets: P_qq_0 on the quark part)
P0Of(s, sec) == IF sec \in {"S", "G"} THEN << <<s.qq0, s.qg0>>, <<s.gq0, s.gg0>> >>
                ELSE << <<s.qq0, Zero>>, <<Zero, Zero>> >>
\* NLO, as sector_mapping assigns the labels: (ns+,0) -> P_nsp_1 ; (ns-,0) and (nsV,0) -> P_nsm_1 ;
\* (100,100) -> P_qq_1, (100,21) -> P_qg_1 (gluon rows as given by the instance, the tables never use them)
P1Of(s, sec) == CASE sec = "nsp" -> << <<s.nsp1, Zero>>, <<Zero, Zero>> >>
                  [] sec = "nsm" -> << <<s.nsm1, Zero>>, <<Zero, Zero>> >>
                  [] sec = "nsv" -> << <<s.nsm1, Zero>>, <<Zero, Zero>> >>
                  [] OTHER -> << <<s.qq1, s.qg1>>, <<s.gq1, s.gg1>> >>
\* NLO DGLAP evolution, stated independently of the tables: q+ combinations evolve with P_ns^+, q- combinations with
\* P_ns^-, the total valence with P_ns^V = P_ns^- + P_ns^S where P_ns^S starts at three loops; the singlet with the matrix
DglapP1(s, sec) == CASE sec = "nsp" -> << <<s.nsp1, Zero>>, <<Zero, Zero>> >>
                     [] sec \in {"nsm", "nsv"} -> << <<RAdd(s.nsm1, IF sec = "nsv" THEN Zero ELSE Zero), Zero>>, <<Zero, Zero>> >>
                     [] OTHER -> << <<s.qq1, s.qg1>>, <<s.gq1, s.gg1>> >>
\* quark row of "P0 (x) P0" AS THE CODE COMBINES THE CONVOLVED LABELS
PPRowOf(s, sec) == IF sec \in {"S", "G"} THEN <<RAdd(s.qq0sq, s.qg0gq0), RAdd(s.qq0qg0, s.qg0gg0)>>
                   ELSE <<s.qq0sq, Zero>>
\* the convolved labels are what their names say (true of the real kernels: checked numerically by moments)
LabelsConsistent(s) ==
  /\ s.qq0sq = RMul(s.qq0, s.qq0) /\ s.qg0gq0 = RMul(s.qg0, s.gq0)
  /\ s.qq0qg0 = RMul(s.qq0, s.qg0) /\ s.qg0gg0 = RMul(s.qg0, s.gg0)

\* ------------------------------------------------------------------ tables as the code combines them
\* fact_matrices: <<target, lnf, src, matrix>>
FactMatrices(s, sec, nf, pto) ==
  LET P0 == P0Of(s, sec) b0 == B0(nf) IN
  (IF pto >= 1 THEN << <<1, 1, 0, QRow(P0)>> >> ELSE <<>>)
  \o (IF pto >= 2
        THEN << <<2, 1, 0, QRow(P1Of(s, sec))>>,
                <<2, 1, 1, MSub(P0, MScale(b0, IF sec \in {"S", "G"} THEN Id2 ELSE << <<One, Zero>>, <<Zero, Zero>> >>))>>,
                <<2, 2, 0, QRow(<< VScale(R(1, 2), VAdd(PPRowOf(s, sec), VScale(RNeg(b0), P0[1]))), VZero >>)>> >>
        ELSE <<>>)
\* ren_coeffs: <<target, lnf2r, src, coefficient>>
RenCoeffs(nf, pto) ==
  SelectSeq(<< <<2, 1, 1, B0(nf)>>, <<3, 1, 2, RMul(RI(2), B0(nf))>>, <<3, 1, 1, B1(nf)>>, <<3, 2, 1, RSq(B0(nf))>> >>,
            LAMBDA e : e[1] <= pto)

RECURSIVE FlatMap(_, _)
FlatMap(f(_), seq) == IF seq = <<>> THEN <<>> ELSE f(Head(seq)) \o FlatMap(f, Tail(seq))

\* an entry is <<k, i, j, vector>> : coefficient of a^k tR^i tF^j
Base(c, pto) == [o \in 1..(pto + 1) |-> <<o - 1, 0, 0, c[o - 1]>>]
Common(s, sec, nf, pto, base) ==
  LET fm == FactMatrices(s, sec, nf, pto)
      one(e) == FlatMap(LAMBDA m : IF m[3] = e[1] THEN << <<m[1], 0, m[2], VM(e[4], m[4])>> >> ELSE <<>>, fm)
  IN FlatMap(one, base)
Diff(nf, pto, allk, ren, fact) ==
  LET rc == RenCoeffs(nf, pto)
      split(e, r) == FlatMap(LAMBDA jj : LET j == jj - 1 key3 == r[2] - j + e[3] IN
                               IF (~ren /\ j # 0) \/ (~fact /\ key3 # 0) THEN <<>>
                               ELSE << <<r[1], j, key3, VScale(RMul(RI(Binom(r[2], j) * IPow(-1, j)), r[4]), e[4])>> >>,
                             [x \in 1..(r[2] + 1) |-> x])
      one(e) == FlatMap(LAMBDA r : IF r[3] = e[1] THEN split(e, r) ELSE <<>>, rc)
  IN IF ~ren /\ ~fact THEN <<>> ELSE FlatMap(one, allk)
\* all entries for one kernel (compute_local); intrinsic kernels get no factorisation-scale terms at all
Entries(s, sec, nf, pto, c, ren, fact, intrinsic) ==
  LET base == Base(c, pto)
      comm == IF fact /\ ~intrinsic THEN Common(s, sec, nf, pto, base) ELSE <<>>
      allk == base \o comm
  IN allk \o Diff(nf, pto, allk, ren, fact /\ ~intrinsic)

\* sum the entries per key
KeysUpTo(K) == {<<k, i, j>> : k \in 0..K, i \in 0..3, j \in 0..3}
RECURSIVE SumKey(_, _)
SumKey(es, key) == IF es = <<>> THEN VZero
                   ELSE VAdd(IF <<Head(es)[1], Head(es)[2], Head(es)[3]>> = key THEN Head(es)[4] ELSE VZero, SumKey(Tail(es), key))
Poly(es, K) == TLCEval([key \in KeysUpTo(K) |-> SumKey(es, key)])
Table(s, sec, nf, pto, c, ren, fact, intrinsic) == Poly(Entries(s, sec, nf, pto, c, ren, fact, intrinsic), 3)

\* build_orders(pto): the keys every result carries
BuildOrders(pto) == {<<k, r, f>> : k \in 0..pto, f \in 0..3, r \in 0..3} \cap
                    {<<k, r, f>> \in KeysUpTo(3) : f <= k /\ r < IMax(k, 1)}

\* ------------------------------------------------------------------ renormalisation group
\* d/dtR with da/dtR = b0 a^2 + b1 a^3 ; entries beyond a^pto are dropped (truncation)
DtR(C, nf, pto) ==
  LET b0 == B0(nf) b1 == B1(nf)
      es == FlatMap(LAMBDA key :
              LET k == key[1] i == key[2] j == key[3] v == C[key] IN
              (IF i > 0 THEN << <<k, i - 1, j, VScale(RI(i), v)>> >> ELSE <<>>)
              \o (IF k > 0 THEN << <<k + 1, i, j, VScale(RMul(RI(k), b0), v)>>, <<k + 2, i, j, VScale(RMul(RI(k), b1), v)>> >> ELSE <<>>),
              SetToSeq(DOMAIN C))
  IN Poly(SelectSeq(es, LAMBDA e : e[1] <= pto), 3)
\* d/dtF with df/dtF = -(aF P0 + aF^2 P1) f, aF = a + b0 a^2 (tF - tR) re-expanded in a(muR)
DtF(C, s, sec, nf, pto) ==
  LET b0 == B0(nf) P0 == P0Of(s, sec) P1 == DglapP1(s, sec)
      es == FlatMap(LAMBDA key :
              LET k == key[1] i == key[2] j == key[3] v == C[key] w0 == VM(v, P0) w1 == VM(v, P1) IN
              (IF j > 0 THEN << <<k, i, j - 1, VScale(RI(j), v)>> >> ELSE <<>>)
              \o << <<k + 1, i, j, VScale(RI(-1), w0)>>,
                    <<k + 2, i, j + 1, VScale(RNeg(b0), w0)>>,
                    <<k + 2, i + 1, j, VScale(b0, w0)>>,
                    <<k + 2, i, j, VScale(RI(-1), w1)>> >>,
              SetToSeq(DOMAIN C))
  IN Poly(SelectSeq(es, LAMBDA e : e[1] <= pto /\ e[2] <= 3 /\ e[3] <= 3), 3)
IsZeroPoly(C) == \A key \in DOMAIN C : C[key] = VZero

\* ---- theorems for one instance (s, c), sector sec, nf, pto
\* domain assumption made by the code's tables: the LO coefficient has no gluon component
Domain(sec, c) == c[0][2] = Zero /\ (sec = "G" => c[0] = VZero) /\ (sec \notin {"S", "G"} => \A o \in 0..3 : c[o][2] = Zero)
RGE_muR(s, sec, nf, pto, c) ==
  (Domain(sec, c) /\ LabelsConsistent(s)) => IsZeroPoly(DtR(Table(s, sec, nf, pto, c, TRUE, TRUE, FALSE), nf, pto))
RGE_muF(s, sec, nf, pto, c) ==
  (Domain(sec, c) /\ LabelsConsistent(s) /\ pto <= 2) =>
     IsZeroPoly(DtF(Table(s, sec, nf, pto, c, TRUE, TRUE, FALSE), s, sec, nf, pto))
\* switching a variation off zeroes exactly its logarithmic terms and leaves every other term unchanged
SwitchOff(s, sec, nf, pto, c) ==
  LET full == Table(s, sec, nf, pto, c, TRUE, TRUE, FALSE) IN
  \A ren \in BOOLEAN, fact \in BOOLEAN :
     LET t == Table(s, sec, nf, pto, c, ren, fact, FALSE) IN
     \A key \in DOMAIN full :
        IF (~ren /\ key[2] > 0) \/ (~fact /\ key[3] > 0) THEN t[key] = VZero ELSE t[key] = full[key]
\* every non-zero entry carries a key of build_orders (so no term is dropped when results are stored)
KeysCovered(s, sec, nf, pto, c) ==
  LET t == Table(s, sec, nf, pto, c, TRUE, TRUE, FALSE) IN \A key \in DOMAIN t : t[key] # VZero => key \in BuildOrders(pto)
\* intrinsic kernels never get a power of tF, and their tR terms are those of the RGE
IntrinsicDenied(s, sec, nf, pto, c) ==
  LET t == Table(s, sec, nf, pto, c, TRUE, TRUE, TRUE) IN
  /\ \A key \in DOMAIN t : key[3] > 0 => t[key] = VZero
  /\ t = Table(s, sec, nf, pto, c, TRUE, FALSE, FALSE)
=============================================================================
