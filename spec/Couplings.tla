----------------------------- MODULE Couplings -----------------------------
(***************************************************************************)
(* Electroweak and CKM coupling weights of yadism in exact rationals.      *)
(*                                                                         *)
(* Two INDEPENDENT definitions live here:                                  *)
(*   1. Weight / WeightFL11 / WCC : the weight as the implementation       *)
(*      assembles it (coupling_constants.py: leptonic coupling x           *)
(*      propagator factor x partonic coupling in the VV/AA/VA/AV basis;    *)
(*      CKM2Matrix.masked).  One operator per code function.               *)
(*   2. PartonModelNC / PartonModelCC : the textbook parton model, written *)
(*      in the CHIRAL basis (helicity amplitudes                           *)
(*      A(chi_l,chi_q) = e_l e_q + eta c_l(chi_l) c_q(chi_q)) and, for CC, *)
(*      as a sum over allowed (U,D) quark pairs of |V_UD|^2.               *)
(* TLC proves them equal on the whole lattice (MC_Couplings); the replay   *)
(* then compares the real code with the textbook numbers.                  *)
(*                                                                         *)
(* An electroweak point is a record                                        *)
(*   [proc, proj, s2w, r, omd, pol, pos]                                   *)
(*   proc in {"EM","NC","CC"}; proj in {11,-11,12,-12};                    *)
(*   s2w = sin^2 theta_W; r = Q2/(Q2+MZ2); omd = 1 - PropagatorCorrection; *)
(*   pol = beam polarisation; pos = 0 (no restriction) or the quark number *)
(*   selected by NCPositivityCharge.                                       *)
(***************************************************************************)
EXTENDS Rat

Quarks   == 1..6
IsUp(q)  == q % 2 = 0
ECharge(q)  == IF IsUp(q) THEN R(2, 3) ELSE R(-1, 3)        \* quark electric charge
T3q(q)      == IF IsUp(q) THEN R(1, 2) ELSE R(-1, 2)        \* quark weak isospin
IAbs(p)     == IF p < 0 THEN -p ELSE p
LCharge(proj) == IF IAbs(proj) = 11 THEN RI(-1) ELSE Zero   \* 11 = e- (!), also used for e+
LT3(proj)     == IF IAbs(proj) = 11 THEN R(-1, 2) ELSE R(1, 2)

\* ---------------------------------------------------------------------
\* 1. as implemented
\* ---------------------------------------------------------------------
VecQ(ew, q)  == RSub(T3q(q), RMul(RI(2), RMul(ECharge(q), ew.s2w)))       \* vectorial_coupling(quark)
VecL(ew)     == RSub(LT3(ew.proj), RMul(RI(2), RMul(LCharge(ew.proj), ew.s2w)))
AxL(ew)      == LT3(ew.proj)

\* "correct projectile polarization": flipped for e- (11) and anti-nu (-12)
PolEff(ew)   == IF ew.proj \in {11, -12} THEN RNeg(ew.pol) ELSE ew.pol

IsVVAA(t)    == t \in {"VV", "AA"}

Leptonic(ew, mode, t) ==
  CASE mode = "WW"   -> RI(2)
    [] mode = "phph" -> IF IsVVAA(t) THEN RSq(LCharge(ew.proj)) ELSE Zero
    [] mode = "phZ"  -> IF IsVVAA(t)
                          THEN RMul(LCharge(ew.proj), RAdd(VecL(ew), RMul(PolEff(ew), AxL(ew))))
                          ELSE RMul(LCharge(ew.proj), RAdd(AxL(ew), RMul(PolEff(ew), VecL(ew))))
    [] mode = "ZZ"   -> IF IsVVAA(t)
                          THEN RAdd(RAdd(RSq(VecL(ew)), RSq(AxL(ew))),
                                    RMul(RI(2), RMul(PolEff(ew), RMul(VecL(ew), AxL(ew)))))
                          ELSE RAdd(RMul(RI(2), RMul(VecL(ew), AxL(ew))),
                                    RMul(PolEff(ew), RAdd(RSq(VecL(ew)), RSq(AxL(ew)))))

\* eta_phZ = (Q2/(MZ2+Q2)) / (4 s2w (1-s2w)) / (1-delta)
EtaPhZ(ew) == RDiv(RDiv(ew.r, RMul(RI(4), RMul(ew.s2w, RSub(One, ew.s2w)))), ew.omd)
Propagator(ew, mode) ==
  CASE mode = "phph" -> One
    [] mode = "phZ"  -> EtaPhZ(ew)
    [] mode = "ZZ"   -> RSq(EtaPhZ(ew))

Qph(q, c)     == IF c = "V" THEN ECharge(q) ELSE Zero
QZ(ew, q, c)  == IF c = "V" THEN VecQ(ew, q) ELSE T3q(q)
First(t)  == IF t \in {"VV", "VA"} THEN "V" ELSE "A"
Second(t) == IF t \in {"VV", "AV"} THEN "V" ELSE "A"

Partonic(ew, mode, q, t) ==
  CASE mode = "phph" -> RMul(Qph(q, First(t)), Qph(q, Second(t)))
    [] mode = "phZ"  -> RMul(Qph(q, First(t)), QZ(ew, q, Second(t)))
    [] mode = "ZZ"   -> RMul(QZ(ew, q, First(t)), QZ(ew, q, Second(t)))

PosBlocked(ew, q) == ew.pos # 0 /\ ew.pos # q

\* get_weight for EM / NC
Weight(ew, q, t) ==
  IF PosBlocked(ew, q) THEN Zero
  ELSE LET wpp == RMul(RMul(Leptonic(ew, "phph", t), Propagator(ew, "phph")), Partonic(ew, "phph", q, t))
       IN IF ew.proc = "EM" THEN wpp
          ELSE LET wpz == RMul(RI(2), RMul(RMul(Leptonic(ew, "phZ", t), Propagator(ew, "phZ")),
                                           Partonic(ew, "phZ", q, t)))
                   wzz == RMul(RMul(Leptonic(ew, "ZZ", t), Propagator(ew, "ZZ")), Partonic(ew, "ZZ", q, t))
               IN RAdd(wpp, RAdd(wpz, wzz))

\* parity-conserving and parity-violating sums used by the kernels
WPC(ew, q) == RAdd(Weight(ew, q, "VV"), Weight(ew, q, "AA"))
WPV(ew, q) == RAdd(Weight(ew, q, "VA"), Weight(ew, q, "AV"))

\* --- fl11 flavour class (N3LO), AS IMPLEMENTED: mode "phZ" uses the Z coupling for
\* both factors, "Zph" the photon coupling for both (the docstring asks for mixed ones)
SwitchMode(ew, mode, q, c) == IF mode \in {"phph", "Zph"} THEN Qph(q, c) ELSE QZ(ew, q, c)
RECURSIVE SumSwitch(_, _, _, _)
SumSwitch(ew, mode, n, c) == IF n = 0 THEN Zero ELSE RAdd(SwitchMode(ew, mode, n, c), SumSwitch(ew, mode, n - 1, c))
PartonicFL11(ew, mode, q, nf, t) ==
  RMul(RDiv(SumSwitch(ew, mode, nf, First(t)), RI(nf)), SwitchMode(ew, mode, q, Second(t)))
\* documented variant  W = tr(Q_b)/nf * Q_b'
SwitchDoc1(ew, mode, q, c) == IF mode \in {"phph", "phZ"} THEN Qph(q, c) ELSE QZ(ew, q, c)
SwitchDoc2(ew, mode, q, c) == IF mode \in {"phph", "Zph"} THEN Qph(q, c) ELSE QZ(ew, q, c)
RECURSIVE SumDoc1(_, _, _, _)
SumDoc1(ew, mode, n, c) == IF n = 0 THEN Zero ELSE RAdd(SwitchDoc1(ew, mode, n, c), SumDoc1(ew, mode, n - 1, c))
PartonicFL11Doc(ew, mode, q, nf, t) ==
  RMul(RDiv(SumDoc1(ew, mode, nf, First(t)), RI(nf)), SwitchDoc2(ew, mode, q, Second(t)))

WeightFL11Gen(P(_, _, _, _, _), ew, q, nf, t) ==
  IF ew.proc = "CC" \/ PosBlocked(ew, q) THEN Zero
  ELSE LET wpp == RMul(Leptonic(ew, "phph", t), P(ew, "phph", q, nf, t))
       IN IF ew.proc = "EM" THEN wpp
          ELSE LET lz  == RMul(Leptonic(ew, "phZ", t), Propagator(ew, "phZ"))
                   wpz == RMul(lz, P(ew, "phZ", q, nf, t))
                   wzp == RMul(lz, P(ew, "Zph", q, nf, t))
                   wzz == RMul(RMul(Leptonic(ew, "ZZ", t), Propagator(ew, "ZZ")), P(ew, "ZZ", q, nf, t))
               IN RAdd(RAdd(wpp, wpz), RAdd(wzp, wzz))
WeightFL11(ew, q, nf, t)    == WeightFL11Gen(PartonicFL11, ew, q, nf, t)
WeightFL11Doc(ew, q, nf, t) == WeightFL11Gen(PartonicFL11Doc, ew, q, nf, t)
WFL11(ew, q, nf) == RAdd(WeightFL11(ew, q, nf, "VV"), WeightFL11(ew, q, nf, "AA"))

\* --- CKM: ckm is a 3x3 matrix of SQUARED elements, rows u,c,t, columns d,s,b
\* a mask is a subset of {"dus","c","b","t"} (the code matches these substrings in a string)
MaskOp(mask, i, j) ==
  (IF "dus" \in mask /\ i = 1 /\ j \in {1, 2} THEN 1 ELSE 0)
  + (IF "c" \in mask /\ i = 2 /\ j \in {1, 2} THEN 1 ELSE 0)
  + (IF "b" \in mask /\ i \in {1, 2} /\ j = 3 THEN 1 ELSE 0)
  + (IF "t" \in mask /\ i = 3 THEN 1 ELSE 0)
MaskOfNf(nf) == CASE nf = 3 -> {"dus"} [] nf = 4 -> {"dus", "c"}
                  [] nf = 5 -> {"dus", "c", "b"} [] nf = 6 -> {"dus", "c", "b", "t"}
MaskOfHq(hq) == CASE hq = 4 -> {"c"} [] hq = 5 -> {"b"} [] hq = 6 -> {"t"}
MaskLen(mask) == IF "dus" \in mask THEN 2 + Cardinality(mask) ELSE Cardinality(mask)
\* get_weight in CC: leptonic 2 x sum of the masked row (up-type) or column (down-type)
WCC(ckm, q, mask) ==
  LET i == IF IsUp(q) THEN q \div 2 ELSE (q + 1) \div 2
      e(k) == IF IsUp(q) THEN RScale(MaskOp(mask, i, k), ckm[i][k])
                         ELSE RScale(MaskOp(mask, k, i), ckm[k][i])
  IN RMul(RI(2), RAdd(e(1), RAdd(e(2), e(3))))

\* ---------------------------------------------------------------------
\* 2. textbook parton model (independent of 1.)
\* ---------------------------------------------------------------------
\* chirality chi in {-1 (left), +1 (right)}; a fermion of chirality chi couples to the Z
\* through gV - chi gA; a beam PARTICLE of helicity h has chirality h, an ANTIPARTICLE -h.
ChiL(ew, chi) == RSub(VecL(ew), RScale(chi, AxL(ew)))
ChiQ(ew, q, chi) == RSub(VecQ(ew, q), RScale(chi, T3q(q)))
\* degree of chirality polarisation of the beam: P for particles, -P for antiparticles.
\* (The implementation applies the flip to nu-bar instead of nu; neutrino beams are
\*  therefore compared at pol = 0 only, see DESIGN C02.)
PolChi(ew) == IF ew.proj \in {11, 12} THEN ew.pol ELSE RNeg(ew.pol)
ProbChi(ew, chi) == RDiv(RAdd(One, RScale(chi, PolChi(ew))), RI(2))
Amp(ew, q, cl, cq) ==
  LET em == RMul(LCharge(ew.proj), ECharge(q))
  IN IF ew.proc = "EM" THEN em
     ELSE RAdd(em, RMul(EtaPhZ(ew), RMul(ChiL(ew, cl), ChiQ(ew, q, cq))))
\* coefficient of (q + qbar) [pv = FALSE] or of (q - qbar) [pv = TRUE]
PartonModelNC(ew, q, pv) ==
  IF PosBlocked(ew, q) THEN Zero
  ELSE LET term(cl, cq) == RMul(RMul(ProbChi(ew, cl), R(1, 2)),
                                RScale(IF pv THEN cl * cq ELSE 1, RSq(Amp(ew, q, cl, cq))))
       IN RAdd(RAdd(term(-1, -1), term(-1, 1)), RAdd(term(1, -1), term(1, 1)))

\* CC: the W+ (beams e+, nu) turns D -> U and Ubar -> Dbar; the W- (e-, nubar) U -> D, Dbar -> Ubar.
\* A pair (U,D) is available in flavour group G(U,D) in {"dus","c","b","t"} named after its
\* heaviest member.  Weight of parton pid (signed) = 2 sum over allowed partners |V_UD|^2,
\* times -1 for antiquarks in parity-violating observables.
PairGroup(i, j) == IF i = 3 THEN "t" ELSE IF j = 3 THEN "b" ELSE IF i = 2 THEN "c" ELSE "dus"
WPlus(ew) == ew.proj \in {-11, 12}
PartonModelCC(ew, ckm, mask, pid, pv) ==
  LET q  == IAbs(pid)
      up == IsUp(q)
      \* incoming partons struck by the W+: D quarks and Ubar antiquarks; by the W-: U and Dbar
      struck == IF WPlus(ew) THEN (pid > 0 /\ ~up) \/ (pid < 0 /\ up)
                             ELSE (pid > 0 /\ up) \/ (pid < 0 /\ ~up)
      i  == IF up THEN q \div 2 ELSE (q + 1) \div 2
      el(k) == IF up THEN (IF PairGroup(i, k) \in mask THEN ckm[i][k] ELSE Zero)
                     ELSE (IF PairGroup(k, i) \in mask THEN ckm[k][i] ELSE Zero)
      s  == RMul(RI(2), RAdd(el(1), RAdd(el(2), el(3))))
  IN IF ~struck THEN Zero
     ELSE IF pv /\ pid < 0 THEN RNeg(s) ELSE s
=============================================================================
