---------------------------- MODULE Trace_Session ----------------------------
(***************************************************************************)
(* Trace validation of recorded PROCESSES against Session.  One JSON line  *)
(* per event, many sessions per file:                                      *)
(*   Begin {sid}                        a fresh Python process             *)
(*   C     {sid, r, cfg, outcome}       Runner(theory(cfg), observables(cfg)) returned ("ok") or raised *)
(*   G     {sid, r, digests}            runner r: get_result() returned; digest id per slot            *)
(*   D     {sid, r, digests, loaded}    the output r returned last was dumped: digests of that object  *)
(*                                      after the dump, and of the object loaded back                   *)
(*   EOF                                                                    *)
(* Every line is one action of Session (Construct / GetResult), taken with *)
(* the logged arguments.  The property: the digest of slot j of a runner   *)
(* built from cfg is a FUNCTION of the specification's term for it, i.e.    *)
(* of <<cfg, j>> alone - across all sessions of the file, which contain     *)
(* every configuration alone in a process.  Likewise the outcome of the     *)
(* construction is a function of cfg.  Verdicts are total.                  *)
(***************************************************************************)
EXTENDS Session, Json, IOUtils
TraceLog == ndJsonDeserialize(IOEnv.TRACE_FILE)
Hdr       == JsonDeserialize(IOEnv.HEADER_FILE)
HdrAlts   == Hdr.alts
HdrCoords == DOMAIN HdrAlts

VARIABLES l, failed, digestOf, outcomeOf
tvars == <<l, failed, digestOf, outcomeOf>>
L == TraceLog[l]
IsEv(e) == l <= Len(TraceLog) /\ L.ev = e
Fail(why) == PrintT(<<"VERDICT", ToString(L.sid), why>>) /\ failed' = L.sid
Hold == UNCHANGED vars

TInit == Init /\ l = 1 /\ failed = -1 /\ digestOf = <<>> /\ outcomeOf = <<>>
TBegin == /\ IsEv("Begin") /\ runners' = <<>> /\ modstate' = [current |-> 0, memo |-> <<>>] /\ hist' = <<>>
          /\ failed' = -1 /\ l' = l + 1 /\ UNCHANGED <<digestOf, outcomeOf>>
Live == l <= Len(TraceLog) /\ L.ev \notin {"Begin", "EOF"} /\ failed # L.sid

WellFormedCfg(c) == DOMAIN c = Coords /\ \A k \in Coords : c[k] \in 0..Alts[k]
TConstruct ==
  /\ Live /\ L.ev = "C" /\ l' = l + 1
  /\ IF ~WellFormedCfg(L.cfg) \/ L.r # NextId
       THEN Fail("malformed_construct_line") /\ Hold /\ UNCHANGED <<digestOf, outcomeOf>>
     ELSE IF L.cfg \in DOMAIN outcomeOf /\ outcomeOf[L.cfg] # L.outcome
       THEN Fail("construction_outcome_depends_on_process_history") /\ Hold /\ UNCHANGED <<digestOf, outcomeOf>>
     ELSE IF ~ENABLED Construct(L.cfg, L.outcome = "ok")
       THEN Fail("session_not_a_behaviour_of_the_specification") /\ Hold /\ UNCHANGED <<digestOf, outcomeOf>>
     ELSE /\ Construct(L.cfg, L.outcome = "ok")
          /\ outcomeOf' = IF L.cfg \in DOMAIN outcomeOf THEN outcomeOf ELSE outcomeOf @@ (L.cfg :> L.outcome)
          /\ UNCHANGED <<failed, digestOf>>

RECURSIVE Consistent(_, _)
Consistent(d, prs) ==
  IF prs = <<>> THEN TRUE
  ELSE LET t == Head(prs)[1] g == Head(prs)[2] IN
       IF t \in DOMAIN d THEN d[t] = g /\ Consistent(d, Tail(prs)) ELSE Consistent(d @@ (t :> g), Tail(prs))
RECURSIVE Extend(_, _)
Extend(d, prs) ==
  IF prs = <<>> THEN d
  ELSE LET t == Head(prs)[1] g == Head(prs)[2] IN Extend(IF t \in DOMAIN d THEN d ELSE d @@ (t :> g), Tail(prs))

TGet ==
  /\ Live /\ L.ev = "G" /\ l' = l + 1
  /\ IF L.r \notin 1..Len(runners) \/ ~ENABLED GetResult(L.r)
       THEN Fail("session_not_a_behaviour_of_the_specification") /\ Hold /\ UNCHANGED <<digestOf, outcomeOf>>
     ELSE LET want == IF runners[L.r].ok THEN IdealOut(ReadCfg(L.r)) ELSE <<>> IN
          IF Len(L.digests) # Len(want)
            THEN Fail("slot_count_differs") /\ Hold /\ UNCHANGED <<digestOf, outcomeOf>>
          ELSE LET prs == [j \in 1..Len(want) |-> <<want[j], L.digests[j]>>] IN
               IF ~Consistent(digestOf, prs)
                 THEN Fail("result_depends_on_process_history") /\ Hold /\ UNCHANGED <<digestOf, outcomeOf>>
               ELSE GetResult(L.r) /\ digestOf' = Extend(digestOf, prs) /\ UNCHANGED <<failed, outcomeOf>>

TDump ==
  /\ Live /\ L.ev = "D" /\ l' = l + 1
  /\ IF L.r \notin 1..Len(runners) \/ ~ENABLED Dump(L.r)
       THEN Fail("session_not_a_behaviour_of_the_specification") /\ Hold /\ UNCHANGED <<digestOf, outcomeOf>>
     ELSE LET want == runners[L.r].out
              prs(ds) == [j \in 1..Len(want) |-> <<want[j], ds[j]>>] IN
          IF Len(L.digests) # Len(want) \/ Len(L.loaded) # Len(want)
            THEN Fail("slot_count_differs") /\ Hold /\ UNCHANGED <<digestOf, outcomeOf>>
          ELSE IF ~Consistent(digestOf, prs(L.digests))
            THEN Fail("dumping_changed_the_output_object") /\ Hold /\ UNCHANGED <<digestOf, outcomeOf>>
          ELSE IF ~Consistent(digestOf, prs(L.loaded))
            THEN Fail("loaded_output_differs_from_the_dumped_one") /\ Hold /\ UNCHANGED <<digestOf, outcomeOf>>
          ELSE Dump(L.r) /\ UNCHANGED <<failed, digestOf, outcomeOf>>

\* A {sid, r, digests, pred}: a PDF was applied to the output r returned last: digests of that object afterwards, digest of the predictions
TApply ==
  /\ Live /\ L.ev = "A" /\ l' = l + 1
  /\ IF L.r \notin 1..Len(runners) \/ ~ENABLED Apply(L.r)
       THEN Fail("session_not_a_behaviour_of_the_specification") /\ Hold /\ UNCHANGED <<digestOf, outcomeOf>>
     ELSE LET want == runners[L.r].out
              prs == [j \in 1..Len(want) |-> <<want[j], L.digests[j]>>]
              pp  == << <<Prediction(runners[L.r].cfg), L.pred>> >> IN
          IF Len(L.digests) # Len(want)
            THEN Fail("slot_count_differs") /\ Hold /\ UNCHANGED <<digestOf, outcomeOf>>
          ELSE IF ~Consistent(digestOf, prs)
            THEN Fail("applying_a_pdf_changed_the_output_object") /\ Hold /\ UNCHANGED <<digestOf, outcomeOf>>
          ELSE IF ~Consistent(digestOf, pp)
            THEN Fail("prediction_depends_on_process_history") /\ Hold /\ UNCHANGED <<digestOf, outcomeOf>>
          ELSE Apply(L.r) /\ digestOf' = Extend(digestOf, pp) /\ UNCHANGED <<failed, outcomeOf>>

TSkipFailed == /\ l <= Len(TraceLog) /\ L.ev \notin {"Begin", "EOF"} /\ failed = L.sid
               /\ l' = l + 1 /\ UNCHANGED <<vars, failed, digestOf, outcomeOf>>
TEOF == IsEv("EOF") /\ PrintT(<<"CONSUMED", l - 1>>) /\ l' = l + 1 /\ UNCHANGED <<vars, failed, digestOf, outcomeOf>>
TNext == TBegin \/ TConstruct \/ TGet \/ TDump \/ TApply \/ TSkipFailed \/ TEOF
TraceSpec == TInit /\ [][TNext]_<<vars, tvars>>
Accepted == TRUE
=============================================================================
