CONSTANTS
  S2W <- S2W_full
  RR <- RR_full
  OMD <- OMD_full
  POL <- POL_full
  NFZM = {3,4,5,6}
  KINDS = {"F2","FL","F3","g1","gL","g4"}
  PROCS = {"EM","NC","CC"}
  FLAVS = {"light","total","charm","bottom"}
  CKMS = {"generic","unitary"}
