----------------------------- MODULE MC_Lattice -----------------------------
(***************************************************************************)
(* Staged enumeration of the configuration lattice.  Stage 0 (initial      *)
(* states) picks process/projectile/kind, stage 1 the scheme setting,      *)
(* stage 2 the electroweak point, target and orders.  Theorems are         *)
(* invariants evaluated on stage-2 states, so the 16 TLC workers share     *)
(* them (TLC evaluates initial-state invariants in one thread).            *)
(***************************************************************************)
EXTENDS Lattice

CONSTANTS S2W, RR, OMD, POL, NFZM, NFFF, ORDERS, TARGETS, KINDS, PROCS, FLAVS, POSS, CKMS

\* named lattice sets (cfg files cannot write tuples): selected with  S2W <- S2W_full  etc.
S2W_one == {R(1, 4)}           S2W_full == {R(1, 2), R(1, 4), R(1, 8), R(3, 8)}
RR_one  == {R(1, 5)}           RR_full  == {Zero, R(1, 2), R(1, 5), R(2, 3)}
OMD_one == {R(1, 2)}           OMD_full == {One, R(1, 2), R(5, 4)}
POL_one == {R(1, 3)}           POL_zero == {Zero}     POL_full == {RI(-1), R(-1, 2), Zero, R(1, 3), One}
ORD_one == {<<2, 3>>}          ORD_few == {<<1, 1>>, <<2, 3>>, <<3, 2>>}   ORD_all == {<<a, b>> : a \in 0..3, b \in 0..3}
ORD_lo  == {<<0, 0>>}

VARIABLES stage, pick
vars == <<stage, pick>>

Projectiles(proc) == {11, -11, 12, -12}
SchemeSettings ==
  {[fns |-> "ZM-VFNS", nfff |-> 4, nfzm |-> n] : n \in NFZM}
  \cup {[fns |-> f, nfff |-> n, nfzm |-> 0] : f \in {"FFNS", "FFN0", "FONLL-FFNS", "FONLL-FFN0"}, n \in NFFF}
PartsOf(s) == IF s.fns \in {"FONLL-FFNS", "FONLL-FFN0"} THEN {"full", "massless", "massive"} ELSE {"full"}

Init == /\ stage = 0
        /\ pick \in {[proc |-> p, proj |-> j, kind |-> k] : p \in PROCS, j \in {11, -11, 12, -12}, k \in KINDS}

Pick1 == /\ stage = 0 /\ stage' = 1
         /\ \E s \in SchemeSettings, fl \in FLAVS : \E pa \in PartsOf(s) :
              pick' = [base |-> pick, s |-> s, fl |-> fl, parts |-> pa]
Pick2 == /\ stage = 1 /\ stage' = 2
         /\ \E s2w \in S2W, r \in RR, omd \in OMD, pol \in POL, o \in ORDERS, tg \in TARGETS, pos \in POSS, ck \in CKMS :
              LET b == pick.base
                  ew == [proc |-> b.proc, proj |-> b.proj, s2w |-> s2w, r |-> r, omd |-> omd, pol |-> pol,
                         pos |-> IF b.proc = "CC" THEN 0 ELSE pos]
                  za == TargetOf(tg)
              IN pick' = [cell |-> MkCell(ew, CkmOf(ck), b.kind, FamOf(pick.fl), HqOf(pick.fl), pick.s, pick.parts,
                                          o[1], o[2], za[1], za[2])]
Next == Pick1 \/ Pick2
Spec == Init /\ [][Next]_vars

Leaf == stage = 2
Cell == pick.cell

\* --- invariants (one per theorem so that a counterexample names it)
Inv_C02 == Leaf => C02_LOIsPartonModel(Cell)
Inv_C02_NuScaling == Leaf => C02_NeutrinoScaling(Cell)
Inv_C07_FFNS == Leaf => C07_FFNSPartition(Cell)
Inv_C07_ZM == Leaf => C07_ZMTotalIsLight(Cell)
Inv_C07_FONLL == Leaf => C07_FONLLParts(Cell)
Inv_C07_Pos == Leaf => C07_PositivitySum(Cell)
Inv_C07_Tagged == Leaf => C07_TaggedIsRestricted(Cell)
Inv_C12_Rot == Leaf => C12_IsospinIsPdfRotation(Cell)
Inv_C12_Neutron == Leaf => C12_NeutronIsUDSwap(Cell)
Inv_C12_InPlace == Leaf => C12_InPlaceSound(Cell)
Inv_C13_NCEM == Leaf => C13_NCReducesToEM(Cell)
Inv_C13_Flip == Leaf => C13_PositronFlip(Cell)
Inv_C13_Conj == Leaf => C13_ChargeConjugation(Cell)
Inv_C13_Exch == Leaf => C13_EqualChargeExchange(Cell)
Inv_C13_Tagged == Leaf => C13_TaggedSpectators(Cell)
Inv_C09_Blind == Leaf => C09_MissingIsFlavourBlind(Cell)
Inv_C16 == Leaf => C16_OutcomeTotal(Cell)
Inv_Registry == Leaf => RegistryComplete(Cell)
Inv_C08_Mirror == Leaf => C08_AsyMirrorsMassive(Cell)
Inv_C08_Missing == Leaf => C08_MissingMirrors(Cell)
\* not an invariant: reachable witnesses that in-place sharing WOULD be harmful (expected violated)
NoSharingHarm == Leaf => ~SharingHarmful(Cell)
=============================================================================
