---------------------------- MODULE Emit_Registry ----------------------------
(* The registry elements as obligations (C03, C18, C01): one line per (kind, process, class, order). *)
EXTENDS Registry, Json, IOUtils, SequencesExt
ASSUME ndJsonSerialize(IOEnv.OUT, SetToSeq({[kind |-> e[1], pc |-> e[2], cls |-> e[3], order |-> e[4]] : e \in Elements}))
=============================================================================
