------------------------------ MODULE Trace_C10 ------------------------------
(* Trace validation for C10: per (kind, mode, lattice point, process) the residual between the operator of the REAL     *)
(* TMC run and  sum_i coefficient_i * term_i  with term operators built independently from a TMC=0 run and the          *)
(* coefficients this specification computes (echoed and recomputed); plus continuity at vanishing mass and rejection.  *)
EXTENDS TMC, TLC, Json, IOUtils
TraceLog == ndJsonDeserialize(IOEnv.TRACE_FILE)
Judge(L) ==
  IF L.what = "formula" THEN
     IF L.terms # Formula(L.kind, L.mode, L.p) \/ L.xi # Xi(L.p) \/ L.mu # Mu(L.p) THEN "terms_differ_from_spec"
     ELSE IF L.outcome # "OK" THEN "outcome_" \o L.outcome
     ELSE IF L.nkeys < 1 THEN "no_order_keys"
     ELSE IF L.resid_milli > 1000 THEN "not_the_published_formula"
     ELSE "ok"
  ELSE IF L.what = "continuity" THEN
     IF L.outcome # "OK" THEN "outcome_" \o L.outcome
     ELSE IF L.resid_milli > 1000 THEN "correction_does_not_vanish_with_the_target_mass" ELSE "ok"
  ELSE IF L.what = "rejection" THEN
     IF ~Rejected(L.p, L.xmin) THEN "spec_does_not_reject"
     ELSE IF L.outcome = "OK" THEN "shifted_point_outside_grid_accepted"
     ELSE IF L.outcome # "Reject_ValueError" THEN "outcome_" \o L.outcome ELSE "ok"
  ELSE "unknown_line"
VARIABLE l
Init == l = 1
Next == /\ l <= Len(TraceLog)
        /\ LET v == Judge(TraceLog[l]) IN IF v = "ok" THEN TRUE ELSE PrintT(<<"VERDICT", TraceLog[l].oid, v>>)
        /\ l' = l + 1
Spec == Init /\ [][Next]_l
Consumed == TLCGet("stats").diameter - 1
Accepted == PrintT(<<"CONSUMED", Consumed>>) /\ Consumed = Len(TraceLog)
=============================================================================
