------------------------------ MODULE Trace_C08 ------------------------------
(***************************************************************************)
(* Trace validation for C08.  A line is one (observable, order, row class) *)
(* with the sequence  d[i] = |FFNS - FFN0| / S * 1e9  of the difference of  *)
(* the two schemes contracted with a test PDF at Q2/m2 = 1e2 ... 1e6        *)
(* (S: scale of the F2-type rows of the same heavyness and order).          *)
(* Rel_PowerDecay - the shape fixed by a full sweep of the pinned tree      *)
(* (isolated non-monotonic spikes of the O(a_s^2) massive library forbid a  *)
(* step-by-step bound): small at the two largest ratios and an overall fall *)
(* by more than a factor 20 (or already below 1e-4 of the scale: the noise  *)
(* floor of the double-precision massive formulas at Q2/m2 = 1e6, where the *)
(* exact NLO expressions cancel to 2.7e-5 of the scale at x = 0.4 although  *)
(* the difference at 1e5 is 8e-7 - thorough tier, false alarm corrected).   *)
(* AsyMirrorsMassive (on Kernels.tla, checked in MC_Lattice) says which     *)
(* lines must exist: every massive kernel has asymptotic counterparts with  *)
(* the same parton weights.                                                 *)
(***************************************************************************)
EXTENDS Integers, Sequences, TLC, Json, IOUtils
TraceLog == ndJsonDeserialize(IOEnv.TRACE_FILE)
Rel_PowerDecay(d) == /\ d[5] <= 5000000 /\ d[4] <= 5000000
                     /\ (20 * d[5] <= d[1] \/ d[5] <= 100000)
Judge(L) ==
  IF L.outcome # "OK" THEN "outcome_" \o L.outcome
  ELSE IF Len(L.d) # 5 THEN "incomplete_sequence"
  ELSE IF ~L.finite THEN "non_finite"
  ELSE IF ~Rel_PowerDecay(L.d) THEN "difference_does_not_vanish_at_high_virtuality"
  ELSE "ok"
VARIABLE l
Init == l = 1
Next == /\ l <= Len(TraceLog)
        /\ LET v == Judge(TraceLog[l]) IN IF v = "ok" THEN TRUE ELSE PrintT(<<"VERDICT", TraceLog[l].oid, v>>)
        /\ l' = l + 1
Spec == Init /\ [][Next]_l
Consumed == TLCGet("stats").diameter - 1
Accepted == PrintT(<<"CONSUMED", Consumed>>) /\ Consumed = Len(TraceLog)
=============================================================================
