---------------------------- MODULE ResultUniverse ----------------------------
(* All results over two order keys (both dict orders), values in {-1, 2}, errors in {0, 1}: 41 results. *)
EXTENDS Result
Vals == {<<v, e>> : v \in {-1, 2}, e \in {0, 1}}
KeySeqs == {<<>>, <<1>>, <<2>>, <<1, 2>>, <<2, 1>>}
Universe == UNION {{[meta |-> m, keys |-> ks, tab |-> t] : t \in [{ks[i] : i \in 1..Len(ks)} -> Vals]} : ks \in KeySeqs, m \in {"A"}}
Scalars == {<<2, 0>>, <<-1, 0>>, <<0, 0>>, <<3, 1>>}
=============================================================================
