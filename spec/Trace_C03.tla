------------------------------ MODULE Trace_C03 ------------------------------
(***************************************************************************)
(* Trace validation for C03.  RSLContract: a kernel denotes ONE             *)
(* distribution  reg + [sing]_+ + delta * d  iff its local part satisfies   *)
(*     loc(x) - loc(0) = - int_0^x sing(z) dz      for every x,             *)
(* loc is constant when there is no singular part, and every part is a      *)
(* finite real on (0,1).  A line records, for one registry element (or      *)
(* splitting label), nf and mass ratio, the largest residual of the         *)
(* contract on the x lattice in units of the tolerance and the finiteness.  *)
(***************************************************************************)
EXTENDS Registry, TLC, Json, IOUtils
TraceLog == ndJsonDeserialize(IOEnv.TRACE_FILE)
SplittingLabels == {"P_qq_0", "P_qg_0", "P_gq_0", "P_gg_0", "P_qq_1", "P_qg_1", "P_nsp_1", "P_nsm_1", "P_qq_0^2", "P_qg_0P_gq_0",
                    "P_qq_0P_qg_0", "P_qg_0P_gg_0"}
Judge(L) ==
  \* (the empty distribution - what a massive class answers below the pair threshold for every order - satisfies the rule trivially)
  IF L.what = "kernel" /\ L.empty THEN (IF L.cls \in ClassKeys(L.kind, L.pc) THEN "ok" ELSE "not_a_registry_class")
  ELSE IF L.what = "kernel" /\ <<L.kind, L.pc, L.cls, L.order>> \notin Elements THEN "not_a_registry_element"
  ELSE IF L.what = "splitting" /\ L.cls \notin SplittingLabels THEN "not_a_splitting_label"
  ELSE IF ~L.finite THEN "non_finite_part"
  ELSE IF L.has_sing /\ ~L.has_loc THEN "singular_part_without_local_part"
  ELSE IF L.resid_milli > 1000 THEN "local_part_is_not_minus_the_integral_of_the_singular_part"
  ELSE "ok"
VARIABLE l
Init == l = 1
Next == /\ l <= Len(TraceLog)
        /\ LET v == Judge(TraceLog[l]) IN IF v = "ok" THEN TRUE ELSE PrintT(<<"VERDICT", TraceLog[l].oid, v>>)
        /\ l' = l + 1
Spec == Init /\ [][Next]_l
Consumed == TLCGet("stats").diameter - 1
Accepted == PrintT(<<"CONSUMED", Consumed>>) /\ Consumed = Len(TraceLog)
=============================================================================
