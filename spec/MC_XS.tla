-------------------------------- MODULE MC_XS --------------------------------
(* Cross-section coefficient theorems over a rational kinematic lattice (C11). *)
EXTENDS XS, TLC
VARIABLES stage, pick
Init == stage = 0 /\ pick \in {[kind |-> k] : k \in XSKinds}
Next == stage = 0 /\ stage' = 1 /\
        \E x \in {R(1, 10), R(3, 10), R(9, 10)}, y \in {R(1, 5), R(1, 2), R(19, 20), One}, q \in {One, RI(4), RI(20)},
           m \in {R(15, 16), One}, w \in {RI(64), RI(100)} :
           pick' = [kind |-> pick.kind, p |-> [x |-> x, y |-> y, Q2 |-> q, M |-> m, MW2 |-> w]]
Spec == Init /\ [][Next]_<<stage, pick>>
Leaf == stage = 1
Inv_Sign == Leaf => SignRule(pick.kind, pick.p)
Inv_Related == Leaf => Related(pick.p)
Inv_DocForm == Leaf => DocForm(pick.kind, 11, pick.p) /\ DocForm(pick.kind, -12, pick.p)
\* kinds without an F3 term never ask for it; kinds with one always do when y- # 0
Inv_NeedsF3 == Leaf => (NeedsF3(pick.kind, 11, pick.p) <=> (pick.kind \notin {"F1", "g5", "XSHERANCAVG", "FW"} /\ Ym(pick.p.y) # Zero))
\* F2 and FL of 2xF1 and of FW at y -> small: the FL weight is bounded by 1 in magnitude for F1
Inv_F1 == Leaf => Coeffs("F1", 11, pick.p, FALSE) = <<One, RI(-1), Zero>>
=============================================================================
