------------------------------ MODULE FileStore ------------------------------
(***************************************************************************)
(* Outputs and the files they are serialised to, as a caller sees them     *)
(* (output.py: dump_tar / dump_yaml_to_file / load_tar /                   *)
(* load_yaml_from_file).  OutputIO.tla says what ONE dump/load cycle keeps; *)
(* this module is the history around it: several output objects, several   *)
(* PATHS that are written again and again, objects modified in place after *)
(* loading.  Contents are symbolic: <<origin, version>> (origin = which of  *)
(* the caller's outputs, version = how many in-place modifications).       *)
(*   Dump(h, p, f)  overwrites path p with the content of object h         *)
(*   Load(p)        a NEW object holding what path p holds NOW             *)
(*   Modify(h)      the caller changes object h in place                   *)
(* LoadMode = "fresh" is the code as it is.  "memo_by_path" is the named    *)
(* faulty variant (a loader memoised on the path: it returns the object it  *)
(* returned before, whatever was written to the path or done to that object *)
(* since) - the negative control of the model.                             *)
(***************************************************************************)
EXTENDS Integers, Sequences, FiniteSets, TLC
CONSTANTS NOuts, Paths, Fmts, MaxEvents, MaxLoads, LoadMode
VARIABLES objs,     \* handle -> content; handles 1..NOuts are the caller's outputs, later ones were loaded
          files,    \* path -> <<>> | <<fmt, content>>
          memo,     \* path -> handle (used by the faulty variant only)
          last,     \* <<>> | <<handle, path>> right after a Load
          hist
vars == <<objs, files, memo, last, hist>>

Init == /\ objs = [i \in 1..NOuts |-> <<i, 0>>] /\ files = [p \in Paths |-> <<>>]
        /\ memo = <<>> /\ last = <<>> /\ hist = <<>>
Loads == Cardinality({i \in 1..Len(hist) : hist[i][1] = "load"})

Dump(h, p, f) ==
  /\ Len(hist) < MaxEvents /\ h \in 1..Len(objs)
  /\ files' = [files EXCEPT ![p] = <<f, objs[h]>>]
  /\ last' = <<>> /\ hist' = Append(hist, <<"dump", h, p, f>>) /\ UNCHANGED <<objs, memo>>
Load(p) ==
  /\ Len(hist) < MaxEvents /\ files[p] # <<>> /\ Loads < MaxLoads
  /\ LET hit == LoadMode = "memo_by_path" /\ p \in DOMAIN memo
         c   == IF hit THEN objs[memo[p]] ELSE files[p][2]
         h   == Len(objs) + 1
     IN /\ objs' = Append(objs, c)
        /\ memo' = IF hit \/ LoadMode = "fresh" THEN memo ELSE memo @@ (p :> h)
        /\ last' = <<h, p>>
  /\ hist' = Append(hist, <<"load", p>>) /\ UNCHANGED files
Modify(h) ==
  /\ Len(hist) < MaxEvents /\ h \in 1..Len(objs) /\ objs[h][2] < 1
  /\ objs' = [objs EXCEPT ![h] = <<@[1], @[2] + 1>>]
  /\ last' = <<>> /\ hist' = Append(hist, <<"modify", h>>) /\ UNCHANGED <<files, memo>>
Next == \/ \E h \in 1..(NOuts + MaxLoads), p \in Paths, f \in Fmts : Dump(h, p, f)
        \/ \E p \in Paths : Load(p)
        \/ \E h \in 1..(NOuts + MaxLoads) : Modify(h)
Spec == Init /\ [][Next]_vars

\* what a load returns is what the path holds at that moment
LoadIsCurrent == last # <<>> => objs[last[1]] = files[last[2]][2]
\* objects are independent: only Modify(h) changes object h, only Dump changes a file
Independent == [][/\ \A h \in 1..Len(objs) : objs'[h] # objs[h] => hist'[Len(hist')] = <<"modify", h>>
                  /\ \A p \in Paths : files'[p] # files[p] => hist'[Len(hist')][1] = "dump" /\ hist'[Len(hist')][3] = p]_vars
=============================================================================
