------------------------------ MODULE OutputIO ------------------------------
(***************************************************************************)
(* The Output object (output.py, esf/result.py): serialisation round trips *)
(* (C15) and the contraction with a PDF (C17).                             *)
(*                                                                         *)
(* Abstract output:                                                        *)
(*   [meta : [xgrid, degree, log, pids, projectile] with a REPRESENTATION  *)
(*           tag per container ("list" | "ndarray") - loaders change it -, *)
(*    cards : <<theory, observables>> (opaque),                            *)
(*    obs   : sequence of <<name, entry>>, entry = "None" or a sequence of *)
(*            results [kin, orders], orders a SEQUENCE of <<key, vals,     *)
(*            errs>> (the order of the keys is part of the content)]       *)
(***************************************************************************)
EXTENDS Rat, TLC

Formats == {"tar", "yaml"}

\* ------------------------------------------------------------------ C15
\* the content a user can observe (representation tags excluded)
Content(o) == [xgrid |-> o.meta.xgrid, degree |-> o.meta.degree, log |-> o.meta.log, pids |-> o.meta.pids,
               projectile |-> o.meta.projectile, cards |-> o.cards, obs |-> o.obs]
Equiv(a, b) == Content(a) = Content(b)
\* a file holds plain content only
Dump(o, fmt) == [fmt |-> fmt, content |-> Content(o)]
\* loaders rebuild the object; they differ in the container types they produce:
\* load_yaml turns xgrid.grid into an ndarray, load_tar turns every list-valued metadata field (pids) into one
Load(f) ==
  [meta |-> [xgrid |-> f.content.xgrid, degree |-> f.content.degree, log |-> f.content.log, pids |-> f.content.pids,
             projectile |-> f.content.projectile,
             gridrep |-> IF f.fmt = "yaml" THEN "ndarray" ELSE "list",
             pidsrep |-> IF f.fmt = "tar" THEN "ndarray" ELSE "list"],
   cards |-> f.content.cards, obs |-> f.content.obs]
Cycle(o, fmt) == Load(Dump(o, fmt))
RECURSIVE Cycles(_, _)
Cycles(o, fmts) == IF fmts = <<>> THEN o ELSE Cycles(Cycle(o, Head(fmts)), Tail(fmts))
\* dump and load are TOTAL on runner outputs (any representation tags, None and empty observables), and
RoundTripIdentity(o, fmts) == Equiv(Cycles(o, fmts), o)
\* predictions depend on the content only
SamePredictions(a, b) == Equiv(a, b)

\* shapes of runner outputs (enumerated by the configs)
EntryKinds == {"SF", "XS", "None", "Empty"}
KeyLists == { << <<0, 0, 0, 0>> >>,
              << <<0, 0, 0, 0>>, <<1, 0, 0, 0>>, <<1, 0, 0, 1>> >>,
              << <<2, 0, 0, 0>>, <<2, 0, 1, 0>>, <<2, 0, 0, 1>>, <<0, 0, 0, 0>> >> }   \* not in sorted order
MkResult(kind, i, keys, vcls) ==
  [kin |-> IF kind = "XS" THEN <<"x", i, "Q2", i + 1, "y", 1>> ELSE <<"x", i, "Q2", i + 1>>,
   orders |-> [n \in 1..Len(keys) |-> <<keys[n], <<vcls, n, i>>, <<"err", vcls, n, i>> >>]]
MkEntry(kind, npts, keys, vcls) ==
  CASE kind = "None" -> "None" [] kind = "Empty" -> <<>>
    [] OTHER -> [i \in 1..npts |-> MkResult(kind, i, keys, vcls)]
MkOutput(kinds, npts, keys, vcls, rep) ==
  [meta |-> [xgrid |-> "grid", degree |-> 3, log |-> TRUE, pids |-> "pids", projectile |-> 11, gridrep |-> rep, pidsrep |-> rep],
   cards |-> <<"theory", "observables">>,
   obs |-> [n \in 1..Len(kinds) |-> <<n, MkEntry(kinds[n], npts, keys, vcls)>>]]

\* ------------------------------------------------------------------ C17
\* ESFResult.apply_pdf / Output.apply_pdf_alphas_alphaqed_xir_xif.
\* The prediction is a polynomial in the two logarithms LR = ln(1/xiR^2), LF = ln(1/xiF^2) (transcendental: kept as
\* atoms) with exact rational coefficients:  pred = sum_{i,j} A[i][j] LR^i LF^j ,
\*   A[i][j] = sum over stored keys (k,l,i,j) of  as^k * aem^l * sum_{p in pids, PDF has p} sum_n Op[key][p][n] * f[p][n]
\* where f[p][n] = xf(p, x_n, xiF^2 Q2) / x_n.   Operators and PDF tables are small integers.
\* res = [keys : Seq(<<k,l,i,j>>), op : key index -> parton index -> node -> Int]
RECURSIVE SumN(_, _, _)
SumN(f(_), lo, hi) == IF lo > hi THEN Zero ELSE RAdd(f(lo), SumN(f, lo + 1, hi))
Contract(opk, pdf, has, np, nn) ==
  SumN(LAMBDA p : IF has[p] THEN SumN(LAMBDA n : RI(opk[p][n] * pdf[p][n]), 1, nn) ELSE Zero, 1, np)
LogCoeff(res, pdf, has, as, aem, i, j, np, nn) ==
  SumN(LAMBDA m : LET key == res.keys[m] IN
                  IF key[3] = i /\ key[4] = j
                    THEN RMul(RMul(RPow(as, key[1]), RPow(aem, key[2])), Contract(res.op[m], pdf, has, np, nn))
                    ELSE Zero,
       1, Len(res.keys))
\* linearity in the PDF and independence of partons the PDF does not provide
PdfAdd(f, g, np, nn) == [p \in 1..np |-> [n \in 1..nn |-> f[p][n] + g[p][n]]]
Linear(res, f, g, has, as, aem, np, nn) ==
  \A i \in 0..3, j \in 0..3 :
     LogCoeff(res, PdfAdd(f, g, np, nn), has, as, aem, i, j, np, nn)
       = RAdd(LogCoeff(res, f, has, as, aem, i, j, np, nn), LogCoeff(res, g, has, as, aem, i, j, np, nn))
IgnoresMissing(res, f, g, has, as, aem, np, nn) ==
  (\A p \in 1..np : has[p] => f[p] = g[p]) =>
     \A i \in 0..3, j \in 0..3 : LogCoeff(res, f, has, as, aem, i, j, np, nn) = LogCoeff(res, g, has, as, aem, i, j, np, nn)

\* which number of flavours the strong coupling of apply_pdf_theory runs with at scale mu2 (theory card t as in Cards)
\*   fixed-flavour and FONLL cards: NfFF everywhere; ZM-VFNS: the matching scales (m k)^2 of the CARD
=============================================================================
