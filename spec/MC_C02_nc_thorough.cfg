SPECIFICATION Spec
CONSTANTS
  S2W <- S2W_full
  RR <- RR_full
  OMD <- OMD_full
  POL <- POL_full
  ORDERS <- ORD_lo
  NFZM = {3,4,5,6}
  NFFF = {}
  TARGETS = {"proton"}
  KINDS = {"F2","FL","F3","g1","gL","g4"}
  PROCS = {"EM","NC"}
  FLAVS = {"light","total","charm","bottom"}
  POSS = {0,2}
  CKMS = {"generic"}
INVARIANT Inv_C02
INVARIANT Inv_C02_NuScaling
CHECK_DEADLOCK FALSE
