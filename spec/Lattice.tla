------------------------------- MODULE Lattice -------------------------------
(***************************************************************************)
(* JSON-able lattice points, their cells, and the RELATIONS between runs   *)
(* that the additivity / isospin / symmetry properties assert, as data:    *)
(* a relation instance is  sum_i coef_i * RowMap_i * Op(point_i) = 0  on   *)
(* operator tensors.  Used by MC_Lattice (theorems on the spec), Emit_*    *)
(* (obligations) and Trace_* (validation of recorded runs).                *)
(***************************************************************************)
EXTENDS Theorems

CkmOf(name) ==
  CASE name = "generic" -> << <<R(4, 5), R(1, 6), R(1, 100)>>, <<R(1, 7), R(3, 4), R(1, 20)>>, <<R(1, 50), R(1, 25), R(9, 10)>> >>
    [] name = "unitary" -> << <<R(1, 2), R(1, 3), R(1, 6)>>, <<R(1, 3), R(1, 2), R(1, 6)>>, <<R(1, 6), R(1, 6), R(2, 3)>> >>
\* "third" and "z25" are generic targets with Z/A not in {0, 1/2, 1} and small denominators (iron's 23403/49618
\* overflows 32-bit exact arithmetic under rotation, so it appears only in the named-target relations)
TargetOf(name) == CASE name = "third" -> <<One, RI(3)>> [] name = "z25" -> <<RI(2), RI(5)>> [] OTHER -> TargetZA(name)      \* named targets: Cards.TargetZA
PidSeq == <<-6, -5, -4, -3, -2, -1, 21, 1, 2, 3, 4, 5, 6>>

\* a point: [proc, proj, kind, flav, fns, nfff, nfzm, parts, pto, ptoEvol, target, pos, s2w, r, omd, pol, ckm]
EwOfPt(pt) == [proc |-> pt.proc, proj |-> pt.proj, s2w |-> pt.s2w, r |-> pt.r, omd |-> pt.omd, pol |-> pt.pol,
               pos |-> IF pt.proc = "CC" THEN 0 ELSE pt.pos]
CellOfPt(pt) ==
  MkCell(EwOfPt(pt), CkmOf(pt.ckm), pt.kind, FamOf(pt.flav), HqOf(pt.flav),
         [fns |-> pt.fns, nfff |-> pt.nfff, nfzm |-> pt.nfzm], pt.parts, pt.pto, pt.ptoEvol,
         pt.target[1], pt.target[2])
SetPt(pt, f, v) == [pt EXCEPT ![f] = v]

\* named lattice coordinates (cfg files can only write strings and non-negative numbers)
SchemeOf(n) ==
  CASE n = "ZM3" -> [fns |-> "ZM-VFNS", nfff |-> 4, nfzm |-> 3] [] n = "ZM4" -> [fns |-> "ZM-VFNS", nfff |-> 4, nfzm |-> 4]
    [] n = "ZM5" -> [fns |-> "ZM-VFNS", nfff |-> 4, nfzm |-> 5] [] n = "ZM6" -> [fns |-> "ZM-VFNS", nfff |-> 4, nfzm |-> 6]
    [] n = "FFNS3" -> [fns |-> "FFNS", nfff |-> 3, nfzm |-> 0] [] n = "FFNS4" -> [fns |-> "FFNS", nfff |-> 4, nfzm |-> 0]
    [] n = "FFNS5" -> [fns |-> "FFNS", nfff |-> 5, nfzm |-> 0]
    [] n = "FFN03" -> [fns |-> "FFN0", nfff |-> 3, nfzm |-> 0] [] n = "FFN04" -> [fns |-> "FFN0", nfff |-> 4, nfzm |-> 0]
    [] n = "FONLLS3" -> [fns |-> "FONLL-FFNS", nfff |-> 3, nfzm |-> 0] [] n = "FONLLS4" -> [fns |-> "FONLL-FFNS", nfff |-> 4, nfzm |-> 0]
    [] n = "FONLL03" -> [fns |-> "FONLL-FFN0", nfff |-> 3, nfzm |-> 0] [] n = "FONLL04" -> [fns |-> "FONLL-FFN0", nfff |-> 4, nfzm |-> 0]
EwOf(n) ==
  CASE n = "g1" -> [s2w |-> R(1, 4), r |-> R(1, 5), omd |-> R(1, 2), pol |-> R(1, 3)]
    [] n = "g2" -> [s2w |-> R(3, 8), r |-> R(2, 3), omd |-> R(5, 4), pol |-> R(-1, 2)]
    [] n = "u"  -> [s2w |-> R(1, 4), r |-> R(1, 5), omd |-> One, pol |-> Zero]
ProjOf(n) == CASE n = "e-" -> 11 [] n = "e+" -> -11 [] n = "nu" -> 12 [] n = "nubar" -> -12
OrderOf(n) == CASE n = "00" -> <<0, 0>> [] n = "11" -> <<1, 1>> [] n = "22" -> <<2, 2>> [] n = "23" -> <<2, 3>>
                [] n = "12" -> <<1, 2>> [] n = "32" -> <<3, 2>> [] n = "33" -> <<3, 3>> [] n = "21" -> <<2, 1>>


\* ------------------------------------------------------------------ relations
NamedRel(name) == "Named_" \o name
NamedRels == {NamedRel(n) : n \in NamedTargets}
NameOfRel(rel) == CHOOSE n \in NamedTargets : NamedRel(n) = rel
RelNames == {"FFNSPartition", "ZMTotalIsLight", "FONLLParts", "PositivitySum", "IsospinRotation",
             "NCReducesToEM", "PositronFlip", "ChargeConjugation", "LeptonAsNeutrino", "EqualCharge", "TaggedSpectators", "TaggedIsRestricted"} \cup NamedRels

Term(coef, sets, rowmap) == [coef |-> coef, sets |-> sets, rowmap |-> rowmap]
Id == "id"
MixMap(Z, AA) ==
  LET zf == RDiv(Z, AA) nz == RDiv(RSub(AA, Z), AA) IN
  << <<2, 2, zf>>, <<2, 1, nz>>, <<1, 1, zf>>, <<1, 2, nz>>,
     <<-2, -2, zf>>, <<-2, -1, nz>>, <<-1, -1, zf>>, <<-1, -2, nz>> >>
  \o [i \in 1..9 |-> LET p == <<-6, -5, -4, -3, 21, 3, 4, 5, 6>>[i] IN <<p, p, One>>]
ConjMap(s) == [i \in 1..13 |-> LET p == PidSeq[i] IN <<p, IF p = 21 THEN 21 ELSE -p, RI(s)>>]
PickRow(out, in) == << <<out, in, One>>, <<-out, -in, One>> >>
MassiveFlavSeq(c) ==
  SelectSeq(<<"charm", "bottom", "top">>, LAMBDA fl : c.massive[HqOf(fl)])
SetToSeqQ(lo, hi) == [i \in 1..(hi - lo + 1) |-> lo + i - 1]

\* does the specification assert relation `rel` at point pt ?  (antecedents of the theorems)
RelApplies(rel, pt) ==
  LET c == CellOfPt(pt) IN
  CASE rel \in NamedRels        -> Supported(c) /\ pt.target = TargetZA(NameOfRel(rel))
    [] rel = "FFNSPartition"   -> c.fns # "ZM-VFNS" /\ AllSupported(c, Flavors)
    [] rel = "ZMTotalIsLight"  -> c.fns = "ZM-VFNS" /\ AllSupported(c, {"light", "total"})
    [] rel = "FONLLParts"      -> c.fns \in {"FONLL-FFNS", "FONLL-FFN0"} /\ Supported(c)
    [] rel = "PositivitySum"   -> c.ew.proc # "CC" /\ Supported(c)
    [] rel = "IsospinRotation" -> Supported(c)
    [] rel = "NCReducesToEM"   -> c.ew.proc = "NC" /\ Supported(c)
    [] rel = "PositronFlip"    -> c.ew.proc # "CC" /\ Supported(c)
    [] rel = "ChargeConjugation" -> c.ew.proc = "CC" /\ Supported(c)
    [] rel = "LeptonAsNeutrino"  -> c.ew.proc = "CC" /\ Supported(c)
    [] rel = "EqualCharge"     -> c.ew.proc # "CC" /\ c.ew.pos = 0 /\ MasslessCell(c) /\ Supported(c)
                                  /\ (c.nf >= 5 \/ (c.nf >= 4 /\ c.Z = c.A))
    [] rel = "TaggedSpectators" -> c.ew.proc # "CC" /\ c.ew.pos = 0 /\ TaggedMassless(c) /\ Supported(c)
    [] rel = "TaggedIsRestricted" -> c.ew.proc # "CC" /\ c.ew.pos = 0 /\ TaggedMassless(c) /\ Supported(c)
\* the theorem itself, on the specification
RelHolds(rel, pt) ==
  LET c == CellOfPt(pt) IN
  CASE rel \in NamedRels        -> <<c.Z, c.A>> = TargetZA(NameOfRel(rel))
    [] rel = "FFNSPartition"   -> C07_FFNSPartition(c)
    [] rel = "ZMTotalIsLight"  -> C07_ZMTotalIsLight(c)
    [] rel = "FONLLParts"      -> C07_FONLLParts(c)
    [] rel = "PositivitySum"   -> C07_PositivitySum(c)
    [] rel = "IsospinRotation" -> C12_IsospinIsPdfRotation(c) /\ C12_NeutronIsUDSwap(c)
    [] rel = "NCReducesToEM"   -> C13_NCReducesToEM(c)
    [] rel = "PositronFlip"    -> C13_PositronFlip(c)
    [] rel = "ChargeConjugation" -> C13_ChargeConjugation(c)
    [] rel = "LeptonAsNeutrino"  -> C13_ChargeConjugation(c)
    [] rel = "EqualCharge"     -> C13_EqualChargeExchange(c)
    [] rel = "TaggedSpectators" -> C13_TaggedSpectators(c)
    [] rel = "TaggedIsRestricted" -> C07_TaggedIsRestricted(c)
\* the relation as data on operator tensors:  sum_i coef_i RowMap_i Op(pt with sets_i) = 0
RelTerms(rel, pt) ==
  LET c == CellOfPt(pt) IN
  CASE rel \in NamedRels ->       \* the run with the NAME equals the run with the documented (Z,A)
         << Term(One, << <<"target_name", NameOfRel(rel)>> >>, Id), Term(RI(-1), <<>>, Id) >>
    [] rel = "FFNSPartition" ->
         << Term(One, << <<"flav", "total">> >>, Id), Term(RI(-1), << <<"flav", "light">> >>, Id) >>
         \o [i \in 1..Len(MassiveFlavSeq(c)) |-> Term(RI(-1), << <<"flav", MassiveFlavSeq(c)[i]>> >>, Id)]
    [] rel = "ZMTotalIsLight" ->
         << Term(One, << <<"flav", "total">> >>, Id), Term(RI(-1), << <<"flav", "light">> >>, Id) >>
    [] rel = "FONLLParts" ->
         << Term(One, << <<"parts", "full">> >>, Id), Term(RI(-1), << <<"parts", "massless">> >>, Id),
            Term(RI(-1), << <<"parts", "massive">> >>, Id) >>
    [] rel = "PositivitySum" ->
         << Term(One, << <<"pos", 0>> >>, Id) >> \o [q \in 1..6 |-> Term(RI(-1), << <<"pos", q>> >>, Id)]
    [] rel = "IsospinRotation" ->
         << Term(One, <<>>, Id), Term(RI(-1), << <<"target", <<One, One>> >> >>, MixMap(pt.target[1], pt.target[2])) >>
    [] rel = "NCReducesToEM" ->
         << Term(One, << <<"proc", "NC">>, <<"r", Zero>> >>, Id), Term(RI(-1), << <<"proc", "EM">>, <<"r", Zero>> >>, Id) >>
    [] rel = "PositronFlip" ->
         << Term(One, << <<"proj", -11>> >>, Id), Term(RI(-1), << <<"proj", 11>>, <<"pol", RNeg(pt.pol)>> >>, Id) >>
    [] rel = "ChargeConjugation" ->
         << Term(One, << <<"proj", -12>> >>, Id),
            Term(RI(-1), << <<"proj", 12>> >>, ConjMap(IF pt.kind = "F3" THEN -1 ELSE 1)) >>
    [] rel = "LeptonAsNeutrino" ->
         << Term(One, << <<"proj", -11>> >>, Id), Term(RI(-1), << <<"proj", 12>> >>, Id) >>
    [] rel = "EqualCharge" ->
         \* s <-> b when both are active; on a proton also d <-> s and u <-> c
         LET sb == c.nf >= 5  pr == c.nf >= 4 /\ c.Z = c.A IN
         << Term(One, <<>>, (IF sb THEN PickRow(3, 3) ELSE <<>>) \o (IF pr THEN PickRow(1, 1) \o PickRow(2, 2) ELSE <<>>)),
            Term(RI(-1), <<>>, (IF sb THEN PickRow(3, 5) ELSE <<>>) \o (IF pr THEN PickRow(1, 3) \o PickRow(2, 4) ELSE <<>>)) >>
    [] rel = "TaggedIsRestricted" ->
         << Term(One, <<>>, Id), Term(RI(-1), << <<"flav", "total">>, <<"pos", c.hq>> >>, Id) >>
    [] rel = "TaggedSpectators" ->
         \* every spectator row equals the row of the NEXT spectator (cyclically): rows of 1..nf without the tagged quark
         LET sp == SelectSeq(SetToSeqQ(1, c.nf), LAMBDA q : q # c.hq)
             nx(i) == sp[(i % Len(sp)) + 1]
             cat(f(_)) == LET RECURSIVE go(_) go(i) == IF i > Len(sp) THEN <<>> ELSE f(i) \o go(i + 1) IN go(1)
         IN << Term(One, <<>>, cat(LAMBDA i : PickRow(sp[i], sp[i]))), Term(RI(-1), <<>>, cat(LAMBDA i : PickRow(sp[i], nx(i)))) >>
=============================================================================
