------------------------------ MODULE Refinement ------------------------------
(***************************************************************************)
(* C19: the family of interpolation grids and the relations between the    *)
(* predictions they give.  A member: [name, low, mid, deg] = eko           *)
(* make_grid(low, mid, x_min = 1e-4) with polynomial degree deg (log       *)
(* interpolation).  The LAST member is the reference.  Deviations are      *)
(* relative to the reference prediction, in units of 1e-9.                 *)
(***************************************************************************)
EXTENDS Integers, Sequences
Family == << [name |-> "c35",  low |-> 20, mid |-> 15, deg |-> 4],      \* coarse
             [name |-> "c35b", low |-> 12, mid |-> 23, deg |-> 4],      \* same size, different spacing
             [name |-> "d3",   low |-> 20, mid |-> 15, deg |-> 3],
             [name |-> "d5",   low |-> 20, mid |-> 15, deg |-> 5],
             [name |-> "m60",  low |-> 32, mid |-> 28, deg |-> 4],      \* medium
             [name |-> "ref",  low |-> 48, mid |-> 46, deg |-> 4] >>
\* region of the requested x (xq = x in units of 1e-6): the relative accuracy of an interpolation grid degrades towards the
\* ends of the x range (few nodes below 5e-3 on the coarse members; steeply falling PDFs above 0.9)
RegionOf(xq) == IF xq > 900000 THEN "edge" ELSE IF xq < 5000 THEN "low" ELSE "bulk"
\* absolute caps (relative deviation from the reference, 1e-9 units) per member and region, >= 5 x the largest deviation
\* measured on the pinned tree (bulk: c35 4.3e-5, c35b 2.6e-4, d3 2.5e-4, d5 6e-6, m60 4e-6; low: 1.9e-4, 3.4e-3, 1.4e-3,
\* 3.4e-5, 1.9e-5; edge: 1.8e-2, 7.5e-4, 1.1e-1, 2.7e-3, 2.6e-4; node 2.9e-7); a mishandled node or block shows up at 1e-2 .. 1
\* "listing": the SAME node set written in another order in the card (descending; a refinement made by appending the new
\* nodes to the old list) is the same grid: the prediction does not move (1e-8)
Cap(name, region) ==
  IF name = "below" THEN 1 ELSE      \* (a request below the lowest node has no prediction on that grid: it is refused, recorded as 0)
  IF name = "listing" THEN 10 ELSE
  \* "tiny": two grids reaching 1e-7 compared at x between 1e-7 and 5e-5, the x chosen a few 1e-9 away from nodes of ONE of them
  \* (measured on the pinned tree: 2.6e-6 .. 5.4e-6; an absolute tolerance of 1e-8 in x is 10 % of x there)
  IF name = "tiny" THEN 100000 ELSE
  CASE region = "bulk" -> (CASE name = "c35" -> 500000 [] name = "c35b" -> 2000000 [] name = "d3" -> 2000000 [] name = "d5" -> 100000
                             [] name = "m60" -> 50000 [] name = "node" -> 5000)
    [] region = "low"  -> (CASE name = "c35" -> 2000000 [] name = "c35b" -> 20000000 [] name = "d3" -> 10000000 [] name = "d5" -> 500000
                             [] name = "m60" -> 200000 [] name = "node" -> 5000)
    [] region = "edge" -> (CASE name = "c35" -> 100000000 [] name = "c35b" -> 5000000 [] name = "d3" -> 500000000 [] name = "d5" -> 20000000
                             [] name = "m60" -> 2000000 [] name = "node" -> 5000)
Get(errs, name) == LET i == CHOOSE j \in 1..Len(errs) : errs[j][1] = name IN errs[i][2]
\* finer is not worse than coarser (up to a floor of 2e-5)
Rel_Refine(errs) == Get(errs, "m60") <= Get(errs, "c35") + 20000
WithinCaps(errs, region) == \A j \in 1..Len(errs) : errs[j][2] <= Cap(errs[j][1], region)
=============================================================================
