------------------------------ MODULE Session ------------------------------
(***************************************************************************)
(* One Python PROCESS using yadism: several Runner objects, constructed    *)
(* from different configurations, alive at the same time, evaluated in any *)
(* interleaving (runner.py Runner.__init__ / get_result; everything at     *)
(* module level that outlives a runner: compiled dispatchers, memoised     *)
(* helpers, interpolation tables of the massive libraries, class           *)
(* attributes).  RunLoop.tla is the state machine INSIDE one runner; this   *)
(* module is the level above it.                                           *)
(*                                                                         *)
(* A configuration is a point of a product of named coordinates (grid,     *)
(* masses, scheme, order, process, projectile, target, TMC, ...); value 0   *)
(* is the base value of a coordinate.  Values are SYMBOLIC: the output of a *)
(* runner is the term <<"out", cfg, j>> per slot j, computed from what the  *)
(* code READS.  The code as it is reads the runner's own configuration      *)
(* only (LeakMode = "none").  The two named faulty variants read a          *)
(* coordinate from module-level state instead:                             *)
(*   "ctor_global"  Runner.__init__ stores the coordinate at module level   *)
(*                  (a class attribute, a global), get_result reads it;     *)
(*   "memo_partial" get_result memoises a helper at module level under a    *)
(*                  key that omits the coordinate.                          *)
(* They are the negative controls of the model and the two mechanisms the   *)
(* recorded sessions are designed to expose.                                *)
(***************************************************************************)
EXTENDS Integers, Sequences, FiniteSets, TLC

CONSTANTS Coords,      \* set of coordinate names
          Alts,        \* coordinate -> number of alternative values (ids 1..Alts[c]; 0 = base)
          MaxRunners,  \* runners alive in one process
          MaxEvents,   \* length of a session
          MaxDist,     \* two runners of one session differ in at most MaxDist coordinates ...
          MaxFromBase, \* ... and each configuration in at most MaxFromBase coordinates from the base
          NSlots,      \* slots of an output
          MaxCalls,    \* get_result calls per runner
          WithDump,    \* sessions may serialise an output between evaluations
          LeakMode, LeakCoord

VARIABLES runners,     \* id -> [cfg, ok, out, calls]   (out = <<>> before the first get_result)
          modstate,    \* what survives at module level: [current, memo]
          hist         \* the session so far (history variable: it IS the behaviour, used for emission and validation)
vars == <<runners, modstate, hist>>

Base      == [c \in Coords |-> 0]
Dist(a, b) == Cardinality({c \in Coords : a[c] # b[c]})
\* configurations within MaxFromBase of the base, built without enumerating the whole product
Near(n) == IF n = 0 THEN {Base}
           ELSE LET One == {Base} \cup {[Base EXCEPT ![c] = v] : c \in Coords, v \in 1..3}
                IN  IF n = 1 THEN {f \in One : \A c \in Coords : f[c] <= Alts[c]}
                    ELSE {f \in {[g EXCEPT ![c] = v] : g \in One, c \in Coords, v \in 0..3} : \A c \in Coords : f[c] <= Alts[c]}
Universe  == Near(MaxFromBase)

\* history-free meaning of slot j of a runner built from cfg
Ideal(cfg, j) == <<"out", cfg, j>>
IdealOut(cfg) == [j \in 1..NSlots |-> Ideal(cfg, j)]

\* what get_result of runner r actually reads
ReadCfg(r) ==
  LET own == runners[r].cfg IN
  CASE LeakMode = "none"         -> own
    [] LeakMode = "ctor_global"  -> [own EXCEPT ![LeakCoord] = modstate.current]
    [] LeakMode = "memo_partial" ->
         LET key == [c \in Coords \ {LeakCoord} |-> own[c]]
         IN IF key \in DOMAIN modstate.memo THEN [own EXCEPT ![LeakCoord] = modstate.memo[key]] ELSE own

Init == runners = <<>> /\ modstate = [current |-> 0, memo |-> <<>>] /\ hist = <<>>

NextId == Len(runners) + 1
\* a new runner; `ok` FALSE = the configuration is rejected at construction (the object does not exist afterwards)
Construct(cfg, ok) ==
  /\ NextId <= MaxRunners /\ Len(hist) < MaxEvents
  /\ \A r \in 1..Len(runners) : Dist(runners[r].cfg, cfg) \in 1..MaxDist
  /\ runners' = Append(runners, [cfg |-> cfg, ok |-> ok, out |-> <<>>, calls |-> 0])
  /\ modstate' = [modstate EXCEPT !.current = cfg[LeakCoord]]
  /\ hist' = Append(hist, <<"C", NextId, cfg>>)

GetResult(r) ==
  /\ r \in 1..Len(runners) /\ Len(hist) < MaxEvents
  /\ runners[r].calls < MaxCalls
  /\ LET rc == ReadCfg(r)
         key == [c \in Coords \ {LeakCoord} |-> rc[c]]
     IN /\ runners' = [runners EXCEPT ![r].out = IF runners[r].ok THEN IdealOut(rc) ELSE <<>>, ![r].calls = @ + 1]
        /\ modstate' = IF LeakMode = "memo_partial" /\ key \notin DOMAIN modstate.memo
                         THEN [modstate EXCEPT !.memo = @ @@ (key :> rc[LeakCoord])] ELSE modstate
  /\ hist' = Append(hist, <<"G", r>>)

\* the caller serialises the output runner r returned last (Output.dump_yaml / dump_tar): the output object the caller
\* holds, and whatever the runner returns afterwards, are what they were
Dump(r) ==
  /\ WithDump /\ r \in 1..Len(runners) /\ Len(hist) < MaxEvents
  /\ runners[r].out # <<>> /\ hist[Len(hist)][1] # "D"
  /\ hist' = Append(hist, <<"D", r>>)
  /\ UNCHANGED <<runners, modstate>>

\* the caller applies a PDF to the output runner r returned last (Output.apply_pdf_alphas_alphaqed_xir_xif): a pure
\* observation - the prediction is a function of the output, the output object and the runner are what they were
Apply(r) ==
  /\ WithDump /\ r \in 1..Len(runners) /\ Len(hist) < MaxEvents
  /\ runners[r].out # <<>> /\ hist[Len(hist)][1] # "A"
  /\ hist' = Append(hist, <<"A", r>>)
  /\ UNCHANGED <<runners, modstate>>
Prediction(cfg) == <<"pred", IdealOut(cfg)>>

Next == \/ \E cfg \in Universe : Construct(cfg, TRUE)
        \/ \E r \in 1..MaxRunners : GetResult(r) \/ Dump(r) \/ Apply(r)
Spec == Init /\ [][Next]_vars

\* ------------------------------------------------------------------ properties
\* whatever else happened in the process, an output is the history-free function of its runner's own configuration
SessionIdeal == \A r \in 1..Len(runners) : runners[r].out # <<>> => runners[r].out = IdealOut(runners[r].cfg)
\* a second get_result on the same runner returns the same output
OutputsStable == [][\A r \in 1..Len(runners) : runners[r].out # <<>> => runners'[r].out = runners[r].out]_vars
\* a runner never changes its configuration
CfgFrozen == [][\A r \in 1..Len(runners) : runners'[r].cfg = runners[r].cfg]_vars
=============================================================================
