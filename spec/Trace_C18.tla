------------------------------ MODULE Trace_C18 ------------------------------
(***************************************************************************)
(* Trace validation for C18.                                               *)
(*  "site" lines: a compiled kernel as it is called from a production call *)
(*   site of a registry element (kind, process, class, order, part): the   *)
(*   largest argument index its source reads, the length of the argument   *)
(*   vector the class passes, whether the interpreted function raised, and *)
(*   the largest compiled-vs-interpreted deviation on the z lattice.       *)
(*   ArityCovered:  max index read < length of the vector passed.          *)
(*  "kernel" lines: every discovered dispatcher compared with its          *)
(*   interpreted function on arguments of its own signature.               *)
(*  "closure" lines: a part of a registry element that is a Python         *)
(*   function calling compiled kernels, with compilation on and off.       *)
(*  "run" lines: a full run with compilation on against one with           *)
(*   compilation off.                                                      *)
(***************************************************************************)
EXTENDS Registry, TLC, Json, IOUtils
TraceLog == ndJsonDeserialize(IOEnv.TRACE_FILE)
ArityCovered(L) == L.maxidx < L.nargs
Judge(L) ==
  IF L.what = "site" THEN
     IF <<L.kind, L.pc, L.cls, L.order>> \notin Elements THEN "not_a_registry_element"
     ELSE IF ~ArityCovered(L) THEN "kernel_reads_beyond_the_argument_vector_it_is_given"
     ELSE IF L.interp_raised THEN "interpreted_kernel_raises_on_the_production_arguments"
     ELSE IF L.dev_milli > 1000 THEN "compiled_value_differs_from_interpreted"
     ELSE "ok"
  ELSE IF L.what = "kernel" THEN
     IF L.interp_raised THEN "interpreted_kernel_raises"
     ELSE IF L.dev_milli > 1000 THEN "compiled_value_differs_from_interpreted" ELSE "ok"
  ELSE IF L.what = "closure" THEN
     \* a part of a registry element that is a Python function CALLING compiled kernels (the asymptotic towers, the massive
     \* wrappers): evaluated with compilation on and with compilation off on the z lattice
     IF <<L.kind, L.pc, L.cls, L.order>> \notin Elements THEN "not_a_registry_element"
     ELSE IF L.outcome # "OK" THEN "part_behaves_differently_with_compilation_" \o L.outcome
     ELSE IF L.dev_milli > 1000 THEN "compiled_value_differs_from_interpreted"
     ELSE "ok"
  ELSE IF L.what = "run" THEN
     IF L.outcome # "OK" THEN "outcome_" \o L.outcome
     ELSE IF L.dev_milli > 1000 THEN "run_with_compilation_differs_from_run_without" ELSE "ok"
  ELSE "unknown_line"
VARIABLE l
Init == l = 1
Next == /\ l <= Len(TraceLog)
        /\ LET v == Judge(TraceLog[l]) IN IF v = "ok" THEN TRUE ELSE PrintT(<<"VERDICT", TraceLog[l].oid, v>>)
        /\ l' = l + 1
Spec == Init /\ [][Next]_l
Consumed == TLCGet("stats").diameter - 1
Accepted == PrintT(<<"CONSUMED", Consumed>>) /\ Consumed = Len(TraceLog)
=============================================================================
