------------------------------ MODULE Trace_C11 ------------------------------
(* Trace validation for C11: one line per (kind, projectile, point, heavyness, TMC, scheme): the residual of           *)
(*   XS - (a F2 + b FL + c xF3)   over all order keys and entries of the SAME real run, in units of the tolerance,      *)
(* with (a, b, c) the exact coefficients this specification computes (echoed in the line and recomputed here).        *)
EXTENDS XS, TLC, Json, IOUtils
TraceLog == ndJsonDeserialize(IOEnv.TRACE_FILE)
Judge(L) ==
  IF L.kind \notin XSKinds THEN "unknown_kind"
  ELSE IF L.coeffs # Coeffs(L.kind, L.proj, L.pt, FALSE) \/ L.atom # Atom(L.kind) THEN "coefficients_differ_from_spec"
  ELSE IF L.coeffs2 # Coeffs(L.kind, L.proj, [L.pt EXCEPT !.y = RDiv(L.pt.y, RI(2))], FALSE) THEN "coefficients_differ_from_spec"
  ELSE IF L.outcome # "OK" THEN "outcome_" \o L.outcome
  ELSE IF ~L.keyset_ok THEN "order_keys_differ_from_structure_functions"
  ELSE IF L.nkeys < 1 THEN "no_order_keys"
  ELSE IF L.resid_milli > 1000 THEN "not_the_documented_combination"
  ELSE IF L.resid2_milli > 1000 THEN "not_the_documented_combination_at_the_second_inelasticity"
  ELSE IF L.pred_milli > 1000 THEN "prediction_is_not_the_documented_combination_of_predictions"
  ELSE IF ~L.kinematics_ok THEN "result_kinematics_differ_from_request"
  ELSE "ok"
VARIABLE l
Init == l = 1
Next == /\ l <= Len(TraceLog)
        /\ LET v == Judge(TraceLog[l]) IN IF v = "ok" THEN TRUE ELSE PrintT(<<"VERDICT", TraceLog[l].oid, v>>)
        /\ l' = l + 1
Spec == Init /\ [][Next]_l
Consumed == TLCGet("stats").diameter - 1
Accepted == PrintT(<<"CONSUMED", Consumed>>) /\ Consumed = Len(TraceLog)
=============================================================================
