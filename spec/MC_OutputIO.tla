---------------------------- MODULE MC_OutputIO ----------------------------
(* C15: every sequence of dump/load cycles (depth <= MaxDepth) on every output shape keeps the content. *)
EXTENDS OutputIO
CONSTANTS MaxDepth, MaxObs
VARIABLES orig, cur, hist
KindSeqs == UNION {[1..n -> EntryKinds] : n \in 1..MaxObs}
Init == /\ \E ks \in KindSeqs, np \in 1..2, keys \in KeyLists, vc \in {"normal", "special"}, rep \in {"list", "ndarray"} :
             orig = MkOutput(ks, np, keys, vc, rep)
        /\ cur = orig /\ hist = <<>>
Next == /\ Len(hist) < MaxDepth
        /\ \E fmt \in Formats : cur' = Cycle(cur, fmt) /\ hist' = Append(hist, fmt)
        /\ UNCHANGED orig
Spec == Init /\ [][Next]_<<orig, cur, hist>>
Inv_RoundTrip == Equiv(cur, orig)
Inv_Cycles == Cycles(orig, hist) = cur

=============================================================================
