---------------------------- MODULE MC_ApplyPdf ----------------------------
(* C17: linearity in the PDF and independence of partons the PDF does not provide, on small integer instances *)
(* (2 partons x 2 nodes, keys with both logarithms), staged so that the workers share the instances.          *)
EXTENDS OutputIO
VARIABLES stage, pick
Res == [keys |-> << <<0, 0, 0, 0>>, <<1, 0, 0, 1>>, <<2, 0, 1, 1>>, <<2, 1, 2, 0>>, <<3, 0, 2, 1>> >>,
        op |-> << << <<1, 2>>, <<3, -1>> >>, << <<0, 1>>, <<2, 2>> >>, << <<-1, 1>>, <<1, 0>> >>, << <<2, 0>>, <<0, 3>> >>,
                  << <<1, 1>>, <<-2, 1>> >> >>]
Pdfs == {<< <<a, b>>, <<c, d>> >> : a \in {0, 1}, b \in {-1, 2}, c \in {0, 3}, d \in {1, -2}}
Init == stage = 0 /\ pick \in {[f |-> f] : f \in Pdfs}
Next == stage = 0 /\ stage' = 1 /\ \E g \in Pdfs, h1 \in BOOLEAN, h2 \in BOOLEAN : pick' = [f |-> pick.f, g |-> g, has |-> <<h1, h2>>]
Spec == Init /\ [][Next]_<<stage, pick>>
Inv_Linear == stage = 1 => Linear(Res, pick.f, pick.g, pick.has, R(1, 10), R(1, 100), 2, 2)
Inv_Missing == stage = 1 => IgnoresMissing(Res, pick.f, pick.g, pick.has, R(1, 10), R(1, 100), 2, 2)
=============================================================================
