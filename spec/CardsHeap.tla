------------------------------ MODULE CardsHeap ------------------------------
(***************************************************************************)
(* C20: card shapes as heaps of caller objects; compatibility.update and   *)
(* Runner as actions on the heap.  The heap operators are in Cards.tla.    *)
(*                                                                         *)
(* A shape: [fns, nfff, ptodis, parts, sv, qed, aqed, target]              *)
(*   ptodis in {"absent","None","set"}, parts in {"absent","None","set"},  *)
(*   sv in {"absent","present"} (RenScaleVar/FactScaleVar given as FALSE), *)
(*   qed in {"absent","zero","one"}, aqed in {"absent","present"},         *)
(*   target in NamedTargets \cup {"dict"}                                  *)
(* Caller objects: 1 theory, 2 observables card, 3 the observables dict,   *)
(* 4 a kinematics list, 5 a kinematics dict, 6 the x grid list, 7 the      *)
(* target dict (shape.target = "dict").                                    *)
(***************************************************************************)
EXTENDS Cards

PtodisVals == {"absent", "None", "set"}
CallerIds(sh) == IF sh.target = "dict" THEN 1..7 ELSE 1..6
MkHeap(sh) ==
  LET t0 == ("FNS" :> Atom(sh.fns) @@ "NfFF" :> Atom(sh.nfff) @@ "PTO" :> Atom("1")
             @@ "kcThr" :> Atom(Fin(One)) @@ "kbThr" :> Atom(Fin(One)) @@ "ktThr" :> Atom(Fin(One)))   \* the card's own ratios
      t1 == IF sh.ptodis = "absent" THEN t0 ELSE Put(t0, "PTODIS", IF sh.ptodis = "None" THEN Atom("None") ELSE Atom("2"))
      t2 == IF sh.parts = "absent" THEN t1 ELSE Put(t1, "FONLLParts", IF sh.parts = "None" THEN Atom("None") ELSE Atom("massless"))
      t3 == IF sh.sv = "absent" THEN t2 ELSE Put(Put(t2, "RenScaleVar", Atom(FALSE)), "FactScaleVar", Atom(FALSE))
      t4 == IF sh.qed = "absent" THEN t3 ELSE Put(t3, "QED", Atom(IF sh.qed = "zero" THEN 0 ELSE 1))
      t5 == IF sh.aqed = "absent" THEN t4 ELSE Put(t4, "alphaqed", Atom("a"))
      o0 == ("observables" :> Ref(3) @@ "interpolation_xgrid" :> Ref(6)
             @@ "TargetDIS" :> (IF sh.target = "dict" THEN Ref(7) ELSE Atom(sh.target)))
      h0 == (1 :> t5 @@ 2 :> o0 @@ 3 :> ("F2_total" :> Ref(4)) @@ 4 :> ("0" :> Ref(5))
             @@ 5 :> ("x" :> Atom("x0") @@ "Q2" :> Atom("q0")) @@ 6 :> ("0" :> Atom("g0")))
  IN IF sh.target = "dict" THEN h0 @@ (7 :> ("Z" :> Atom(R(2, 1)) @@ "A" :> Atom(R(5, 1)))) ELSE h0

\* the projection the conformance check observes on the UPDATED cards
ExtName(e) == IF e.inf THEN "inf" ELSE IF RIsZero(e.v) THEN "zero" ELSE "other"
Proj(h, nt, no) ==
  LET t == h[nt] o == h[no]
      kk(f) == ExtName(t[f][2])
      tg == h[o["TargetDIS"][2]]
  IN [kc |-> kk("kcThr"), kb |-> kk("kbThr"), kt |-> kk("ktThr"),
      zm |-> <<t["ZMc"][2], t["ZMb"][2], t["ZMt"][2]>>,
      ptodis |-> t["PTODIS"][2], parts |-> t["FONLLParts"][2],
      ren |-> t["RenScaleVar"][2], fact |-> t["FactScaleVar"][2],
      has_alphaqed |-> Has(t, "alphaqed"), has_alphaem |-> Has(t, "alphaem"), has_qed |-> Has(t, "QED"),
      order |-> IF Has(t, "order") THEN t["order"][2] ELSE <<"none", -1>>,
      target |-> <<tg["Z"][2], tg["A"][2]>>,
      target_id |-> IF Has(o, "TargetDISid") THEN o["TargetDISid"][2] ELSE "none",
      \* nested caller objects are shared, not copied
      same_observables |-> o["observables"] = Ref(3), same_xgrid |-> o["interpolation_xgrid"] = Ref(6),
      target_is_callers |-> o["TargetDIS"] = Ref(7)]
Updated(sh) == HeapUpdate(MkHeap(sh), 1, 2)
ProjOf(sh)  == LET u == Updated(sh) IN Proj(u[1], u[2], u[3])

\* ---- theorems per shape
CallerHeapUnchanged(sh) == LET u == Updated(sh) IN \A id \in CallerIds(sh) : u[1][id] = MkHeap(sh)[id]
UpdateIdempotent(sh) ==
  LET u == Updated(sh) v == HeapUpdate(u[1], u[2], u[3]) IN
  /\ DeepView(v[1], v[2]) = DeepView(u[1], u[2]) /\ DeepView(v[1], v[3]) = DeepView(u[1], u[3])
  /\ \A id \in DOMAIN u[1] : v[1][id] = u[1][id]                       \* the second pass writes to fresh copies only
\* Runner: the output holds the CALLER's card objects (deep-copied on get_result), never the rewritten ones
EchoExact(sh) == LET u == Updated(sh) IN DeepView(u[1], 1) = DeepView(MkHeap(sh), 1) /\ DeepView(u[1], 2) = DeepView(MkHeap(sh), 2)
=============================================================================
