SPECIFICATION Spec
CONSTANTS
  S2W <- S2W_one
  RR <- RR_one
  OMD <- OMD_one
  POL <- POL_one
  ORDERS <- ORD_lo
  NFZM = {3,4,5,6}
  NFFF = {}
  TARGETS = {"proton"}
  KINDS = {"F2","FL","F3"}
  PROCS = {"CC"}
  FLAVS = {"light","total","charm","bottom","top"}
  POSS = {0}
  CKMS = {"generic","unitary"}
INVARIANT Inv_C02
CHECK_DEADLOCK FALSE
