------------------------------ MODULE Emit_Asm ------------------------------
(***************************************************************************)
(* Conformance of the CENTRAL model: for every supported cell of the       *)
(* lattice, the assembly Kernels.Assemble(c) as the aggregated projection  *)
(* class key -> parton -> exact weight, and the number of flavours, to be  *)
(* compared with what the real Combiner.collect_elems() returns.           *)
(***************************************************************************)
EXTENDS Lattice, Json, IOUtils, SequencesExt
CONSTANTS PROCS, PROJS, KINDS, FLAVS, SCHEMES, ORDERS, TARGETS, EWS, POSS, CKMS, PARTS
Points ==
  {[proc |-> p, proj |-> ProjOf(j), kind |-> k, flav |-> fl, fns |-> SchemeOf(s).fns, nfff |-> SchemeOf(s).nfff,
    nfzm |-> SchemeOf(s).nfzm, parts |-> pa, pto |-> OrderOf(o)[1], ptoEvol |-> OrderOf(o)[2], target |-> TargetOf(tg),
    pos |-> ps, s2w |-> EwOf(e).s2w, r |-> EwOf(e).r, omd |-> EwOf(e).omd, pol |-> EwOf(e).pol, ckm |-> ck] :
     p \in PROCS, j \in PROJS, k \in KINDS, fl \in FLAVS, s \in SCHEMES, pa \in PARTS, o \in ORDERS, tg \in TARGETS,
     ps \in POSS, e \in EWS, ck \in CKMS}
WellFormed(pt) ==
  /\ (pt.parts # "full" => pt.fns \in {"FONLL-FFNS", "FONLL-FFN0"})
  /\ (pt.proc = "CC" => pt.pos = 0)
  /\ (pt.proc # "CC" => pt.ckm = "generic")
  /\ ((pt.proc = "CC") = (pt.proj \in {12, -12}))          \* one projectile family per process is enough here
AsmOf(pt) ==
  LET c == CellOfPt(pt) a == AG(c) IN
  [pt |-> pt, nf |-> c.nf, keys |-> SetToSeq(DOMAIN a)]
ASSUME ndJsonSerialize(IOEnv.OUT, SetToSeq({AsmOf(pt) : pt \in {q \in Points : WellFormed(q) /\ Supported(CellOfPt(q))}}))
=============================================================================
