------------------------------ MODULE Trace_C20 ------------------------------
(* Trace validation for C20: the observed projection of the cards after compatibility.update must be the one the  *)
(* heap model computes for that card shape, and the recorded heap observations (caller objects unchanged in        *)
(* content and identity through update, Runner construction and two get_result calls; idempotence; echo) must hold. *)
EXTENDS CardsHeap, Json, IOUtils
TraceLog == ndJsonDeserialize(IOEnv.TRACE_FILE)
Judge(L) ==
  IF L.outcome # "OK" THEN "outcome_" \o L.outcome
  ELSE IF L.proj # ProjOf(L.shape) THEN "updated_cards_differ_from_spec"
  ELSE IF ~(CallerHeapUnchanged(L.shape) /\ UpdateIdempotent(L.shape) /\ EchoExact(L.shape)) THEN "spec_theorem_false"
  ELSE IF ~L.caller_unchanged_by_update THEN "update_modified_caller_cards"
  ELSE IF ~L.idempotent THEN "update_not_idempotent"
  ELSE IF ~L.runner_checked THEN "ok"
  ELSE IF ~L.caller_unchanged_by_runner THEN "runner_modified_caller_cards"
  ELSE IF ~L.nested_identity_kept THEN "runner_replaced_nested_caller_objects"
  ELSE IF ~L.echo_cards THEN "output_does_not_echo_the_given_cards"
  ELSE IF ~L.echo_meta THEN "output_grid_pids_projectile_differ"
  ELSE IF ~L.second_construction_same THEN "second_construction_from_same_objects_differs"
  ELSE "ok"
VARIABLE l
Init == l = 1
Next == /\ l <= Len(TraceLog)
        /\ LET v == Judge(TraceLog[l]) IN IF v = "ok" THEN TRUE ELSE PrintT(<<"VERDICT", TraceLog[l].oid, v>>)
        /\ l' = l + 1
Spec == Init /\ [][Next]_l
Consumed == TLCGet("stats").diameter - 1
Accepted == PrintT(<<"CONSUMED", Consumed>>) /\ Consumed = Len(TraceLog)
=============================================================================
