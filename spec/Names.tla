------------------------------- MODULE Names -------------------------------
(***************************************************************************)
(* observable_name.py: the grammar of observable names and the maps the    *)
(* runner, the Combiner (family, hqnumber) and the target-mass corrections *)
(* (apply_kind) read from them.  A name is modelled as the sequence of its *)
(* parts (the text between underscores).  Modelled as the code behaves,    *)
(* with the surprising corners named:                                      *)
(*   TotalIsHeavy      is_heavy is "flavour # light": total counts as heavy *)
(*   TotalHasNoRaw     raw_flavor of *_total raises IndexError             *)
(*                     (heavys[0 - 4]); of *_heavy ValueError (hqnumber)   *)
(*   MassLabelByLetter mass_label is "m" + first letter: "mt" for total,   *)
(*                     "mh" for the internal family name heavy             *)
(*   FakeKindIsValid   "??" is an accepted kind (used internally)          *)
(***************************************************************************)
EXTENDS Integers, Sequences, TLC

SeqToSet(s) == {s[i] : i \in 1..Len(s)}
IndexOf(s, e) == CHOOSE i \in 1..Len(s) : s[i] = e
SFs    == <<"F2", "FL", "F3", "g1", "gL", "g4">>
XSs    == <<"XSHERANC", "XSHERANCAVG", "XSHERACC", "XSCHORUSCC", "XSNUTEVCC", "XSNUTEVNU", "FW", "F1", "g5", "XSFPFCC">>
FakeKind == "??"
Kinds  == SeqToSet(SFs) \cup SeqToSet(XSs) \cup {FakeKind}
Heavys == <<"charm", "bottom", "top">>
HeavyLights == [i \in 1..3 |-> Heavys[i] \o "light"]
ExternalFlavors == SeqToSet(Heavys) \cup {"light", "total"} \cup SeqToSet(HeavyLights)
Flavors == ExternalFlavors \cup {"heavy"}

\* ObservableName.__init__: [ok, kind, flavor] or [ok = FALSE, why]
Parse(parts) ==
  LET n == Len(parts) IN
  IF n \notin {1, 2} THEN [ok |-> FALSE, why |-> "Unknown obsname"]
  ELSE LET k == parts[1] f == IF n = 1 THEN "total" ELSE parts[2] IN
       IF k \notin Kinds THEN [ok |-> FALSE, why |-> "Unknown kind"]
       ELSE IF f \notin Flavors THEN [ok |-> FALSE, why |-> "Unknown flavor"]
       ELSE [ok |-> TRUE, kind |-> k, flavor |-> f]
IsValid(parts) == Parse(parts).ok

FullName(o)      == o.kind \o "_" \o o.flavor
IsPV(o)          == o.kind \in {"F3", "gL", "g4"}
IsXS(o)          == o.kind \in SeqToSet(XSs)
IsHeavy(o)       == o.flavor # "light"                       \* TotalIsHeavy
IsRawHeavy(o)    == o.flavor \in SeqToSet(Heavys)
IsHeavyLight(o)  == o.flavor \in SeqToSet(HeavyLights)
IsComposed(o)    == o.flavor = "total"
Family(o)        == IF IsRawHeavy(o) THEN "heavy" ELSE IF IsHeavyLight(o) THEN "light" ELSE o.flavor
\* results that may raise are records [ok, v] / [ok = FALSE, why]
Val(v) == [ok |-> TRUE, v |-> v]
Err(w) == [ok |-> FALSE, why |-> w]
HqNumber(o) ==
  IF IsHeavyLight(o) THEN Val(3 + IndexOf(HeavyLights, o.flavor))
  ELSE IF Family(o) \in {"light", "total"} THEN Val(0)
  ELSE IF o.flavor \in SeqToSet(Heavys) THEN Val(3 + IndexOf(Heavys, o.flavor))
  ELSE Err("ValueError")                                    \* the family name "heavy" itself: heavys.index("heavy")
RawFlavor(o) ==
  IF o.flavor = "light" THEN Val("light")
  ELSE LET h == HqNumber(o) IN
       IF ~h.ok THEN Err(h.why)
       ELSE IF h.v = 0 THEN Err("IndexError")               \* TotalHasNoRaw: heavys[-4] on a list of three
       ELSE Val(Heavys[h.v - 3])
FirstLetter(f) == CASE f \in {"charm", "charmlight"} -> "c" [] f \in {"bottom", "bottomlight"} -> "b"
                    [] f \in {"top", "toplight", "total"} -> "t" [] f = "heavy" -> "h" [] f = "light" -> "l"
MassLabel(o) == IF o.flavor = "light" THEN "None" ELSE "m" \o FirstLetter(o.flavor)   \* MassLabelByLetter
ApplyKind(o, k)   == Parse(<<k, o.flavor>>)
ApplyFlavor(o, f) == Parse(<<o.kind, f>>)
ApplyFamily(o)    == ApplyFlavor(o, Family(o))
HasHeavies(names) == \E i \in 1..Len(names) : IsValid(names[i]) /\ IsHeavy(Parse(names[i]))
HasLights(names)  == \E i \in 1..Len(names) : IsValid(names[i]) /\ Parse(names[i]).flavor = "light"

\* ------------------------------------------------------------ theorems
AllNames == {o \in [kind : Kinds, flavor : Flavors] : TRUE}
External(o) == o.flavor \in ExternalFlavors
\* the Combiner reads family and hqnumber: total on every name a user can write
FamilyTotal(o)   == External(o) => Family(o) \in {"light", "heavy", "total"} /\ HqNumber(o).ok /\ HqNumber(o).v \in {0, 4, 5, 6}
HqIffMassive(o)  == External(o) => (HqNumber(o).v # 0 <=> (IsRawHeavy(o) \/ IsHeavyLight(o)))
\* the family name is itself a valid (internal) name, and taking the family twice changes nothing
FamilyClosed(o)  == ApplyFamily(o).ok /\ Family([kind |-> o.kind, flavor |-> Family(o)]) = Family(o)
\* apply_kind keeps the heavyness (target-mass corrections ask for F2 of the same heavyness)
ApplyKindKeeps(o, k) == k \in Kinds => ApplyKind(o, k).ok /\ ApplyKind(o, k).flavor = o.flavor
RawDefinedIff(o) == RawFlavor(o).ok <=> (o.flavor \notin {"total", "heavy"})
\* agreement with the family / heavy-quark maps the lattice specification uses (Theorems.FamOf / HqOf)
LatticeFam(fl) == IF fl \in {"light", "total"} THEN fl ELSE "heavy"
LatticeHq(fl)  == CASE fl = "charm" -> 4 [] fl = "bottom" -> 5 [] fl = "top" -> 6 [] OTHER -> 0
AgreesWithLattice(o) == o.flavor \in {"light", "total", "charm", "bottom", "top"} =>
                           Family(o) = LatticeFam(o.flavor) /\ HqNumber(o).v = LatticeHq(o.flavor)
=============================================================================
