------------------------------- MODULE Cards -------------------------------
(***************************************************************************)
(* Theory / observable cards and input/compatibility.update.               *)
(*                                                                         *)
(* Part 1 (pure): scheme rewriting of thresholds, number of active         *)
(* flavours, named targets.                                                *)
(* Part 2 (heap): caller dictionaries and their nested objects as a heap   *)
(* of objects with identity; `update` and `Runner` as actions that may     *)
(* only write to fresh top-level copies (used by C20).                     *)
(***************************************************************************)
EXTENDS Rat, TLC

Schemes == {"ZM-VFNS", "FFNS", "FFN0", "FONLL-FFNS", "FONLL-FFN0"}

\* ---------------------------------------------------------------- extended non-negative rationals
Fin(r)   == [inf |-> FALSE, v |-> r]
Inf      == [inf |-> TRUE,  v |-> Zero]
ELeq(a, b) == IF a.inf THEN b.inf ELSE (b.inf \/ RLeq(a.v, b.v))      \* a <= b
\* m^2 * k^2 as the runner forms it (np.power(m,2) * np.power(k,2)); m > 0
EMulSq(m, k) == IF k.inf THEN Inf ELSE Fin(RMul(RSq(m), RSq(k.v)))

\* ---------------------------------------------------------------- update_fns
\* theory abstract: [FNS, NfFF, m : 1..3 -> Rat, k : 1..3 -> ext-rat]  (index i <-> quark 3+i)
\* result: [ok, k, ZM]   (ZM[i] = TRUE: quark 3+i is treated as massless / never massive)
RewriteFNS(t) ==
  CASE t.FNS = "ZM-VFNS" ->
         [ok |-> TRUE, k |-> t.k, ZM |-> [i \in 1..3 |-> TRUE]]
    [] t.FNS \in {"FFNS", "FFN0"} ->
         [ok |-> TRUE,
          k  |-> [i \in 1..3 |-> IF i + 3 <= t.NfFF THEN Fin(Zero) ELSE Inf],
          ZM |-> [i \in 1..3 |-> i + 3 <= t.NfFF]]
    [] t.FNS \in {"FONLL-FFNS", "FONLL-FFN0"} ->
         [ok |-> TRUE,
          k  |-> [i \in 1..3 |-> IF i + 3 <= t.NfFF THEN Fin(Zero) ELSE Inf],
          ZM |-> [i \in 1..3 |-> i + 3 # t.NfFF + 1]]        \* exactly one massive quark
    [] OTHER -> [ok |-> FALSE, k |-> t.k, ZM |-> [i \in 1..3 |-> TRUE]]

Thresholds(t) == LET u == RewriteFNS(t) IN [i \in 1..3 |-> EMulSq(t.m[i], u.k[i])]
Monotone(thr) == ELeq(thr[1], thr[2]) /\ ELeq(thr[2], thr[3])
\* nf_default: walls [0, c, b, t, inf), intervals closed on the left
NfActive(t, Q2) == 3 + Cardinality({i \in 1..3 : ELeq(Thresholds(t)[i], Fin(Q2))})
MassiveOf(t)    == LET u == RewriteFNS(t) IN [q \in 4..6 |-> ~u.ZM[q - 3]]

\* beta0(nf) = 11 - 2/3 nf ; beta1(nf) = 102 - 38/3 nf   (a_s = alpha_s/4pi normalisation)
Beta0(nf) == RSub(RI(11), RMul(R(2, 3), RI(nf)))
Beta1(nf) == RSub(RI(102), RMul(R(38, 3), RI(nf)))

\* ---------------------------------------------------------------- update_target
NamedTargets == {"proton", "neutron", "isoscalar", "iron", "lead", "neon", "marble"}
TargetZA(name) ==
  CASE name = "proton"    -> <<RI(1), RI(1)>>
    [] name = "neutron"   -> <<RI(0), RI(1)>>
    [] name = "isoscalar" -> <<RI(1), RI(2)>>
    [] name = "iron"      -> <<R(23403, 1000), R(49618, 1000)>>
    [] name = "lead"      -> <<RI(82), RI(208)>>
    [] name = "neon"      -> <<RI(10), RI(20)>>
    [] name = "marble"    -> <<RI(10), RI(20)>>          \* CaCO3 average: Z = 50/5, A = 100/5
TargetId(name) ==
  CASE name = "proton" -> "2212" [] name = "neutron" -> "2112" [] name = "isoscalar" -> "1000010020"
    [] name = "iron" -> "1000260560" [] name = "lead" -> "1000822080" [] name = "neon" -> "1000100200"
    [] name = "marble" -> "100010.020.00"

\* ---------------------------------------------------------------- heap model of update / Runner
(* An object is a function from field names to values; a value is either an *)
(* atom <<"a", x>> or a reference <<"ref", id>>.  Ids 1..NCaller belong to   *)
(* the caller.                                                              *)
Atom(x) == <<"a", x>>
Ref(i)  == <<"ref", i>>
IsRef(v) == v[1] = "ref"
Has(o, f) == f \in DOMAIN o
Put(o, f, v) == [g \in (DOMAIN o) \cup {f} |-> IF g = f THEN v ELSE o[g]]
Del(o, f) == [g \in (DOMAIN o) \ {f} |-> o[g]]
Fresh(h) == Cardinality(DOMAIN h) + 1

\* theory.copy() / observables.copy(): a NEW object with the same field values (shallow)
ShallowCopy(h, id) == h @@ (Fresh(h) :> h[id])

\* update_fns on object tid (writes kXThr, ZMX, PTODIS, FONLLParts into THAT object)
HeapUpdateFns(h, tid) ==
  LET o == h[tid]
      tt == [FNS |-> o["FNS"][2], NfFF |-> o["NfFF"][2], m |-> [i \in 1..3 |-> One],
             k |-> [i \in 1..3 |-> Fin(One)]]
      u == RewriteFNS(tt)
      names == <<"c", "b", "t">>
      w1 == IF o["FNS"][2] = "ZM-VFNS" THEN o
            ELSE Put(Put(Put(o, "kcThr", Atom(u.k[1])), "kbThr", Atom(u.k[2])), "ktThr", Atom(u.k[3]))
      w2 == Put(Put(Put(w1, "ZMc", Atom(u.ZM[1])), "ZMb", Atom(u.ZM[2])), "ZMt", Atom(u.ZM[3]))
      w3 == IF ~Has(w2, "PTODIS") \/ w2["PTODIS"] = Atom("None") THEN Put(w2, "PTODIS", w2["PTO"]) ELSE w2
      w4 == IF ~Has(w3, "FONLLParts") \/ w3["FONLLParts"] = Atom("None") THEN Put(w3, "FONLLParts", Atom("full")) ELSE w3
  IN [h EXCEPT ![tid] = w4]
HeapUpdateSV(h, tid) ==
  LET o == h[tid]
      w1 == IF Has(o, "RenScaleVar") THEN o ELSE Put(o, "RenScaleVar", Atom(TRUE))
      w2 == IF Has(w1, "FactScaleVar") THEN w1 ELSE Put(w1, "FactScaleVar", Atom(TRUE))
  IN [h EXCEPT ![tid] = w2]
\* update_target on object oid: a string target is REPLACED by a reference to a fresh {Z,A} object
HeapUpdateTarget(h, oid) ==
  LET o == h[oid] tg == o["TargetDIS"] IN
  IF IsRef(tg) THEN h
  ELSE LET za == TargetZA(tg[2]) nid == Fresh(h)
           nobj == ("Z" :> Atom(za[1]) @@ "A" :> Atom(za[2]))
       IN [h EXCEPT ![oid] = Put(Put(o, "TargetDIS", Ref(nid)), "TargetDISid", Atom(TargetId(tg[2])))]
          @@ (nid :> nobj)
HeapRename(h, tid) ==
  LET o == h[tid]
      w1 == IF Has(o, "alphaqed") THEN Del(Put(o, "alphaem", o["alphaqed"]), "alphaqed") ELSE o
      w2 == IF Has(w1, "QED") THEN Del(Put(w1, "order", Atom(<<"PTO+1", w1["QED"][2]>>)), "QED") ELSE w1
  IN [h EXCEPT ![tid] = w2]
\* compatibility.update(theory = object 1, observables = object 2): returns <<heap', newT, newO>>
HeapUpdate(h, tid, oid) ==
  LET h1 == ShallowCopy(h, tid)   nt == Fresh(h)
      h2 == ShallowCopy(h1, oid)  no == Fresh(h1)
      h3 == HeapUpdateFns(h2, nt)
      h4 == HeapUpdateSV(h3, nt)
      h5 == HeapUpdateTarget(h4, no)
      h6 == HeapRename(h5, nt)
  IN <<h6, nt, no>>

\* what a (deep) observer sees of object id: fields with references resolved recursively
RECURSIVE DeepView(_, _)
DeepView(h, id) == [f \in DOMAIN h[id] |-> IF IsRef(h[id][f]) THEN <<"obj", DeepView(h, h[id][f][2])>> ELSE h[id][f]]
\* the semantic content of an updated card irrespective of identities
=============================================================================
