------------------------------ MODULE Emit_C14 ------------------------------
(***************************************************************************)
(* Specification -> code: request plans for the REAL runner, drawn by TLC   *)
(* from the plan space of MC_RunLoop instantiated on the real kinematic    *)
(* universe (header: the ids a user may request, chosen so that Nachtmann  *)
(* shifts of one request are requests of their own and grid nodes).        *)
(* The recorded executions come back through Trace_C14.                     *)
(***************************************************************************)
EXTENDS Integers, Sequences, FiniteSets, TLC, Json, IOUtils, Randomization
CONSTANTS N, MaxPts, OBS, TMCS, MaxCalls
Hdr == JsonDeserialize(IOEnv.HEADER_FILE)
UX == {Hdr.user[i] : i \in 1..Len(Hdr.user)}
UQ == {Hdr.uq[i] : i \in 1..Len(Hdr.uq)}
KinXQ(x, q) == << <<"x", x>>, <<"Q2", q>> >>
KinQX(x, q) == << <<"Q2", q>>, <<"x", x>> >>
WithY(k) == k \o << <<"y", 0>> >>
SFKins == {KinXQ(x, q) : x \in UX, q \in UQ} \cup {KinQX(x, q) : x \in UX, q \in UQ}
KinsFor(name) == IF name = "XS" THEN {WithY(k) : k \in SFKins} ELSE SFKins
KinSeqs(name) == UNION {[1..n -> KinsFor(name)] : n \in 1..MaxPts}
ObsSeqs == {<<a>> : a \in OBS} \cup UNION {{<<a, b>> : b \in OBS \ {a}} : a \in OBS}
\* drawn in two stages (the full product has ~1e6 elements): observables and modes first, kinematics per observable
Draw(i) ==
  LET os == RandomElement(ObsSeqs)
  IN [tmc |-> RandomElement(TMCS), ncalls |-> RandomElement(1..MaxCalls),
      plan |-> [j \in 1..Len(os) |-> [name |-> os[j], kins |-> RandomElement(KinSeqs(os[j]))]]]
ASSUME ndJsonSerialize(IOEnv.OUT, [i \in 1..N |-> Draw(i)])
=============================================================================
