------------------------------ MODULE Trace_C05 ------------------------------
(* Trace validation for C05 (replay with injected integer operators): the tensor per order key observed from the REAL *)
(* compute_local, projected onto (quark part, gluon part) and snapped to exact rationals, must be the table the        *)
(* specification computes; the key set must be build_orders(pto); the tensor must have had the predicted flavour shape. *)
EXTENDS ScaleVar, Json, IOUtils
TraceLog == ndJsonDeserialize(IOEnv.TRACE_FILE)
Judge(L) ==
  LET c == [o \in 0..3 |-> L.c[o + 1]]
      t == Table(L.labels, L.sec, L.nf, L.pto, c, L.ren, L.fact, L.intrinsic)
      obs == {<<e[1], e[2], e[3]>> : e \in {L.observed[i] : i \in 1..Len(L.observed)}}
  IN IF L.outcome # "OK" THEN "outcome_" \o L.outcome
     ELSE IF obs # BuildOrders(L.pto) THEN "order_keys_differ_from_build_orders"
     ELSE IF ~L.shape_ok THEN "tensor_not_in_the_predicted_flavour_sector"
     ELSE IF \E i \in 1..Len(L.observed) : LET e == L.observed[i] IN t[<<e[1], e[2], e[3]>>] # <<e[4], e[5]>>
            THEN "scale_variation_coefficient_differs"
     ELSE "ok"
VARIABLE l
Init == l = 1
Next == /\ l <= Len(TraceLog)
        /\ LET v == Judge(TraceLog[l]) IN IF v = "ok" THEN TRUE ELSE PrintT(<<"VERDICT", TraceLog[l].oid, v>>)
        /\ l' = l + 1
Spec == Init /\ [][Next]_l
Consumed == TLCGet("stats").diameter - 1
Accepted == PrintT(<<"CONSUMED", Consumed>>) /\ Consumed = Len(TraceLog)
=============================================================================
