------------------------------ MODULE Emit_Result ------------------------------
(* Programs over ESFResult for the real class: operands, operation, and nothing else (Trace_Result recomputes). *)
EXTENDS ResultUniverse, Json, IOUtils, SequencesExt
Ser(r) == [meta |-> r.meta, keys |-> r.keys, tab |-> [i \in 1..Len(r.keys) |-> r.tab[r.keys[i]]]]
Small == {r \in Universe : \A k \in KeySet(r) : r.tab[k] \in {<<2, 1>>, <<-1, 0>>}}     \* 13 results
Pairs == {[op |-> o, args |-> <<Ser(x), Ser(y)>>, s |-> <<0, 0>>] : o \in {"add", "sub"}, x \in Small, y \in Small}
Muls  == {[op |-> o, args |-> <<Ser(x)>>, s |-> s] : o \in {"mul", "rmul"}, x \in Small, s \in Scalars}
          \cup {[op |-> "neg", args |-> <<Ser(x)>>, s |-> <<0, 0>>] : x \in Small}
Lins  == {[op |-> "lin3", args |-> <<Ser(x), Ser(y), Ser(z)>>, s |-> cf] :
            x \in {r \in Small : Len(r.keys) = 2}, y \in {r \in Small : Len(r.keys) >= 1}, z \in {r \in Small : Len(r.keys) # 1},
            cf \in {<<2, -1, 0>>, <<1, 1, -1>>}}
ASSUME ndJsonSerialize(IOEnv.OUT, SetToSeq(Pairs \cup Muls \cup Lins))
=============================================================================
