------------------------------ MODULE Result ------------------------------
(***************************************************************************)
(* ESFResult / EXSResult (esf/result.py): the order-keyed pairs (values,   *)
(* errors) and the arithmetic that cross sections (exs.py: the numpy dot   *)
(* of the coefficient vector with an object array of results) and the      *)
(* target-mass corrections (tmc.py) are built from.  Every operation acts  *)
(* entrywise on the arrays, so one integer per array suffices.             *)
(*                                                                         *)
(* A result is [meta, keys, tab]:  keys is the SEQUENCE of order keys in   *)
(* dict order (it is what dump/apply_pdf iterate over), tab maps a key to  *)
(* <<value, error>>, meta stands for (x, Q2, nf), taken from the LEFT      *)
(* operand.  Modelled as the code does it, deviations from what one might  *)
(* expect named:                                                           *)
(*   ErrorsAreLinear   errors are propagated linearly WITH sign            *)
(*                     (val*e + err*v): the error of -a is -e, the error   *)
(*                     of a - a is 0.                                      *)
(*   SharedByReference __add__ puts the operand's own arrays into the sum   *)
(*                     for keys that only one operand has (no copy).       *)
(***************************************************************************)
EXTENDS Integers, Sequences, FiniteSets, TLC

KeySet(r) == {r.keys[i] : i \in 1..Len(r.keys)}
Empty(meta) == [meta |-> meta, keys |-> <<>>, tab |-> <<>>]
\* ESFResult.__add__(a, b)
Add(a, b) ==
  LET ka == KeySet(a) kb == KeySet(b) IN
  [meta |-> a.meta,
   keys |-> a.keys \o SelectSeq(b.keys, LAMBDA k : k \notin ka),
   tab  |-> [k \in ka \cup kb |->
               IF k \in ka /\ k \in kb THEN <<a.tab[k][1] + b.tab[k][1], a.tab[k][2] + b.tab[k][2]>>
               ELSE IF k \in ka THEN a.tab[k] ELSE b.tab[k]]]
\* keys whose arrays in Add(a, b) ARE the arrays of an operand (SharedByReference)
Shared(a, b) == (KeySet(a) \ KeySet(b)) \cup (KeySet(b) \ KeySet(a))
\* ESFResult.__mul__(a, s): s is a number (error 0) or a pair <<val, err>>
Scal(c) == <<c, 0>>
Mul(a, s) == [meta |-> a.meta, keys |-> a.keys,
              tab |-> [k \in KeySet(a) |-> <<s[1] * a.tab[k][1], s[1] * a.tab[k][2] + s[2] * a.tab[k][1]>>]]
Neg(a) == Mul(a, Scal(-1))
Sub(a, b) == Add(a, Neg(b))
\* numpy: coeffs @ array([r1, r2, r3]) = ((c1*r1 + c2*r2) + c3*r3), each product through __rmul__ = __mul__
Lin3(c, r) == Add(Add(Mul(r[1], Scal(c[1])), Mul(r[2], Scal(c[2]))), Mul(r[3], Scal(c[3])))
\* exs.py: the remap into an EXSResult keeps key order and entries (alpha_qed_power = 0) and adds y
Remap(r, y) == [meta |-> <<r.meta, y>>, keys |-> r.keys, tab |-> r.tab]

\* ------------------------------------------------------------ theorems
SameContent(a, b) == KeySet(a) = KeySet(b) /\ \A k \in KeySet(a) : a.tab[k] = b.tab[k]
AddCommutesInContent(a, b) == SameContent(Add(a, b), Add(b, a))
AddAssociative(a, b, c)    == Add(Add(a, b), c) = Add(a, Add(b, c))
AddIdentity(a)             == Add(a, Empty(a.meta)) = a /\ SameContent(Add(Empty(a.meta), a), a)
MulDistributes(a, b, s)    == Mul(Add(a, b), s) = Add(Mul(a, s), Mul(b, s))
MulComposes(a, c, d)       == Mul(Mul(a, Scal(c)), Scal(d)) = Mul(a, Scal(c * d))
KeysOfSum(a, b)            == KeySet(Add(a, b)) = KeySet(a) \cup KeySet(b) /\ Len(Add(a, b).keys) = Cardinality(KeySet(a) \cup KeySet(b))
MetaFromLeft(a, b)         == Add(a, b).meta = a.meta /\ Sub(a, b).meta = a.meta
\* ErrorsAreLinear (the code's behaviour, stated so that a change of it is seen)
ErrorsAreLinear(a)         == /\ \A k \in KeySet(a) : Neg(a).tab[k] = <<-a.tab[k][1], -a.tab[k][2]>>
                              /\ \A k \in KeySet(a) : Sub(a, a).tab[k] = <<0, 0>>
                              /\ Sub(a, a).keys = a.keys
\* a cross section without F3 (third operand empty) has exactly the keys of F2 and FL, in that order of first appearance
XSKeys(c, r) == r[3].keys = <<>> => Lin3(c, r).keys = Add(r[1], r[2]).keys
=============================================================================
