------------------------------ MODULE Thresholds ------------------------------
(***************************************************************************)
(* C09: kinematic thresholds of heavy-quark production.                    *)
(*  NC pair production: nothing at or below  Q2 (1-x)/x <= 4 m2  (hadronic *)
(*  threshold, heavy/partonic_channel.py decorator) and the integrand      *)
(*  vanishes for z >= zmax = 1/(1 + 4 m2/Q2) (partonic threshold).         *)
(*  CC single heavy quark: convolution point chi = x (1 + m2/Q2)           *)
(*  (slow rescaling), nothing when chi >= 1.                               *)
(* All quantities exact rationals on a dyadic lattice.                     *)
(***************************************************************************)
EXTENDS Rat
\* hadronic threshold as the code evaluates it (shat = Q2 (1-x)/x <= 4 m2)
BelowPair(x, Q2, m2) == RLeq(RDiv(RMul(Q2, RSub(One, x)), x), RMul(RI(4), m2))
ZMax(Q2, m2) == RInv(RAdd(One, RDiv(RMul(RI(4), m2), Q2)))
\* the same threshold in its partonic form
BelowPartonic(x, Q2, m2) == RLeq(ZMax(Q2, m2), x)
Chi(x, Q2, m2) == RMul(x, RAdd(One, RDiv(m2, Q2)))
CCEmpty(x, Q2, m2) == RLeq(One, Chi(x, Q2, m2))
\* position of a point relative to the pair threshold: exactly on it, or by a margin on either side
PairClass(x, Q2, m2) ==
  LET lhs == RMul(Q2, RSub(One, x)) rhs == RMul(RMul(RI(4), m2), x) IN
  IF lhs = rhs THEN "at" ELSE IF RLt(lhs, rhs) THEN "below" ELSE "above"
\* ---- theorems
HadronicIsPartonic(x, Q2, m2) == BelowPair(x, Q2, m2) <=> BelowPartonic(x, Q2, m2)
ClassConsistent(x, Q2, m2) == BelowPair(x, Q2, m2) <=> PairClass(x, Q2, m2) \in {"at", "below"}
\* raising the mass can only close the channel, raising Q2 can only open it
Monotone(x, Q2, m2) == BelowPair(x, Q2, m2) => (BelowPair(x, Q2, RMul(RI(2), m2)) /\ BelowPair(x, RDiv(Q2, RI(2)), m2))
CCConsistent(x, Q2, m2) == CCEmpty(x, Q2, m2) <=> RLeq(RDiv(RMul(Q2, RSub(One, x)), x), m2)
=============================================================================
