------------------------------ MODULE Trace_Result ------------------------------
(***************************************************************************)
(* One line = one program executed by the real ESFResult class: operands,  *)
(* operation, and what came out (key order, entries, metadata, which       *)
(* arrays are shared with an operand, whether an operand was modified).    *)
(***************************************************************************)
EXTENDS Result, TLC, Json, IOUtils
TraceLog == ndJsonDeserialize(IOEnv.TRACE_FILE)
De(r) == [meta |-> r.meta, keys |-> r.keys, tab |-> [k \in {r.keys[i] : i \in 1..Len(r.keys)} |->
            LET i == CHOOSE j \in 1..Len(r.keys) : r.keys[j] = k IN <<r.tab[i][1], r.tab[i][2]>>]]
Expected(L) ==
  LET a == De(L.args[1]) IN
  CASE L.op = "add"  -> Add(a, De(L.args[2]))
    [] L.op = "sub"  -> Sub(a, De(L.args[2]))
    [] L.op = "mul"  -> Mul(a, <<L.s[1], L.s[2]>>)
    [] L.op = "rmul" -> Mul(a, <<L.s[1], L.s[2]>>)
    [] L.op = "neg"  -> Neg(a)
    [] L.op = "lin3" -> Lin3(<<L.s[1], L.s[2], L.s[3]>>, <<a, De(L.args[2]), De(L.args[3])>>)
ToSet(s) == {s[i] : i \in 1..Len(s)}
\* What C11 talks about - the VALUES of the combination, for every order key - is a VERDICT; the rest of the behaviour of
\* the class (errors, dict order of the keys, kinematics, sharing of arrays) is checked against the specification too, but a
\* departure there does not break the property: it is reported as a conformance NOTE.
ValuesOf(r) == [k \in DOMAIN r.tab |-> r.tab[k][1]]
Judge(L) ==
  IF L.op \notin {"add", "sub", "mul", "rmul", "neg", "lin3"} THEN "unknown_operation"
  ELSE IF L.outcome # "OK" THEN "outcome_" \o L.outcome
  ELSE LET e == Expected(L) o == De(L.observed) IN
       IF ToSet(L.observed.keys) # ToSet(e.keys) \/ Len(L.observed.keys) # Len(e.keys) THEN "order_keys_differ"
       ELSE IF ValuesOf(o) # ValuesOf(e) THEN "values_differ"
       ELSE IF L.operands_modified THEN "operand_modified_in_place"
       ELSE "ok"
NoteOf(L) ==
  IF Judge(L) # "ok" THEN "none"
  ELSE LET e == Expected(L) o == De(L.observed) IN
       IF L.observed.keys # e.keys THEN "dict_order_of_keys_differs_from_spec"
       ELSE IF o.tab # e.tab THEN "errors_differ_from_spec"
       ELSE IF o.meta # e.meta THEN "kinematics_not_taken_from_the_left_operand"
       ELSE IF L.op = "add" /\ ToSet(L.shared) # Shared(De(L.args[1]), De(L.args[2])) THEN "sharing_differs_from_spec"
       ELSE "none"
VARIABLE l
Init == l = 1
Next == /\ l <= Len(TraceLog)
        /\ LET v == Judge(TraceLog[l]) IN IF v = "ok" THEN TRUE ELSE PrintT(<<"VERDICT", TraceLog[l].oid, v>>)
        /\ LET n == NoteOf(TraceLog[l]) IN IF n = "none" THEN TRUE ELSE PrintT(<<"NOTE", TraceLog[l].oid, n>>)
        /\ l' = l + 1
Spec == Init /\ [][Next]_l
Consumed == TLCGet("stats").diameter - 1
Accepted == PrintT(<<"CONSUMED", Consumed>>) /\ Consumed = Len(TraceLog)
=============================================================================
