------------------------------ MODULE Emit_C05 ------------------------------
(* C05 obligations: for integer instantiations of the splitting labels and of a kernel's raw coefficients, the exact *)
(* scale-variation tensor per order key (quark part, gluon part) that compute_local must produce.                   *)
EXTENDS ScaleVar, Json, IOUtils
CONSTANTS NI, NFS, PTOS
Val(n, salt) == RI(((n * (2 * salt + 3) + salt * salt) % 9) - 4)
Inst(n) ==
  LET b == [qq0 |-> Val(n, 1), qg0 |-> Val(n, 2), gq0 |-> Val(n, 3), gg0 |-> Val(n, 4), qq1 |-> Val(n, 5), qg1 |-> Val(n, 6),
            gq1 |-> Val(n, 7), gg1 |-> Val(n, 8), nsp1 |-> Val(n, 9), nsm1 |-> Val(n, 10)]
  IN [qq0 |-> b.qq0, qg0 |-> b.qg0, gq0 |-> b.gq0, gg0 |-> b.gg0, qq1 |-> b.qq1, qg1 |-> b.qg1, gq1 |-> b.gq1, gg1 |-> b.gg1,
      nsp1 |-> b.nsp1, nsm1 |-> b.nsm1,
      qq0sq |-> RMul(b.qq0, b.qq0), qg0gq0 |-> RMul(b.qg0, b.gq0), qq0qg0 |-> RMul(b.qq0, b.qg0), qg0gg0 |-> RMul(b.qg0, b.gg0)]
Coef(n, sec) ==
  [o \in 0..3 |-> IF sec = "G" THEN (IF o = 0 THEN VZero ELSE <<Zero, Val(n, 20 + o)>>) ELSE <<Val(n, 11 + o), Zero>>]
Expect(n, sec, nf, pto, ren, fact, intr) ==
  LET t == Table(Inst(n), sec, nf, pto, Coef(n, sec), ren, fact, intr) IN
  SetToSeq({<<key[1], key[2], key[3], t[key][1], t[key][2]>> : key \in BuildOrders(pto)})
\* evol: the order of the evolution (card key PTO); the scale-variation tensor is a function of the order of the coefficient
\* functions (PTODIS = pto) alone, so the expectation does not mention it - runs with PTO # PTODIS must give the same tensor
Obls == {[n |-> n, sec |-> sec, nf |-> nf, pto |-> pto, evol |-> evol, ren |-> ren, fact |-> fact, intrinsic |-> intr,
          labels |-> Inst(n), c |-> [o \in 1..4 |-> Coef(n, sec)[o - 1]],
          expect |-> Expect(n, sec, nf, pto, ren, fact, intr)] :
           n \in 1..NI, sec \in Sectors, nf \in NFS, pto \in PTOS, evol \in 0..3, ren \in BOOLEAN, fact \in BOOLEAN, intr \in BOOLEAN}
Wanted(o) == (o.intrinsic => o.sec = "nsp") /\ (o.evol = o.pto \/ (o.n = 1 /\ o.evol = o.pto - 1 /\ (o.ren \/ o.fact)))
ASSUME ndJsonSerialize(IOEnv.OUT, SetToSeq({o \in Obls : Wanted(o)}))
=============================================================================
