----------------------------- MODULE Convolution -----------------------------
(***************************************************************************)
(* Case analysis of esf/conv.py `convolution(rsl, x, p_j)` and the factor  *)
(* applied in compute_local, as a decision table.                          *)
(*   position of the convolution point x relative to the support of the    *)
(*   basis function p_j and to the end point:                              *)
(*     "beyond"   x >= 1 - eps          (empty integration domain)         *)
(*     "below"    supp(p_j) entirely below x                               *)
(*     "inside"   x inside supp(p_j) or below it (integration window       *)
(*                [x(1+eps), min(max breakpoint, 1)(1-eps)])               *)
(*   parts present: reg?, sing?, loc?                                      *)
(* Result: [zero, integrand, local] - whether the result is identically 0, *)
(* which integrand variant quad receives ("none","reg","sing","regsing"),  *)
(* whether p_j(x) * loc(x) is added.                                       *)
(***************************************************************************)
EXTENDS Integers, FiniteSets
Positions == {"beyond", "below", "inside"}
ConvCase(reg, sing, loc, pos) ==
  IF pos = "beyond" \/ pos = "below" THEN [zero |-> TRUE, integrand |-> "none", local |-> FALSE]
  ELSE [zero |-> FALSE,
        integrand |-> IF reg /\ sing THEN "regsing" ELSE IF sing THEN "sing" ELSE IF reg THEN "reg" ELSE "none",
        local |-> loc]
\* the mathematical convolution  int_x^1 dz/z c(z) p_j(x/z)  with c = reg + [sing]_+ + d delta:
\*   it vanishes when p_j(x/z) = 0 on the whole range, i.e. supp(p_j) below x, or when the range is empty;
\*   otherwise it has a regular integral iff reg, a subtracted integral iff sing, and the local term
\*   p_j(x) (d - int_0^x sing) whenever sing or the delta is present (loc stands for both)
MathCase(reg, sing, loc, pos) ==
  [zero |-> pos \in {"beyond", "below"},
   needsRegIntegral |-> pos = "inside" /\ reg, needsSingIntegral |-> pos = "inside" /\ sing, needsLocal |-> pos = "inside" /\ loc]
\* ---- theorems
Total == \A r \in BOOLEAN, s \in BOOLEAN, l \in BOOLEAN, p \in Positions :
           ConvCase(r, s, l, p).integrand \in {"none", "reg", "sing", "regsing"}
Sound == \A r \in BOOLEAN, s \in BOOLEAN, l \in BOOLEAN, p \in Positions :
           LET c == ConvCase(r, s, l, p) m == MathCase(r, s, l, p) IN
           /\ c.zero = m.zero
           /\ (c.integrand \in {"reg", "regsing"}) = m.needsRegIntegral
           /\ (c.integrand \in {"sing", "regsing"}) = m.needsSingIntegral
           /\ c.local = m.needsLocal
\* a kernel with a singular part must come with a local part (C03), else the plus prescription is incomplete
WellFormed(reg, sing, loc) == sing => loc
\* the factor compute_local multiplies with is the CONVOLUTION POINT (x, x/lambda for massive CC, x/eta for intrinsic)
ConvPoint(cls) == IF cls \in {"heavy-cc"} THEN "x/lambda" ELSE IF cls = "intrinsic" THEN "x/eta" ELSE "x"
Factor(cls) == ConvPoint(cls)
=============================================================================
