---------------------------- MODULE Trace_FileStore ----------------------------
(***************************************************************************)
(* Trace validation of recorded dump / load / modify histories of REAL     *)
(* Output objects against FileStore.  One line per event:                  *)
(*   Begin  {sid}                                                          *)
(*   dump   {sid, h, p, f, outcome, digests}                                *)
(*   load   {sid, p, outcome, digests}                                      *)
(*   modify {sid, h, digests}                                               *)
(* digests = the content digest of every live object, in handle order,     *)
(* after the event.  Each line is the FileStore action with the logged     *)
(* arguments; the digest of an object must be a function of the content    *)
(* the specification gives it (across the whole file).                      *)
(***************************************************************************)
EXTENDS FileStore, Json, IOUtils
TraceLog == ndJsonDeserialize(IOEnv.TRACE_FILE)
VARIABLES l, failed, digestOf
tvars == <<l, failed, digestOf>>
L == TraceLog[l]
IsEv(e) == l <= Len(TraceLog) /\ L.ev = e
Fail(why) == PrintT(<<"VERDICT", ToString(L.sid), why>>) /\ failed' = L.sid
Hold == UNCHANGED vars
TInit == Init /\ l = 1 /\ failed = -1 /\ digestOf = <<>>
TBegin == /\ IsEv("Begin") /\ objs' = [i \in 1..NOuts |-> <<i, 0>>] /\ files' = [p \in Paths |-> <<>>]
          /\ memo' = <<>> /\ last' = <<>> /\ hist' = <<>> /\ failed' = -1 /\ l' = l + 1 /\ UNCHANGED digestOf
Live == l <= Len(TraceLog) /\ L.ev \notin {"Begin", "EOF"} /\ failed # L.sid
RECURSIVE Consistent(_, _)
Consistent(d, prs) ==
  IF prs = <<>> THEN TRUE
  ELSE LET t == Head(prs)[1] g == Head(prs)[2] IN
       IF t \in DOMAIN d THEN d[t] = g /\ Consistent(d, Tail(prs)) ELSE Consistent(d @@ (t :> g), Tail(prs))
RECURSIVE Extend(_, _)
Extend(d, prs) ==
  IF prs = <<>> THEN d
  ELSE LET t == Head(prs)[1] g == Head(prs)[2] IN Extend(IF t \in DOMAIN d THEN d ELSE d @@ (t :> g), Tail(prs))
\* after the action: every live object's digest against the specification's content for it
Judge(why) ==
  IF Len(L.digests) # Len(objs') THEN Fail("number_of_live_objects_differs") /\ UNCHANGED digestOf
  ELSE LET prs == [h \in 1..Len(objs') |-> <<objs'[h], L.digests[h]>>] IN
       IF Consistent(digestOf, prs) THEN digestOf' = Extend(digestOf, prs) /\ UNCHANGED failed
       ELSE Fail(why) /\ UNCHANGED digestOf
TStep ==
  /\ Live /\ l' = l + 1
  /\ IF L.ev \in {"dump", "load"} /\ L.outcome # "ok"
       THEN Fail(L.ev \o "_" \o L.outcome) /\ Hold /\ UNCHANGED digestOf
     ELSE IF L.ev = "dump" THEN
            IF ENABLED Dump(L.h, L.p, L.f) THEN Dump(L.h, L.p, L.f) /\ Judge("dumping_changed_an_object")
            ELSE Fail("not_a_behaviour_of_the_specification") /\ Hold /\ UNCHANGED digestOf
     ELSE IF L.ev = "load" THEN
            IF ENABLED Load(L.p) THEN Load(L.p) /\ Judge("loaded_object_is_not_what_the_path_holds")
            ELSE Fail("not_a_behaviour_of_the_specification") /\ Hold /\ UNCHANGED digestOf
     ELSE IF L.ev = "modify" THEN
            IF ENABLED Modify(L.h) THEN Modify(L.h) /\ Judge("modifying_one_object_changed_another")
            ELSE Fail("not_a_behaviour_of_the_specification") /\ Hold /\ UNCHANGED digestOf
     ELSE Fail("unknown_event") /\ Hold /\ UNCHANGED digestOf
TSkipFailed == /\ l <= Len(TraceLog) /\ L.ev \notin {"Begin", "EOF"} /\ failed = L.sid
               /\ l' = l + 1 /\ UNCHANGED <<vars, failed, digestOf>>
TEOF == IsEv("EOF") /\ PrintT(<<"CONSUMED", l - 1>>) /\ l' = l + 1 /\ UNCHANGED <<vars, failed, digestOf>>
TNext == TBegin \/ TStep \/ TSkipFailed \/ TEOF
TraceSpec == TInit /\ [][TNext]_<<vars, tvars>>
Accepted == TRUE
=============================================================================
