---------------------------- MODULE MC_Thresholds ----------------------------
EXTENDS Thresholds, TLC
VARIABLES stage, pick
Xs == {R(1, 8), R(1, 4), R(3, 8), R(1, 2), R(5, 8), R(3, 4), R(7, 8)}
Q2s == {R(3, 4), RI(3), RI(9), RI(10), RI(27), RI(100)}
M2s == {R(9, 4), R(81, 4), R(1, 4)}
Init == stage = 0 /\ pick \in {[x |-> x] : x \in Xs}
Next == stage = 0 /\ stage' = 1 /\ \E q \in Q2s, m \in M2s : pick' = [x |-> pick.x, Q2 |-> q, m2 |-> m]
Spec == Init /\ [][Next]_<<stage, pick>>
Leaf == stage = 1
Inv_HP == Leaf => HadronicIsPartonic(pick.x, pick.Q2, pick.m2)
Inv_Class == Leaf => ClassConsistent(pick.x, pick.Q2, pick.m2)
Inv_Mono == Leaf => Monotone(pick.x, pick.Q2, pick.m2)
Inv_CC == Leaf => CCConsistent(pick.x, pick.Q2, pick.m2)
\* the lattice contains points exactly on the pair threshold and on both sides (anti-vacuity, expected to be violated if negated)
=============================================================================
