------------------------------ MODULE Trace_C14 ------------------------------
(***************************************************************************)
(* Trace validation of recorded executions of the real Runner against      *)
(* RunLoop.  One JSON line per observable event, many runs per file:       *)
(*   Begin   {tid, tmc, ncalls, plan}           a new Runner is constructed *)
(*   Elem    {tid, obs, x, q, drops, events, digest}                        *)
(*           a top-level element.get_result() returned: its observable,    *)
(*           kinematics ids, the runner-level drop_cache calls since the    *)
(*           previous element, the compute / operator events inside it, and *)
(*           the digest id of the returned tensor                           *)
(*   CallEnd {tid, drops, slots}   get_result returned: digest id per slot  *)
(*   EOF                                                                    *)
(* StartObs / EndObs / Again are silent steps of the specification (their   *)
(* guards are mutually exclusive with the logged ones, so the trace         *)
(* behaviour stays linear); the drop_cache of EndObs is matched through the *)
(* `pend` counter.  Verdicts are total.  What the PROPERTY talks about -    *)
(* the digest of a result is a function of the ideal term of its request -  *)
(* is a VERDICT; a departure from RunLoop in cache hits, drops or order of   *)
(* evaluation (which the property does not constrain) is a NOTE.            *)
(* digestOf is carried ACROSS runs: the digest must be a function of the    *)
(* history-free ideal term of the request (bit-for-bit history             *)
(* independence).                                                          *)
(***************************************************************************)
EXTENDS RunLoop, Json, IOUtils

Hdr      == JsonDeserialize(IOEnv.HEADER_FILE)
TraceLog == ndJsonDeserialize(IOEnv.TRACE_FILE)
\* constants of RunLoop bound to the header (cfg:  ShiftOf <- HdrShift ...)
HdrShift == Hdr.shift
HdrNodes == Hdr.nodes
HdrNf    == Hdr.nf

VARIABLES l, pend, failed, drift, digestOf
tvars == <<l, pend, failed, drift, digestOf>>

L == TraceLog[l]
IsEv(e) == l <= Len(TraceLog) /\ L.ev = e
\* a property violation in this run (reported, the run is skipped, later runs are still checked)
Fail(why) == PrintT(<<"VERDICT", ToString(L.tid), why>>) /\ failed' = L.tid
\* the run left the behaviours of RunLoop in something the property does NOT talk about (cache hits, drops,
\* evaluation order): reported as a conformance note; digests keep being checked, the state machine stops following
Note(why) == PrintT(<<"NOTE", ToString(L.tid), why, l>>) /\ drift' = L.tid
Hold == UNCHANGED <<vars, pend>>

TInit == /\ InitWith(0, <<>>, 1) /\ l = 1 /\ pend = 0 /\ failed = -1 /\ drift = -1 /\ digestOf = <<>>

\* digest bookkeeping for a sequence of <<term, digest>> pairs: first occurrence defines, later ones must agree
RECURSIVE Consistent(_, _)
Consistent(d, prs) ==
  IF prs = <<>> THEN TRUE
  ELSE LET t == Head(prs)[1] g == Head(prs)[2] IN
       IF t \in DOMAIN d THEN d[t] = g /\ Consistent(d, Tail(prs))
       ELSE Consistent(d @@ (t :> g), Tail(prs))
RECURSIVE Extend(_, _)
Extend(d, prs) ==
  IF prs = <<>> THEN d
  ELSE LET t == Head(prs)[1] g == Head(prs)[2] IN Extend(IF t \in DOMAIN d THEN d ELSE d @@ (t :> g), Tail(prs))

TBegin == /\ IsEv("Begin")
          /\ Reset(L.tmc, L.plan, L.ncalls)
          /\ pend' = 0 /\ failed' = -1 /\ drift' = -1 /\ UNCHANGED digestOf /\ l' = l + 1

Live == l <= Len(TraceLog) /\ L.ev # "Begin" /\ L.ev # "EOF" /\ failed # L.tid
Following == Live /\ drift # L.tid
\* silent steps of RunLoop
TSilentStart == Following /\ StartObsGuard /\ StartObs /\ UNCHANGED tvars
TSilentEnd   == Following /\ EndObsGuard /\ EndObs /\ pend' = pend + 1 /\ UNCHANGED <<l, failed, drift, digestOf>>
TSilentAgain == Following /\ L.ev = "Elem" /\ AgainGuard /\ Again /\ UNCHANGED tvars
Settled == ~Following \/ (~StartObsGuard /\ ~EndObsGuard /\ ~(L.ev = "Elem" /\ AgainGuard))

\* the PROPERTY on one element: its digest is a function of the ideal term of its own request
ElemTerm == Ideal(tmc, L.obs, << <<"x", L.x>>, <<"Q2", L.q>> >>)
TElem ==
  /\ Live /\ L.ev = "Elem" /\ Settled
  /\ l' = l + 1
  /\ IF ~Consistent(digestOf, << <<ElemTerm, L.digest>> >>)
       THEN Fail("result_depends_on_history") /\ Hold /\ UNCHANGED <<drift, digestOf>>
     ELSE /\ digestOf' = Extend(digestOf, << <<ElemTerm, L.digest>> >>) /\ UNCHANGED failed
          /\ IF ~Following THEN Hold /\ UNCHANGED drift
             ELSE IF ~StepGuard THEN Note("element_evaluated_but_spec_has_none_left") /\ Hold
             ELSE LET r == StepRes
                      id == elems[cur][r.idx]
                      hasd == Len(r.M.ev) > 0 /\ r.M.ev[1] = <<"Drop">>
                      dr == pend + (IF hasd THEN 1 ELSE 0)
                      evs == IF hasd THEN Tail(r.M.ev) ELSE r.M.ev
                  IN IF plan[cur].name # L.obs \/ heap[id].x # L.x \/ heap[id].q # L.q
                        THEN Note("evaluation_order_differs") /\ Hold
                     ELSE IF dr # L.drops THEN Note("drop_cache_calls_differ") /\ Hold
                     ELSE IF evs # L.events THEN Note("computations_differ") /\ Hold
                     ELSE IF r.term # ElemTerm THEN Fail("spec_term_not_ideal") /\ Hold /\ UNCHANGED drift
                     ELSE Step /\ pend' = 0 /\ UNCHANGED drift

\* the PROPERTY on the returned output: every slot carries the digest of its own request's ideal term
SlotPairs == [i \in 1..Len(plan) |-> [j \in 1..Len(plan[i].kins) |->
                <<Ideal(tmc, plan[i].name, plan[i].kins[j]), L.slots[i][j]>>]]
RECURSIVE Flatten(_)
Flatten(ss) == IF ss = <<>> THEN <<>> ELSE Head(ss) \o Flatten(Tail(ss))
TCallEnd ==
  /\ Live /\ L.ev = "CallEnd" /\ Settled
  /\ l' = l + 1
  /\ IF Len(L.slots) # Len(plan) \/ \E i \in 1..Len(plan) : Len(L.slots[i]) # Len(plan[i].kins)
       THEN Fail("slot_count_differs") /\ Hold /\ UNCHANGED <<drift, digestOf>>
     ELSE IF ~Consistent(digestOf, Flatten(SlotPairs))
       THEN Fail("result_depends_on_history") /\ Hold /\ UNCHANGED <<drift, digestOf>>
     ELSE /\ digestOf' = Extend(digestOf, Flatten(SlotPairs)) /\ UNCHANGED failed
          /\ IF ~Following THEN Hold /\ UNCHANGED drift
             ELSE IF ~Returned THEN Note("get_result_returned_before_the_spec") /\ Hold
             ELSE IF pend # L.drops THEN Note("drop_cache_calls_differ") /\ Hold
             ELSE pend' = 0 /\ UNCHANGED <<vars, drift>>
TCrash == /\ Live /\ L.ev = "Crash" /\ l' = l + 1
          /\ Fail("crash_" \o L.etype) /\ Hold /\ UNCHANGED <<drift, digestOf>>
TSkipFailed == /\ l <= Len(TraceLog) /\ L.ev \notin {"Begin", "EOF"} /\ failed = L.tid
               /\ l' = l + 1 /\ UNCHANGED <<vars, pend, failed, drift, digestOf>>
TEOF == IsEv("EOF") /\ PrintT(<<"CONSUMED", l - 1>>) /\ l' = l + 1 /\ UNCHANGED <<vars, pend, failed, drift, digestOf>>

TNext == TBegin \/ TSilentStart \/ TSilentEnd \/ TSilentAgain \/ TElem \/ TCallEnd \/ TCrash \/ TSkipFailed \/ TEOF
TraceSpec == TInit /\ [][TNext]_<<vars, tvars>>
\* every invariant of RunLoop is evaluated at every step of every recorded run
Accepted == TRUE
=============================================================================
