------------------------------ MODULE Trace_Names ------------------------------
(***************************************************************************)
(* One line = one name given to the real ObservableName class, with every  *)
(* attribute it answered (or the exception).  VERDICT: what the runner and *)
(* the Combiner act on (validity, kind, heavyness, family, heavy-quark     *)
(* number, apply_kind/apply_flavor_family).  NOTE: the other attributes.   *)
(***************************************************************************)
EXTENDS Names, Json, IOUtils
TraceLog == ndJsonDeserialize(IOEnv.TRACE_FILE)
Res(r) == IF r.ok THEN <<"ok", r.v>> ELSE <<"raise", r.why>>
Obs(r) == IF r.ok THEN <<"ok", r.v>> ELSE <<"raise", r.why>>
Judge(L) ==
  LET p == Parse(L.parts) IN
  IF L.valid # p.ok THEN (IF p.ok THEN "valid_name_rejected" ELSE "invalid_name_accepted")
  ELSE IF ~p.ok THEN (IF L.why # p.why THEN "rejected_for_another_reason" ELSE "ok")
  ELSE IF L.kind # p.kind \/ L.flavor # p.flavor THEN "kind_or_heavyness_differs"
  ELSE IF L.family # Family(p) THEN "flavour_family_differs"
  ELSE IF Obs(L.hqnumber) # Res(HqNumber(p)) THEN "heavy_quark_number_differs"
  ELSE IF L.is_xs # IsXS(p) \/ L.is_pv # IsPV(p) THEN "kind_class_differs"
  ELSE IF L.apply_family # (IF ApplyFamily(p).ok THEN FullName(ApplyFamily(p)) ELSE "raise") THEN "apply_flavor_family_differs"
  ELSE IF L.apply_kind_F2 # (IF ApplyKind(p, "F2").ok THEN FullName(ApplyKind(p, "F2")) ELSE "raise") THEN "apply_kind_differs"
  ELSE "ok"
NoteOf(L) ==
  LET p == Parse(L.parts) IN
  IF Judge(L) # "ok" \/ ~p.ok THEN "none"
  ELSE IF L.name # FullName(p) THEN "name_differs"
  ELSE IF L.is_heavy # IsHeavy(p) \/ L.is_raw_heavy # IsRawHeavy(p) \/ L.is_heavylight # IsHeavyLight(p) \/ L.is_composed # IsComposed(p)
       THEN "heavyness_predicates_differ"
  ELSE IF Obs(L.raw_flavor) # Res(RawFlavor(p)) THEN "raw_flavor_differs"
  ELSE IF L.mass_label # MassLabel(p) THEN "mass_label_differs"
  ELSE IF L.has_heavies # HasHeavies(<<L.parts>>) \/ L.has_lights # HasLights(<<L.parts>>) THEN "has_heavies_or_lights_differs"
  ELSE "none"
VARIABLE l
Init == l = 1
Next == /\ l <= Len(TraceLog)
        /\ LET v == Judge(TraceLog[l]) IN IF v = "ok" THEN TRUE ELSE PrintT(<<"VERDICT", TraceLog[l].oid, v>>)
        /\ LET n == NoteOf(TraceLog[l]) IN IF n = "none" THEN TRUE ELSE PrintT(<<"NOTE", TraceLog[l].oid, n>>)
        /\ l' = l + 1
Spec == Init /\ [][Next]_l
Consumed == TLCGet("stats").diameter - 1
Accepted == PrintT(<<"CONSUMED", Consumed>>) /\ Consumed = Len(TraceLog)
=============================================================================
