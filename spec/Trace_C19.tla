------------------------------ MODULE Trace_C19 ------------------------------
(* Trace validation for C19: per (case, x, xiF) the deviations of every family member from the reference prediction. *)
EXTENDS Refinement, TLC, Json, IOUtils
TraceLog == ndJsonDeserialize(IOEnv.TRACE_FILE)
Judge(L) ==
  IF ~L.finite THEN "non_finite_prediction"
  ELSE IF L.what = "below" THEN (IF ~WithinCaps(L.errs, RegionOf(L.xq)) THEN "request_below_the_lowest_node_is_answered" ELSE "ok")
  ELSE IF L.what = "tiny" THEN (IF ~WithinCaps(L.errs, RegionOf(L.xq)) THEN "grids_disagree_at_very_small_x" ELSE "ok")
  ELSE IF L.what = "listing" THEN (IF ~WithinCaps(L.errs, RegionOf(L.xq)) THEN "prediction_depends_on_the_order_the_nodes_are_listed_in" ELSE "ok")
  ELSE IF L.what = "node" THEN (IF ~WithinCaps(L.errs, RegionOf(L.xq)) THEN "prediction_jumps_at_a_grid_node" ELSE "ok")
  ELSE IF ~WithinCaps(L.errs, RegionOf(L.xq)) THEN "grids_disagree_beyond_the_interpolation_accuracy"
  ELSE IF ~Rel_Refine(L.errs) THEN "finer_grid_is_worse_than_coarser"
  ELSE "ok"
VARIABLE l
Init == l = 1
Next == /\ l <= Len(TraceLog)
        /\ LET v == Judge(TraceLog[l]) IN IF v = "ok" THEN TRUE ELSE PrintT(<<"VERDICT", TraceLog[l].oid, v>>)
        /\ l' = l + 1
Spec == Init /\ [][Next]_l
Consumed == TLCGet("stats").diameter - 1
Accepted == PrintT(<<"CONSUMED", Consumed>>) /\ Consumed = Len(TraceLog)
=============================================================================
