SPECIFICATION Spec
CONSTANTS
  S2W <- S2W_full
  RR <- RR_full
  OMD <- OMD_full
  POL <- POL_full
  ORDERS <- ORD_lo
  NFZM = {3,6}
  NFFF = {}
  TARGETS = {"proton"}
  KINDS = {"F2","F3"}
  PROCS = {"EM","NC"}
  FLAVS = {"light"}
  POSS = {0}
  CKMS = {"generic"}
INVARIANT Inv_C02
INVARIANT Inv_C02_NuScaling
CHECK_DEADLOCK FALSE
