------------------------------ MODULE Trace_C02 ------------------------------
(***************************************************************************)
(* TraceLog validation for C02.  Each line records, for one lattice cell, the *)
(* LO operator row observed at a grid node of the REAL run_yadism output   *)
(* (projected onto exact rationals by the driver, see harness.common.snap) *)
(* and the largest off-node entry in units of the tolerance; further, for  *)
(* four requests OFF the nodes in the same card, the largest deviation of  *)
(* the operator from  x * weight * p_j(x)  (shape_milli).  The line is     *)
(* accepted iff the row equals the textbook parton-model row computed HERE *)
(* from the cell's parameters.                                             *)
(***************************************************************************)
EXTENDS Lattice, Json, IOUtils

TraceLog == ndJsonDeserialize(IOEnv.TRACE_FILE)
ZM(n) == [fns |-> "ZM-VFNS", nfff |-> 4, nfzm |-> n]
CellOf(pt) ==
  MkCell([proc |-> pt.proc, proj |-> pt.proj, s2w |-> pt.s2w, r |-> pt.r, omd |-> pt.omd, pol |-> pt.pol, pos |-> 0],
         CkmOf(pt.ckm), pt.kind, FamOf(pt.flav), HqOf(pt.flav), ZM(pt.nf), "full", 0, 0, One, One)

Judge(L) ==
  LET c == CellOf(L.pt) IN
  IF L.outcome # "OK" THEN "outcome_" \o L.outcome
  ELSE IF L.nf # c.nf THEN "nf"
  ELSE IF \E i \in 1..13 : L.row[i] # (LET w == [p \in Pids |-> TextbookLO(c, p)] IN
                                        IF L.pt.tza = 1 THEN w ELSE Rotate(w, One, RI(L.pt.tza)))[PidSeq[i]] THEN "row_differs_from_parton_model"
  ELSE IF L.offnode_milli > 1000 THEN "not_kronecker_delta"
  ELSE IF L.shape_milli > 1000 THEN "operator_off_the_nodes_is_not_weight_times_basis_function"
  ELSE "ok"

VARIABLE l
Init == l = 1
Next == /\ l <= Len(TraceLog)
        /\ LET v == Judge(TraceLog[l]) IN IF v = "ok" THEN TRUE ELSE PrintT(<<"VERDICT", TraceLog[l].oid, v>>)
        /\ l' = l + 1
Spec == Init /\ [][Next]_l
Consumed == TLCGet("stats").diameter - 1
Accepted == PrintT(<<"CONSUMED", Consumed>>) /\ Consumed = Len(TraceLog)
=============================================================================
