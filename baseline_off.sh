#!/bin/sh
# Runs the repository's pinned baseline (guard OFF) and checks that every stable test still passes.
unset YADISM_VERIF
mkdir -p /verif/build
cd /repo || exit 2
NUMBA_DISABLE_JIT=${NUMBA_DISABLE_JIT:-} /venv/bin/python -m pytest -ra -q -p no:cacheprovider --timeout=900 --continue-on-collection-errors --hypothesis-seed=0 --junitxml=/verif/build/baseline.junit.xml >/verif/build/baseline.log 2>&1
rm -rf /repo/.hypothesis
/venv/bin/python - <<'PY'
import json, sys, xml.etree.ElementTree as ET
base = json.load(open("/root/.vp/BASELINE.json"))["stable_pass"]
t = ET.parse("/verif/build/baseline.junit.xml")
ok = set()
for tc in t.iter("testcase"):
    if not any(ch.tag in ("failure", "error", "skipped") for ch in tc):
        ok.add(f"{tc.get('classname')}::{tc.get('name')}")
missing = [b for b in base if b not in ok]
print(f"baseline: {len(base) - len(missing)}/{len(base)} stable tests pass")
for m in missing:
    print("  NOT PASSING:", m)
sys.exit(1 if missing else 0)
PY
