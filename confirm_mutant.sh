#!/bin/sh
# usage: confirm_mutant.sh <worktree> <mdir name e.g. m1> <prop> [name under seeded, default the mdir name]  -- confirms demo/test behaviour in the scratch worktree, then stores under /verif/seeded
wt="$1"; m="$2"; prop="$3"; dst="${4:-$2}"
cd "$wt" || exit 2
git checkout -q -- . ; rm -rf .hypothesis
run() { PYTHONPATH=$wt/src NUMBA_CACHE_DIR=/tmp/nbcache_confirm_$prop "$@"; }
passset() { run /venv/bin/python -m pytest -q -p no:cacheprovider --timeout=900 --continue-on-collection-errors --hypothesis-seed=0 -rA tests 2>/dev/null | grep '^PASSED' | sort > "$1"; rm -rf .hypothesis .coverage coverage.xml; git checkout -q -- . 2>/dev/null; }
[ -f /tmp/passset_base.txt ] || passset /tmp/passset_base.txt
run /venv/bin/python _mutants/$m/demo.py > /tmp/demo_clean.log 2>&1; d0=$?
git apply _mutants/$m/patch.diff || { echo "patch failed"; exit 2; }
run /venv/bin/python _mutants/$m/demo.py > /tmp/demo_mut.log 2>&1; d1=$?
run /venv/bin/python -m pytest -q -p no:cacheprovider --timeout=900 --continue-on-collection-errors --hypothesis-seed=0 -rA tests 2>/dev/null | grep '^PASSED' | sort > /tmp/passset_mut.txt
rm -rf .hypothesis .coverage; git checkout -q -- . ; git status --short | grep -v _mutants
same=no; cmp -s /tmp/passset_base.txt /tmp/passset_mut.txt && same=yes
nb=$(wc -l < /tmp/passset_base.txt); nm=$(wc -l < /tmp/passset_mut.txt)
echo "$prop/$m: demo clean exit=$d0, demo mutated exit=$d1, passing tests base=$nb mutated=$nm identical=$same"
if [ "$d0" = 0 ] && [ "$d1" != 0 ] && [ "$same" = yes ]; then
  d=/verif/seeded/$prop-$dst; mkdir -p $d; cp _mutants/$m/patch.diff _mutants/$m/demo.py _mutants/$m/notes.md $d/ 2>/dev/null
  echo "CONFIRMED -> $d"
else echo "NOT CONFIRMED"; fi
