#!/venv/bin/python
"""Runs every seeded change under /verif/seeded against the quick check of its property, each in a scratch worktree of /repo
under /tmp (removed afterwards), several at a time, and records the outcome in the change's meta.json ("detection").
usage: ./seeded_matrix.py [-j N] [id ...]        (never touches /repo's working tree)"""
import json, os, pathlib, shutil, subprocess, sys
from concurrent.futures import ThreadPoolExecutor

ROOT = pathlib.Path(__file__).resolve().parent


def one(mid):
    d = ROOT / "seeded" / mid
    prop = mid.split("-")[0]
    wt = pathlib.Path(f"/tmp/sm_{mid}")
    out = pathlib.Path(f"/tmp/sm_{mid}_out")
    subprocess.run(["git", "-C", "/repo", "worktree", "remove", "--force", str(wt)], capture_output=True)
    shutil.rmtree(out, ignore_errors=True)
    r = subprocess.run(["git", "-C", "/repo", "worktree", "add", "--detach", str(wt)], capture_output=True, text=True)
    if r.returncode:
        return mid, None, "worktree: " + r.stderr[-200:]
    try:
        r = subprocess.run(["git", "-C", str(wt), "apply", str(d / "patch.diff")], capture_output=True, text=True)
        if r.returncode:
            return mid, None, "patch does not apply: " + r.stderr[-200:]
        env = dict(os.environ, VERIF_REPO=str(wt), VERIF_OUT=str(out), VERIF_NCPU=os.environ.get("SM_NCPU", "8"))
        env.pop("VERIF_TREE_HASH", None)
        r = subprocess.run([str(ROOT / "vcheck"), prop, "quick"], capture_output=True, text=True, env=env)
        lines = r.stdout.splitlines()
        viol = [i for i, l in enumerate(lines) if l.startswith("VIOLATION")]
        first = lines[viol[0] + 1].strip()[:220] if viol and viol[0] + 1 < len(lines) else ""
        return mid, r.returncode, f"{prop} quick: exit {r.returncode}, {len(viol)} VIOLATION line(s); first: {first}" if r.returncode == 1 else \
            f"{prop} quick: exit {r.returncode} (NOT detected)" + ("" if r.returncode == 0 else " " + (r.stdout + r.stderr)[-300:])
    finally:
        subprocess.run(["git", "-C", "/repo", "worktree", "remove", "--force", str(wt)], capture_output=True)
        shutil.rmtree(out, ignore_errors=True)


def main():
    args = sys.argv[1:]
    j = 4
    if args[:1] == ["-j"]:
        j, args = int(args[1]), args[2:]
    ids = args or sorted(p.name for p in (ROOT / "seeded").iterdir() if (p / "patch.diff").exists())
    with ThreadPoolExecutor(max_workers=j) as ex:
        for mid, rc, msg in ex.map(one, ids):
            print(mid, "->", msg, flush=True)
            mf = ROOT / "seeded" / mid / "meta.json"
            if mf.exists() and rc is not None:
                m = json.loads(mf.read_text())
                m["detection"] = msg
                m["detected"] = rc == 1
                mf.write_text(json.dumps(m, indent=1))
    subprocess.run(["git", "-C", "/repo", "worktree", "prune"])


if __name__ == "__main__":
    main()
