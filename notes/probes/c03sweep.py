import adani
_orig=adani.HighScaleSplitLogs
def _compat(order,kind,channel,version="exact"):
    v={"exact":adani.HighScaleVersion.Exact,"gm":adani.HighScaleVersion.GM}[version] if isinstance(version,str) else version
    return _orig(order,kind,channel,v)
adani.HighScaleSplitLogs=_compat
import numpy as np, warnings, importlib, inspect, pkgutil, scipy.integrate as si
warnings.filterwarnings("ignore")
from yadism.coefficient_functions.partonic_channel import PartonicChannel, EmptyPartonicChannel, RSL
from yadism.coefficient_functions import splitting_functions as split
class E:
    def __init__(s,x,Q2): s.x=x; s.Q2=Q2
def residuals(rsl, xs):
    out=[]
    x0=1e-7
    if rsl.loc is None: return out
    l0=rsl.loc(x0,rsl.args["loc"])
    for x in xs:
        lx=rsl.loc(x,rsl.args["loc"])
        if rsl.sing is None:
            out.append((x,lx-l0,abs(l0)+1e-300)); continue
        f=lambda z: rsl.sing(z,rsl.args["sing"])
        S,_=si.quad(f,x0,x,epsabs=1e-12,epsrel=1e-12,limit=400)
        A,_=si.quad(lambda z:abs(f(z)),x0,x,epsabs=1e-10,epsrel=1e-10,limit=400)
        out.append((x,lx-l0+S,A+1e-300))
    return out
xs=[0.05,0.3,0.7,0.95]
found=[]
def check(tag,rsl):
    try:
        r=residuals(rsl,xs)
    except Exception as ex:
        found.append((tag,"EXC",repr(ex)[:50])); return
    if not r: return
    w=max(abs(res)/sc for x,res,sc in r)
    found.append((tag,"%.2e"%w, ["%.1e"%res for x,res,sc in r]))
for fam in ["light","heavy","asy","intrinsic"]:
    pkg=importlib.import_module(f"yadism.coefficient_functions.{fam}")
    for mi in pkgutil.iter_modules(pkg.__path__):
        if not (mi.name.endswith("_nc") or mi.name.endswith("_cc")): continue
        m=importlib.import_module(f"yadism.coefficient_functions.{fam}.{mi.name}")
        for name,cls in inspect.getmembers(m, inspect.isclass):
            if not issubclass(cls,PartonicChannel) or cls.__module__!=m.__name__: continue
            if issubclass(cls,EmptyPartonicChannel): continue
            for nf in [3,5]:
                e=E(0.1,30.0)
                try:
                    if fam=="light": pc=cls(e,nf)
                    elif fam=="heavy": pc=cls(e,nf,m2hq=2.25)
                    elif fam=="asy": pc=cls(e,nf,m2hq=2.25)
                    else:
                        pc=cls(e,nf,m1sq=2.25,m2sq=2.25) if mi.name.endswith("_nc") else cls(e,nf,m1sq=2.25)
                except TypeError as ex:
                    try: pc=cls(e,nf,m2hq=2.25,n3lo_cf_variation=0)
                    except Exception as ex2: found.append((f"{fam}.{mi.name}.{name}","INIT",repr(ex2)[:60])); break
                for o in range(4):
                    try: rsl=pc[o]()
                    except Exception as ex: found.append((f"{fam}.{mi.name}.{name}[{o}] nf{nf}","BUILD",repr(ex)[:50])); continue
                    if rsl is None: continue
                    check(f"{fam}.{mi.name}.{name}[{o}] nf{nf}",rsl)
for lab,fn in {**split.lo.raw_labels, **split.nlo.raw_labels}.items():
    for nf in [3,5]: check(f"split.{lab} nf{nf}", fn(nf))
vals=[f for f in found if f[1] not in ("EXC","INIT","BUILD")]
vals.sort(key=lambda t:-float(t[1]))
print("n rsl with loc:",len(vals))
for f in vals[:30]: print(f)
print("... smallest nonzero:", [f for f in vals if float(f[1])>0][-3:])
for f in found:
    if f[1] in ("EXC","INIT","BUILD"): print(f)
