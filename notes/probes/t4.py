# feasibility: drive ScaleVariations algebra with injected integer operators
import numpy as np
from eko import basis_rotation as br, beta
from yadism.esf import scale_variations as sv
from yadism.coefficient_functions import splitting_functions as split
print("ad basis", br.anomalous_dimensions_basis)
print("flavor pids", br.flavor_basis_pids)
P = br.ad_projectors(4, False)
print("projectors shape", np.array(P).shape)
class FakeInterp: pass
n=2
m = sv.ScaleVariations(order=2, interpolator=FakeInterp(), activate_ren=True, activate_fact=True)
rng=np.random.default_rng(0)
labels=[l for d in m.raw_labels for l in d]
print(labels)
for l in labels:
    m.operators[(l,4)] = rng.integers(-3,4,size=(n,n)).astype(float)
partons=np.zeros(14); partons[br.flavor_basis_pids.index(2)]=1; partons[br.flavor_basis_pids.index(-2)]=1
ker=[((0,0,0,0),(partons[:,None], np.array([[1.,2.]]), np.zeros((1,2)))), ((1,0,0,0),(partons[:,None], np.array([[3.,-1.]]), np.zeros((1,2))))]
c = m.apply_common_scale_variations(ker,4)
print([k for k,_ in c])
ker2 = ker + c
d = list(m.apply_diff_scale_variations(ker2,4))
print([k for k,_ in d])
print(beta.beta_qcd_as2(4), beta.beta_qcd_as3(4))
print(c[0][1][0].shape, c[0][1][1].shape)
