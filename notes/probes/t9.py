import numpy as np, warnings, copy
warnings.filterwarnings("ignore")
import yadism, yadism.log
yadism.log.silent_mode=True
from cards import *
from eko import basis_rotation as br
pids=list(br.flavor_basis_pids)
def maxrel(a,b):
    return max((np.max(np.abs(a.orders[o][0]-b.orders[o][0]))/(np.max(np.abs(a.orders[o][0]))+1e-300)) for o in a.orders)
k=[dict(x=0.05,Q2=20.0)]
# C07 FONLL parts
res={}
for parts in ["full","massless","massive"]:
    res[parts]=yadism.run_yadism(theory(PTO=2,PTODIS=2,FNS="FONLL-FFNS",NfFF=3,FONLLParts=parts), obs({"F2_total":k,"F2_charm":k}))
for n in ["F2_total","F2_charm"]:
    s=res["massless"][n][0]+res["massive"][n][0]
    print("FONLL parts", n, maxrel(res["full"][n][0], s))
# C13 NC(MZ=inf) vs EM
a=yadism.run_yadism(theory(PTO=1,PTODIS=1,MZ=float('inf')), obs({"F2_light":k,"F3_light":k},prDIS="NC"))
b=yadism.run_yadism(theory(PTO=1,PTODIS=1), obs({"F2_light":k,"F3_light":k},prDIS="EM"))
for n in ["F2_light","F3_light"]:
    print("NC(MZ=inf) vs EM", n, all(np.array_equal(a[n][0].orders[o][0], b[n][0].orders[o][0]) for o in a[n][0].orders))
# positron P vs electron -P
a=yadism.run_yadism(theory(PTO=1,PTODIS=1), obs({"F2_light":k,"F3_light":k},prDIS="NC",ProjectileDIS="positron",PolarizationDIS=0.3))
b=yadism.run_yadism(theory(PTO=1,PTODIS=1), obs({"F2_light":k,"F3_light":k},prDIS="NC",ProjectileDIS="electron",PolarizationDIS=-0.3))
for n in ["F2_light","F3_light"]:
    print("e+ P vs e- -P", n, all(np.array_equal(a[n][0].orders[o][0], b[n][0].orders[o][0]) for o in a[n][0].orders))
# C12 isospin
p=yadism.run_yadism(theory(PTO=1,PTODIS=1), obs({"F2_light":k},prDIS="NC",TargetDIS="proton"))
n_=yadism.run_yadism(theory(PTO=1,PTODIS=1), obs({"F2_light":k},prDIS="NC",TargetDIS="neutron"))
iu,idd=pids.index(2),pids.index(1)
for o in p["F2_light"][0].orders:
    P=p["F2_light"][0].orders[o][0]; N=n_["F2_light"][0].orders[o][0]
    print("neutron swap", o, np.max(np.abs(P[iu]-N[idd])), np.max(np.abs(P[idd]-N[iu])))
# g1 TMC kinds requested
from yadism import sf
orig=sf.StructureFunction.get_esf
seen=set()
def wrap(self, obs_name, kin, *a, **kw):
    seen.add((self.obs_name.name, obs_name.name)); return orig(self, obs_name, kin, *a, **kw)
sf.StructureFunction.get_esf=wrap
yadism.run_yadism(theory(PTO=0,PTODIS=0,TMC=3), obs({"g1_light":[dict(x=0.3,Q2=5.0)]},prDIS="NC"))
print("g1 TMC exact requests:", seen)
