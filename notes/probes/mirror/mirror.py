"""Throw-away Python mirror of the planned Kernels.tla tables (Appendix A.2), compared with the real Combiner."""
import numpy as np, itertools
QN="duscbt"
def ew_weight(cfg, q, typ):
    """textbook NC/EM weight for quark q and coupling type in {VV,AA,VA,AV} (validated separately)."""
    proc=cfg["process"]; proj=cfg["proj"]; s=cfg["s2w"]; pol=cfg["pol"]
    if cfg.get("pos") not in (None,"all"):
        if 1+QN.index(cfg["pos"][0])!=q: return 0.0
    ap=abs(proj); el=-1.0 if ap==11 else 0.0; T3l=-0.5 if ap==11 else 0.5
    gVe=T3l-2*el*s; gAe=T3l
    lam = -pol if (proj in (11,-12)) else pol       # code convention
    eta=(cfg["Q2"]/(cfg["MZ2"]+cfg["Q2"]))/(4*s*(1-s))/(1-cfg["delta"])
    e=2/3 if q%2==0 else -1/3; T3=0.5 if q%2==0 else -0.5
    qph={"V":e,"A":0.0}; qZ={"V":T3-2*e*s,"A":T3}
    a,b=typ
    if typ in ("VV","AA"):
        lpp=el*el; lpz=el*(gVe+lam*gAe); lzz=gVe**2+gAe**2+2*lam*gVe*gAe
    else:
        lpp=0.0; lpz=el*(gAe+lam*gVe); lzz=2*gVe*gAe+lam*(gVe**2+gAe**2)
    w=lpp*qph[a]*qph[b]
    if proc=="EM": return w
    return w+2*lpz*eta*qph[a]*qZ[b]+lzz*eta*eta*qZ[a]*qZ[b]
def fl11_weight(cfg,q,nf,typ):   # AS IMPLEMENTED (phZ uses the Z coupling twice, Zph the photon coupling twice)
    proc=cfg["process"]; proj=cfg["proj"]; s=cfg["s2w"]; pol=cfg["pol"]
    if proc=="CC": return 0.0
    if cfg.get("pos") not in (None,"all"):
        if 1+QN.index(cfg["pos"][0])!=q: return 0.0
    ap=abs(proj); el=-1.0 if ap==11 else 0.0; T3l=-0.5 if ap==11 else 0.5
    gVe=T3l-2*el*s; gAe=T3l
    lam = -pol if (proj in (11,-12)) else pol
    eta=(cfg["Q2"]/(cfg["MZ2"]+cfg["Q2"]))/(4*s*(1-s))/(1-cfg["delta"])
    def cp(p):
        e=2/3 if p%2==0 else -1/3; T3=0.5 if p%2==0 else -0.5
        return {"V":e,"A":0.0},{"V":T3-2*e*s,"A":T3}
    a,b=typ
    mph=np.mean([cp(p)[0][a] for p in range(1,nf+1)]); mz=np.mean([cp(p)[1][a] for p in range(1,nf+1)])
    lpp=el*el if typ in ("VV","AA") else 0.0
    lpz=el*(gVe+lam*gAe) if typ in ("VV","AA") else el*(gAe+lam*gVe)
    lzz=(gVe**2+gAe**2+2*lam*gVe*gAe) if typ in ("VV","AA") else (2*gVe*gAe+lam*(gVe**2+gAe**2))
    w=lpp*mph*cp(q)[0][b]
    if proc=="EM": return w
    return w+lpz*eta*(mz*cp(q)[1][b])+lpz*eta*(mph*cp(q)[0][b])+lzz*eta*eta*mz*cp(q)[1][b]
def ckm_masked(cfg, mask):
    m=np.array(cfg["ckm2"]).reshape(3,3); op=np.zeros((3,3))
    if "dus" in mask: op+=np.array([[1,1,0],[0,0,0],[0,0,0]])
    if "c" in mask: op+=np.array([[0,0,0],[1,1,0],[0,0,0]])
    if "b" in mask: op+=np.array([[0,0,1],[0,0,1],[0,0,0]])
    if "t" in mask: op+=np.array([[0,0,0],[0,0,0],[1,1,1]])
    return m*op
def wcc(cfg,q,mask):
    m=ckm_masked(cfg,mask)
    return 2*float(np.sum(m[[2,4,6].index(q)] if q%2==0 else m[:,[1,3,5].index(q)]))
def add(res,key,partons):
    d=res.setdefault(key,{})
    for p,w in partons.items(): d[p]=d.get(p,0.0)+w
def compat(cfg):
    fns=cfg["fns"]; nfff=cfg["nfff"]; k=list(cfg["kthr"]); zm=[True]*3
    if fns=="ZM-VFNS": pass
    elif fns.startswith("FONLL"):
        for i in range(3):
            if i+4<=nfff: k[i]=0.0; zm[i]=True
            elif i+4>nfff+1: k[i]=np.inf; zm[i]=True
            else: k[i]=np.inf; zm[i]=False
    else:
        for i in range(3):
            if i+4<=nfff: k[i]=0.0; zm[i]=True
            else: k[i]=np.inf; zm[i]=False
    thr=[m*m*kk*kk for m,kk in zip(cfg["masses"],k)]
    nf=3+sum(1 for t in thr if t<=cfg["Q2"])
    return nf,{4+i:(not zm[i]) for i in range(3)}
def mirror(cfg):
    kind=cfg["kind"]; flavor=cfg["flavor"]; proc=cfg["process"]; pc=("nc" if proc in ("EM","NC") else "cc")
    pv=kind in ("F3","gL","g4"); mod=f"{kind.lower()}_{pc}"
    nf,massive=compat(cfg); asy="FFN0" in cfg["fns"]; parts=cfg["parts"]; pto=cfg["pto"]; ptoe=cfg["pto_evol"]
    fam={"light":"light","total":"total"}.get(flavor,"heavy"); hq={"charm":4,"bottom":5,"top":6}.get(flavor,0)
    T=("VA","AV") if pv else ("VV","AA")
    W=lambda q: ew_weight(cfg,q,T[0])+ew_weight(cfg,q,T[1])
    rest=1 if cfg["proj"] in (-11,12) else 0
    res={}
    def light_nc_weights(skip=False):
        ns={}; tot=0
        for q in range(1,nf+1):
            if skip and q==nf: continue
            w=W(q); ns[q]=w; ns[-q]=-w if pv else w; tot+=w
        return ns,tot/nf
    def cc_even_odd(mask,norm):
        ev={};od={};tot=0
        for q in range(1,min(nf+2,7)):
            sg=1 if q%2==rest else -1; w=wcc(cfg,q,mask)
            if q<=nf:
                f=(sg if pv else 1)
                ev[sg*q]=w/2*f; ev[-sg*q]=w/2*f; od[sg*q]=w/2*f; od[-sg*q]=-w/2*f
            tot+=w
        return ev,od,tot/norm/2
    def cc_w(mask,nfl):
        ns={};tot=0
        for q in range(1,min(nfl+2,7)):
            sg=1 if q%2==rest else -1; w=wcc(cfg,q,mask)
            if q<=nfl: ns[sg*q]=(sg*w if pv else w)
            tot+=w
        if rest==0 and pv: tot*=-1
        return ns,tot/len(mask)/2
    def Light():
        if pc=="cc":
            ev,od,av=cc_even_odd(QN[:nf],nf)
            add(res,("light",mod,"NonSingletEven"),ev); add(res,("light",mod,"NonSingletOdd"),od)
            if pv: add(res,("light",mod,"Valence"),{s*q:s*av for q in range(1,nf+1) for s in (1,-1)})
            else:
                add(res,("light",mod,"Gluon"),{21:av}); add(res,("light",mod,"Singlet"),{s*q:av for q in range(1,nf+1) for s in (1,-1)})
            return
        ns,av=light_nc_weights()
        add(res,("light",mod,"NonSinglet"),ns)
        if pv: add(res,("light",mod,"Valence"),{s*q:s*av for q in range(1,nf+1) for s in (1,-1)})
        else:
            add(res,("light",mod,"Gluon"),{21:av}); add(res,("light",mod,"Singlet"),{s*q:av for q in range(1,nf+1) for s in (1,-1)})
            if pto==3:
                w11={q:fl11_weight(cfg,q,nf,"VV")+fl11_weight(cfg,q,nf,"AA") for q in range(1,nf+1)}
                add(res,("light",mod,"QuarkFL11"),{s*q:w11[q] for q in w11 for s in (1,-1)})
                add(res,("light",mod,"GluonFL11"),{21:sum(w11.values())/nf})
    def Missing(ihq):
        if pc=="cc": return
        if asy:
            ns,_=light_nc_weights(skip=True)
            for r in range(ptoe+1): add(res,("asy",mod,"Asy"+"N"*r+"LLNonSinglet"),ns)
        else:
            ns,_=light_nc_weights(); add(res,("heavy",mod,"NonSinglet"),ns)
    def SingleFlavorLight(ihq):
        if pc=="cc":
            ev,od,av=cc_even_odd(QN[ihq-1],1)
            add(res,("light",mod,"NonSingletEven"),ev); add(res,("light",mod,"NonSingletOdd"),od)
            if pv: raise KeyError("s")
            add(res,("light",mod,"Gluon"),{21:av/nf}); add(res,("light",mod,"Singlet"),{s*q:av/nf for q in range(1,nf+1) for s in (1,-1)})
            return
        w=W(ihq); add(res,("light",mod,"NonSinglet"),{ihq:w,-ihq:(-w if pv else w)})
        if pv: add(res,("light",mod,"Valence"),{s*q:s*w/nf for q in range(1,nf+1) for s in (1,-1)})
        else:
            add(res,("light",mod,"Gluon"),{21:w/nf}); add(res,("light",mod,"Singlet"),{s*q:w/nf for q in range(1,nf+1) for s in (1,-1)})
            if pto==3:
                w11=fl11_weight(cfg,ihq,nf,"VV")+fl11_weight(cfg,ihq,nf,"AA")
                add(res,("light",mod,"QuarkFL11"),{ihq:w11,-ihq:w11}); add(res,("light",mod,"GluonFL11"),{21:w11/nf})
    def Heavy(ihq):
        if pc=="cc":
            ns,g=cc_w(QN[ihq-1],nf)
            if asy: add(res,("asy",mod,"AsyQuark"),ns); add(res,("asy",mod,"AsyGluon"),{21:g})
            else: add(res,("heavy",mod,"NonSinglet"),ns); add(res,("heavy",mod,"Gluon"),{21:g})
            return
        if pv: return
        wv=ew_weight(cfg,ihq,"VV"); wa=ew_weight(cfg,ihq,"AA")
        if asy:
            for c,ch in (("g","Gluon"),("s","Singlet")):
                for r in range(ptoe+1):
                    for w in (wa,wv):
                        add(res,("asy",mod,"Asy"+"N"*r+"LL"+ch), {21:w} if c=="g" else {s*q:w for q in range(1,nf+1) for s in (1,-1)})
        else:
            add(res,("heavy",mod,"GluonVV"),{21:wv}); add(res,("heavy",mod,"GluonAA"),{21:wa})
            add(res,("heavy",mod,"SingletVV"),{s*q:wv for q in range(1,nf+1) for s in (1,-1)}); add(res,("heavy",mod,"SingletAA"),{s*q:wa for q in range(1,nf+1) for s in (1,-1)})
    def Intrinsic(ihq):
        if pc=="cc":
            ns,_=cc_w(QN[ihq-1],ihq); wq={k:v for k,v in ns.items() if abs(k)==ihq}
            if asy:
                names=["AsyLLIntrinsic"]+(["AsyNLLIntrinsicMatching","AsyNLLIntrinsicLight"] if ptoe>0 else [])
                for n in names: add(res,("asy",mod,n),wq)
            else: add(res,("intrinsic",mod,"Rplus" if pv else "Splus"),wq)
            return
        w1=ew_weight(cfg,ihq,T[0]); w2=ew_weight(cfg,ihq,T[1]); wp=w1+w2; wm=w1-w2
        sg=-1 if pv else 1
        if asy:
            names=["AsyLLIntrinsic"]+(["AsyNLLIntrinsicMatching","AsyNLLIntrinsicLight"] if ptoe>0 else [])
            for n in names: add(res,("asy",mod,n),{ihq:wp,-ihq:sg*wp})
        else:
            add(res,("intrinsic",mod,"Rplus" if pv else "Splus"),{ihq:wp,-ihq:sg*wp})
            add(res,("intrinsic",mod,"Rminus" if pv else "Sminus"),{ihq:wm,-ihq:sg*wm})
    if fam in ("light","total") and parts in ("massless","full"):
        Light()
        for ihq in range(nf+1,7):
            if massive[ihq]: Missing(ihq)
    if fam=="heavy" and parts in ("massless","full"):
        if hq<nf or (hq==nf and not massive[hq]): SingleFlavorLight(hq)
    if fam in ("heavy","total") and parts in ("massive","full"):
        for sfh in range(max(nf,4),7):
            if not massive[sfh]: continue
            if hq not in (0,sfh): continue
            Intrinsic(sfh); Heavy(sfh)
    # isospin, each kernel once
    Z,A=cfg["Z"],cfg["A"]
    for key,d in res.items():
        for s in (1,-1):
            u,dn=d.get(2*s,0.0),d.get(1*s,0.0)
            d[2*s]=(Z*u+(A-Z)*dn)/A; d[1*s]=(Z*dn+(A-Z)*u)/A
    return {k:{p:w for p,w in d.items() if w!=0} for k,d in res.items()}, nf
