import adani
_orig=adani.HighScaleSplitLogs
def _compat(order,kind,channel,version="exact"):
    v={"exact":adani.HighScaleVersion.Exact,"gm":adani.HighScaleVersion.GM}[version] if isinstance(version,str) else version
    return _orig(order,kind,channel,v)
adani.HighScaleSplitLogs=_compat
import numpy as np, itertools, warnings, collections, time, sys
warnings.filterwarnings("ignore")
from multiprocessing import Pool
from cards import *
from mirror import mirror
CKM=[0.9,0.4,0.1,0.3,0.8,0.5,0.2,0.35,0.7]
PROJ={"electron":11,"positron":-11,"neutrino":12,"antineutrino":-12}
TGT={"proton":(1.0,1.0),"iron":(23.403,49.618)}
def one(cell):
    (proc,proj,kind,flavor,(fns,nfff),parts,Q2,(pto,ptoe),tgt,pos)=cell
    import yadism, yadism.log; yadism.log.silent_mode=True
    from yadism import runner, coefficient_functions as cf
    th=theory(PTO=ptoe,PTODIS=pto,FNS=fns,NfFF=nfff,FONLLParts=parts,CKM=" ".join(map(str,CKM)),SIN2TW=0.3,MZ=90.0,mc=1.5,mb=4.5,mt=170.0,Q0=1.0)
    name=f"{kind}_{flavor}"
    ob=obs({name:[dict(x=0.1,Q2=Q2)]},n=6,deg=2,prDIS=proc,ProjectileDIS=proj,PolarizationDIS=0.4,PropagatorCorrection=0.1,TargetDIS=tgt,NCPositivityCharge=pos)
    cfg=dict(process=proc,proj=PROJ[proj],pol=0.4,s2w=0.3,MZ2=8100.0,delta=0.1,Q2=Q2,ckm2=[c*c for c in CKM],pos=pos,kind=kind,flavor=flavor,fns=fns,nfff=nfff,parts=parts,pto=pto,pto_evol=ptoe,Z=TGT[tgt][0],A=TGT[tgt][1],masses=[1.5,4.5,170.0],kthr=[1.0,1.0,1.0])
    try:
        r=runner.Runner(th,ob); e=r.observables[name].elements[0]
        comb=cf.Combiner(e); ks=comb.collect_elems()
        code={}
        for k in ks:
            key=(type(k.coeff).__module__.split(".")[-2],type(k.coeff).__module__.split(".")[-1],type(k.coeff).__name__)
            d=code.setdefault(key,{})
            for p,w in k.partons.items(): d[p]=d.get(p,0.0)+float(w)
        code={k:{p:w for p,w in d.items() if w!=0} for k,d in code.items()}
        cst="OK"; cnf=comb.nf
    except Exception as ex:
        code=None; cst=type(ex).__name__+":"+str(ex)[:40]; cnf=None
    try:
        mir,mnf=mirror(cfg); mst="OK"
    except Exception as ex:
        mir=None; mst=type(ex).__name__+":"+str(ex)[:40]; mnf=None
    if code is None or mir is None:
        return cell,("EXC",cst,mst)
    # drop classes that are Empty in code: emulate by removing mirror keys that do not appear in code AND whose class is an EmptyPartonicChannel
    import importlib
    from yadism.coefficient_functions.partonic_channel import EmptyPartonicChannel
    def is_empty(key):
        try:
            m=importlib.import_module(f"yadism.coefficient_functions.{key[0]}.{key[1]}"); return issubclass(getattr(m,key[2]),EmptyPartonicChannel)
        except Exception as ex: return "ERR:"+type(ex).__name__
    mir={k:v for k,v in mir.items() if v and is_empty(k) is not True}
    code={k:v for k,v in code.items() if v}
    if cnf!=mnf: return cell,("NF",cnf,mnf)
    if set(code)!=set(mir): return cell,("KEYS",sorted(set(code)-set(mir)),sorted(set(mir)-set(code)))
    worst=0
    for k in code:
        if set(code[k])!=set(mir[k]): return cell,("PIDS",k,sorted(set(code[k])^set(mir[k])))
        for p in code[k]: worst=max(worst,abs(code[k][p]-mir[k][p])/(abs(mir[k][p])+1e-300))
    return cell,("OK" if worst<1e-11 else "W",worst)
if __name__=="__main__":
    cells=[]
    for proc,kind in itertools.product(["EM","NC","CC"],["F2","FL","F3","g1","gL","g4"]):
        if proc=="CC" and kind.startswith("g"): continue
        for proj in (["electron","positron"] if proc!="CC" else ["neutrino","antineutrino","positron"]):
            for flavor in ["light","total","charm","bottom","top"]:
                for sch in [("ZM-VFNS",3),("FFNS",3),("FFNS",4),("FFNS",5),("FFN0",3),("FFN0",4),("FONLL-FFNS",3),("FONLL-FFNS",4),("FONLL-FFN0",3)]:
                    for parts in (["full","massless","massive"] if sch[0].startswith("FONLL") else ["full"]):
                        for Q2 in [1.5,30.0,1e5]:
                            for ptos in [(1,1),(2,3),(3,2)]:
                                for tgt,pos in [("proton",None),("iron","up" if proc!="CC" else None)]:
                                    cells.append((proc,proj,kind,flavor,sch,parts,Q2,ptos,tgt,pos))
    print(len(cells)); t0=time.time()
    with Pool(16) as p: res=p.map(one,cells,chunksize=20)
    print("wall",time.time()-t0)
    c=collections.Counter(r[1][0] for r in res); print(c)
    shown=collections.Counter()
    for cell,r in res:
        if r[0]!="OK":
            sig=(r[0],)+tuple(str(x)[:90] for x in r[1:]) 
            shown[sig]+=1
    for sig,n in shown.most_common(40): print(n,sig)
    import json; json.dump([(c,r) for c,r in res if r[0]!="OK"],open("bad.json","w"),default=str)
