import adani
_orig=adani.HighScaleSplitLogs
def _compat(order,kind,channel,version="exact"):
    v={"exact":adani.HighScaleVersion.Exact,"gm":adani.HighScaleVersion.GM}[version] if isinstance(version,str) else version
    return _orig(order,kind,channel,v)
adani.HighScaleSplitLogs=_compat
exec(open("t16.py").read())
