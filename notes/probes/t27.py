import numpy as np, warnings
warnings.filterwarnings("ignore")
import yadism, yadism.log
yadism.log.silent_mode=True
from cards import *
from eko import basis_rotation as br
pids=list(br.flavor_basis_pids)
light=[pids.index(p) for p in (21,1,-1,2,-2,3,-3)]
mc=1.5  # m2=2.25, 4m2=9
# x=0.5 -> (1-x)/x=1 : threshold Q2=9 ; x=0.25 -> 3 : Q2=3
for x,Q2s in [(0.5,[np.nextafter(9.0,0),9.0,np.nextafter(9.0,10),9.5]),(0.25,[3.0,np.nextafter(3.0,4),3.2])]:
    for pto in [1,2]:
        out=yadism.run_yadism(theory(PTO=pto,PTODIS=pto,FNS="FFNS",NfFF=3,mc=mc,Q0=1.0), obs({"F2_charm":[dict(x=x,Q2=float(q)) for q in Q2s],"FL_charm":[dict(x=x,Q2=float(q)) for q in Q2s]},prDIS="NC"))
        for n in ["F2_charm","FL_charm"]:
            row=[]
            for r in out[n]:
                m=max(np.max(np.abs(v[light])) for o,(v,e) in r.orders.items())
                row.append("%.3e"%m)
            print("x",x,"pto",pto,n,"Q2",["%.17g"%q for q in Q2s],"max|light rows|",row)
# CC: chi = x(1+m2/Q2) ; x=0.5,m2=2.25,Q2=2.25 -> chi=1.0 ; Q2=4.5 -> chi=0.75
out=yadism.run_yadism(theory(PTO=1,PTODIS=1,FNS="FFNS",NfFF=3,mc=mc,Q0=1.0), obs({"F2_charm":[dict(x=0.5,Q2=q) for q in [2.0,2.25,2.5,4.5]]},prDIS="CC",ProjectileDIS="neutrino"))
for r in out["F2_charm"]:
    print("CC x=0.5 Q2",r.Q2,"chi",0.5*(1+2.25/r.Q2),"max|light rows|","%.3e"%max(np.max(np.abs(v[light])) for o,(v,e) in r.orders.items()))
