import numpy as np
from eko import basis_rotation as br
ads=br.anomalous_dimensions_basis
for nf in [3,4]:
    P=np.array(br.ad_projectors(nf, False))
    idx={a:i for i,a in enumerate(ads)}
    print("nf",nf)
    def name(a): return {(100,100):"qq",(100,21):"qg",(21,100):"gq",(21,21):"gg",(10201,0):"ns+",(10101,0):"ns-",(10200,0):"nsV"}.get(a,str(a))
    # products
    for a in ads:
        for b in ads:
            M=P[idx[a]]@P[idx[b]]
            if np.allclose(M,0): continue
            # identify as multiple of some projector
            hit=[(name(c), float(np.sum(M*P[idx[c]])/np.sum(P[idx[c]]**2))) for c in ads if np.allclose(M, np.sum(M*P[idx[c]])/np.sum(P[idx[c]]**2)*P[idx[c]])]
            print("  ",name(a),"*",name(b),"=",hit if hit else "other (rank %d)"%np.linalg.matrix_rank(M))
    S=sum(P[idx[a]] for a in [(100,100),(21,21),(10201,0),(10101,0),(10200,0)])
    print("  sum diag projectors == identity on active:", np.round(np.diag(S),3), "offdiag max", np.abs(S-np.diag(np.diag(S))).max())
