import numpy as np, warnings
warnings.filterwarnings("ignore")
import yadism, yadism.log
yadism.log.silent_mode=True
from cards import *
class Toy:
    def hasFlavor(self,pid): return pid in (21,1,2,-1,-2,3,-3)
    def xfxQ2(self,pid,x,Q2): return (x**0.5)*(1-x)**3*(1+0.1*abs(pid))*(1+0.01*np.log(Q2))
k=[dict(x=0.05,Q2=20.0)]
for fns,nf in [("ZM-VFNS",4),("FFNS",3),("FONLL-FFNS",3)]:
    t=theory(PTO=2,PTODIS=2,FNS=fns,NfFF=nf,XIR=2.0,XIF=0.5)
    out=yadism.run_yadism(t, obs({"F2_total":k}))
    try:
        print(fns, out.apply_pdf(Toy()))
    except Exception as e:
        import traceback; traceback.print_exc()
