# feasibility: drive real compute_local with stubbed kernels/convolutions and injected SV operators
import numpy as np, warnings
warnings.filterwarnings("ignore")
import yadism, yadism.log
yadism.log.silent_mode=True
from cards import *
from yadism import runner, coefficient_functions as cf
from yadism.coefficient_functions import kernels as K
from yadism.coefficient_functions.partonic_channel import RSL, PartonicChannel
from yadism.esf import conv, esf as esfmod
from eko import basis_rotation as br
o=obs({"F2_light":[dict(x=0.1,Q2=10.0)]}, n=4, deg=1)
n=len(o["interpolation_xgrid"])
r=runner.Runner(theory(PTO=2,PTODIS=2), o)
e=r.observables["F2_light"].elements[0]
svm=r.configs.managers["sv_manager"]
T=lambda a,b: np.array([[a if i==j else (b if i==j+1 else 0) for j in range(n)] for i in range(n)],float)
labels=[l for d in svm.raw_labels for l in d]
for i,l in enumerate(labels): svm.operators[(l,4)]=T(i+1,2*i-3)
class FakeNonSinglet(PartonicChannel):
    tag=None
    def LO(self): return RSL.from_delta(1.0)
    def NLO(self): return RSL.from_delta(2.0)
    def NNLO(self): return RSL.from_delta(3.0)
class FakeGluon(FakeNonSinglet): pass
fake={ ("FakeNonSinglet",0):[1,0,2,0][:n], ("FakeNonSinglet",1):[3,1,0,0][:n], ("FakeNonSinglet",2):[0,2,5,0][:n],
       ("FakeGluon",0):None, ("FakeGluon",1):[1,1,1,0][:n], ("FakeGluon",2):[2,0,0,1][:n]}
state={}
def fake_collect(self):
    return [K.Kernel({2:4.0,-2:4.0,1:1.0,-1:1.0}, FakeNonSinglet(self.esf,self.nf)), K.Kernel({21:5.0}, FakeGluon(self.esf,self.nf))]
def fake_convolve_vector(rsl, interp, x):
    d=float(rsl.args["loc"][0]); cls=state["cls"]
    return np.array(fake[(cls,int(d)-1)],float)/x, np.zeros(n)   # divide by x: code multiplies by conv point
cf.Combiner.collect_elems=fake_collect
orig=conv.convolve_vector
# need to know which kernel: patch RSL creation order via class name captured in coeff call
for C in (FakeNonSinglet,FakeGluon):
    for m in ("LO","NLO","NNLO"):
        def mk(m=m,C=C):
            f=getattr(C,m)
            def g(self): state["cls"]=C.__name__; return f(self)
            return g
        setattr(C,m,mk())
# decorator captured bound methods at __init__, so patch before instantiation (done: classes patched before fake_collect call)
conv.convolve_vector=fake_convolve_vector
esfmod.conv.convolve_vector=fake_convolve_vector
FakeGluon.LO=lambda self: None
res=e.get_result()
for k in sorted(res.orders):
    v=res.orders[k][0]
    print(k, "u:",v[br.flavor_basis_pids.index(2)], "g:",v[br.flavor_basis_pids.index(21)], "s:", v[br.flavor_basis_pids.index(3)])
