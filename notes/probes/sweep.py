import itertools, sys, os, json, warnings, collections, time
warnings.filterwarnings("ignore")
import numpy as np
from multiprocessing import Pool
from cards import *
KINDS=["F2","FL","F3","g1","gL","g4"]; HEAVY=["light","total","charm","bottom","top"]
def run(cell):
    kind,hv,proc,scheme,nfff,pto,tmc=cell
    import yadism, yadism.log
    yadism.log.silent_mode=True
    proj="neutrino" if proc=="CC" else "electron"
    name=f"{kind}_{hv}"
    kins=[dict(x=0.1,Q2=30.0),dict(x=0.3,Q2=3.0)]
    try:
        out=yadism.run_yadism(theory(PTO=pto,PTODIS=pto,FNS=scheme,NfFF=nfff,TMC=tmc), obs({name:kins},n=8,deg=3,prDIS=proc,ProjectileDIS=proj))
        fin=all(np.all(np.isfinite(v)) and np.all(np.isfinite(e)) for r in out[name] for (v,e) in r.orders.values())
        return cell,("OK" if fin else "NONFINITE"),""
    except Exception as ex:
        import traceback
        tb=traceback.extract_tb(ex.__traceback__)[-1]
        return cell,type(ex).__name__,f"{str(ex)[:60]} @ {os.path.basename(tb.filename)}:{tb.lineno}"
if __name__=="__main__":
    cells=list(itertools.product(KINDS,HEAVY,["EM","NC","CC"],["ZM-VFNS","FFNS","FFN0","FONLL-FFNS","FONLL-FFN0"],[3,4],[0,1,2],[0,1]))
    print(len(cells)); t0=time.time()
    with Pool(16) as p: res=p.map(run,cells,chunksize=8)
    print("wall",time.time()-t0)
    c=collections.Counter((r[1],r[2]) for r in res)
    for k,v in c.most_common(): print(v,k)
    json.dump(res,open("/tmp/probe/sweep.json","w"))
