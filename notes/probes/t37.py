import numpy as np, warnings, collections
warnings.filterwarnings("ignore")
import yadism, yadism.log
yadism.log.silent_mode=True
from cards import *
from yadism import sf, runner
orig=sf.StructureFunction.get_esf
log=[]
def wrap(self, obs_name, kin, *a, use_raw=True, force_local=False):
    before=set(self.cache.keys()) if obs_name==self.obs_name else None
    r=orig(self, obs_name, kin, *a, use_raw=use_raw, force_local=force_local)
    if before is not None:
        new=set(self.cache.keys())-before
        log.append((self.obs_name.name, tuple(kin.keys()), "node" if list(kin.keys())[0]=="Q2" else ("x=%.3f"%kin["x"]), use_raw, "miss" if new else "hit", type(r).__name__))
    return r
sf.StructureFunction.get_esf=wrap
xg=[0.05,0.2,0.5,1.0]
for kind in ["F2","FL","F3","g1"]:
    for tmc in [1,2,3]:
        log.clear()
        r=runner.Runner(theory(PTO=0,PTODIS=0,TMC=tmc), obs({kind+"_light":[dict(x=0.3,Q2=5.0)]},xgrid=xg,deg=1,prDIS="NC"))
        n0=len(log); r.get_result()
        c=collections.Counter((e[0],e[1],("node" if e[2]=="node" else "pt"),e[3],e[5]) for e in log[n0:])
        print(kind,"TMC",tmc,"load:",[(e[0],e[3],e[4],e[5]) for e in log[:n0]],"| eval:",dict(c))
log.clear()
r=runner.Runner(theory(PTO=0,PTODIS=0,TMC=0), obs({"XSHERANC":[dict(x=0.3,Q2=5.0,y=0.4)],"XSHERANCAVG":[dict(x=0.3,Q2=5.0,y=0.4)]},xgrid=xg,deg=1,prDIS="NC"))
r.get_result(); print("XS:",[(e[0],e[1],e[3],e[4],e[5]) for e in log], "observables now:",list(r.observables))
