from fractions import Fraction as F
import itertools
mx=0
def track(*vals):
    global mx
    for v in vals: mx=max(mx,abs(v.numerator),abs(v.denominator))
for s,r,D,pol,proj in itertools.product([F(1,2),F(1,4),F(1,8),F(3,8)],[F(0),F(1,2),F(1,5),F(2,3)],[F(0),F(1,2),F(-1,4)],[F(-1),F(-1,2),F(0),F(1,3),F(1)],[11,-11,12,-12]):
    eta=r/(4*s*(1-s))/(1-D)
    elep=-1 if abs(proj)==11 else 0
    T3l=F(-1,2) if abs(proj)==11 else F(1,2)
    v=T3l-2*elep*s; a=T3l
    p=pol if proj in (-11,12) else -pol
    for q in range(1,7):
        e=F(2,3) if q%2==0 else F(-1,3); T3=F(1,2) if q%2==0 else F(-1,2)
        gv=T3-2*e*s; ga=T3
        # VV+AA
        w=elep**2*e*e + 2*elep*(v+p*a)*eta*e*gv + (v*v+a*a+2*p*v*a)*eta*eta*(gv*gv+ga*ga)
        # VA+AV
        w3=2*elep*(a+p*v)*eta*(e*ga) + (2*v*a+p*(v*v+a*a))*eta*eta*(2*gv*ga)
        track(eta,eta*eta,w,w3, (v*v+a*a+2*p*v*a)*eta*eta, gv*gv+ga*ga)
print("max int", mx, 2**31)
