import numpy as np, warnings
warnings.filterwarnings("ignore")
import yadism, yadism.log
yadism.log.silent_mode=True
from cards import *
from eko import basis_rotation as br, beta
pids=list(br.flavor_basis_pids)
mc,kc=1.5,2.0   # (m k)^2 = 9 exactly
Q2s=[np.nextafter(9.0,0),9.0,np.nextafter(9.0,10)]
for fns,nfff in [("ZM-VFNS",3),("FFNS",3),("FFNS",4),("FONLL-FFNS",3),("FONLL-FFNS",4)]:
    out=yadism.run_yadism(theory(PTO=2,PTODIS=2,FNS=fns,NfFF=nfff,mc=mc,kcThr=kc,mb=4.5,kbThr=1.0,Q0=1.0), obs({"F2_light":[dict(x=0.1,Q2=float(q)) for q in Q2s]},prDIS="EM"))
    row=[]
    for r in out["F2_light"]:
        A=r.orders[(1,0,0,0)][0]; B=r.orders[(2,0,1,0)][0]
        m=np.abs(A)>1e-8
        ratio=np.median(B[m]/A[m])
        nf_b=[n for n in (3,4,5,6) if abs(-beta.beta_qcd_as2(n)-ratio)<1e-9]
        lo_rows=[p for p in (1,2,3,4,5,6) if np.any(r.orders[(0,0,0,0)][0][pids.index(p)]!=0)]
        row.append((nf_b,lo_rows))
    print(fns,nfff,row)
