"""Exact RGE identity on the scale-variation tables (sector level, singlet 2x2 channel space), Fractions."""
from fractions import Fraction as F
from math import comb
import itertools, random
def vm(v,M): return (v[0]*M[0][0]+v[1]*M[1][0], v[0]*M[0][1]+v[1]*M[1][1])   # row vector times matrix
def mm(A,B): return [[sum(A[i][k]*B[k][j] for k in range(2)) for j in range(2)] for i in range(2)]
def ma(A,B,s=1): return [[A[i][j]+s*B[i][j] for j in range(2)] for i in range(2)]
def ms(c,A): return [[c*A[i][j] for j in range(2)] for i in range(2)]
I2=[[F(1),F(0)],[F(0),F(1)]]
def addp(p,key,v,s=1):
    o=p.get(key,(F(0),F(0))); p[key]=(o[0]+s*v[0],o[1]+s*v[1])
def tables(pto,nf,c,P0,P1,ren=True,fact=True):
    b0=F(11)-F(2,3)*nf; b1=F(102)-F(38,3)*nf
    qrow=lambda M:[[M[0][0],M[0][1]],[F(0),F(0)]]       # gluon rows empty (c0 has no gluon)
    fm={}
    if pto>=1: fm[(1,1,0)]=qrow(P0)
    if pto>=2:
        fm[(2,1,0)]=qrow(P1); fm[(2,1,1)]=ma(P0,ms(b0,I2),-1)
        fm[(2,2,0)]=qrow(ms(F(1,2),ma(mm(P0,P0),ms(b0,P0),-1)))
    rc={k:v for k,v in {(2,1,1):b0,(3,1,2):2*b0,(3,1,1):b1,(3,2,1):b0*b0}.items() if k[0]<=pto}
    out={}
    base=[((o,0,0),c[o]) for o in range(pto+1)]
    common=[]
    if fact:
        for (o,_,_),v in base:
            for (t,lnf,src),M in fm.items():
                if src==o: common.append(((t,0,lnf),vm(v,M)))
    allk=base+common
    diff=[]
    if ren or fact:
        for (o,_,lnf),v in allk:
            for (t,n2,src),r in rc.items():
                if src==o:
                    for j in range(n2+1):
                        key=(t,j,n2-j+lnf)
                        if not ren and key[1]!=0: continue
                        if not fact and key[2]!=0: continue
                        diff.append((key,(comb(n2,j)*(-1)**j*r*v[0],comb(n2,j)*(-1)**j*r*v[1])))
    for k,v in allk+diff: addp(out,k,v)
    return out,b0,b1
def d_tR(C,b0,b1,pto):
    D={}
    for (k,i,j),v in C.items():
        if i>0: addp(D,(k,i-1,j),(i*v[0],i*v[1]))
        if k>0:
            addp(D,(k+1,i,j),(k*b0*v[0],k*b0*v[1])); addp(D,(k+2,i,j),(k*b1*v[0],k*b1*v[1]))
    return {key:v for key,v in D.items() if key[0]<=pto and v!=(0,0)}
def d_tF(C,b0,b1,P0,P1,pto):
    D={}
    # aF = a + b0 a^2 (tF - tR) + a^3 [ b0^2 (tF-tR)^2 + b1 (tF - tR) ]  ; need aF and aF^2 through a^pto (pto<=2): aF^2 = a^2 + ...
    aF={(1,0,0):F(1),(2,0,1):b0,(2,1,0):-b0}
    aF2={(2,0,0):F(1)}
    for (k,i,j),v in C.items():
        if j>0: addp(D,(k,i,j-1),(j*v[0],j*v[1]))
        for (ka,ia,ja),ca in aF.items():
            w=vm(v,P0); addp(D,(k+ka,i+ia,j+ja),(ca*w[0],ca*w[1]),-1)
        for (ka,ia,ja),ca in aF2.items():
            w=vm(v,P1); addp(D,(k+ka,i+ia,j+ja),(ca*w[0],ca*w[1]),-1)
    return {key:v for key,v in D.items() if key[0]<=pto and v!=(0,0)}
random.seed(3); ok=True; n=0
for trial in range(16):
    R=lambda: F(random.randint(-4,4))
    P0=[[R(),R()],[R(),R()]]; P1=[[R(),R()],[R(),R()]]
    c={0:(R(),F(0)),1:(R(),R()),2:(R(),R()),3:(R(),R())}
    for nf in (3,4,5,6):
        for pto in (1,2,3):
            C,b0,b1=tables(pto,nf,c,P0,P1)
            r=d_tR(C,b0,b1,pto); n+=1
            if r: ok=False; print("muR residual",pto,nf,r)
            if pto<=2:
                f=d_tF(C,b0,b1,P0,P1,pto)
                if f: ok=False; print("muF residual",pto,nf,f)
            # switch-off
            for ren,fact in ((True,False),(False,True),(False,False)):
                C2,_,_=tables(pto,nf,c,P0,P1,ren,fact)
                for key,v in C.items():
                    off=(not ren and key[1]>0) or (not fact and key[2]>0)
                    if off: assert C2.get(key,(0,0))==(0,0) or key not in C2,(key)
                    else: assert C2.get(key,(F(0),F(0)))==v,(ren,fact,key)
print("instances",n,"RGE identities hold exactly:",ok)
