"""Throw-away: (1) mirror of the scale-variation tables vs the real compute_local with injected integer operators;
   (2) exact RGE identity on the tables (sector level) with Fractions."""
import numpy as np, warnings, itertools
from fractions import Fraction as F
warnings.filterwarnings("ignore")
import yadism, yadism.log
yadism.log.silent_mode=True
from cards import *
from yadism import runner, coefficient_functions as cf
from yadism.coefficient_functions import kernels as K
from yadism.coefficient_functions.partonic_channel import RSL, PartonicChannel
from yadism.esf import conv, esf as esfmod
from eko import basis_rotation as br, beta
pids=list(br.flavor_basis_pids)
AD=list(br.anomalous_dimensions_basis)
NSP,NSM,NSV=br.non_singlet_pids_map["ns+"],br.non_singlet_pids_map["ns-"],br.non_singlet_pids_map["nsV"]
def toeplitz(n,vals):
    return np.array([[vals[i-j] if 0<=i-j<len(vals) else 0 for j in range(n)] for i in range(n)],float)
def run_code(pto,nf,ops,kern,ren=True,fact=True,intrinsic=False):
    """kern: list of (partons dict, {order: int vector})"""
    xg=[0.1,0.3,0.6,1.0]; n=len(xg)
    Q2={3:2.0,4:10.0,5:50.0}[nf]
    o=obs({"F2_light":[dict(x=0.3,Q2=Q2)]},xgrid=xg,deg=1)
    r=runner.Runner(theory(PTO=pto,PTODIS=pto,RenScaleVar=ren,FactScaleVar=fact,mc=1.5,mb=4.5,Q0=1.0), o)
    e=r.observables["F2_light"].elements[0]
    svm=r.configs.managers["sv_manager"]
    for l,M in ops.items(): svm.operators[(l,nf)]=M
    state={}
    class Base(PartonicChannel): pass
    classes=[]
    for i,(partons,vecs) in enumerate(kern):
        nm=("Intrinsic%d" if intrinsic else "NonSinglet%d")%i
        C=type(nm,(Base,),{})
        for order,mname in enumerate(["LO","NLO","NNLO","N3LO"]):
            def mk(order=order,i=i):
                def g(self):
                    if order not in kern[i][1]: return None
                    state["cur"]=(i,order); return RSL.from_delta(1.0)
                return g
            setattr(C,mname,mk())
        classes.append(C)
    def fake_collect(self): return [K.Kernel(dict(kern[i][0]), classes[i](self.esf,self.nf)) for i in range(len(kern))]
    def fake_cv(rsl,interp,x):
        i,order=state["cur"]; return np.array(kern[i][1][order],float)/x, np.zeros(n)
    oc,ov=cf.Combiner.collect_elems,esfmod.conv.convolve_vector
    cf.Combiner.collect_elems=fake_collect; esfmod.conv.convolve_vector=fake_cv
    try: res=e.get_result()
    finally: cf.Combiner.collect_elems=oc; esfmod.conv.convolve_vector=ov
    assert cf.Combiner(e).nf==nf
    return {k:v[0] for k,v in res.orders.items()}
def mirror(pto,nf,ops,kern,ren=True,fact=True,intrinsic=False):
    n=len(next(iter(ops.values())))
    b0=beta.beta_qcd_as2(nf); b1=beta.beta_qcd_as3(nf)
    P=np.array(br.ad_projectors(nf,False)); I=np.eye(n); Z=np.zeros((n,n))
    def sec(d): return {ad:d.get(ad,Z) for ad in AD}
    def lo(f,glu):
        d={(NSP,0):f("P_qq_0"),(NSM,0):f("P_qq_0"),(NSV,0):f("P_qq_0"),(100,100):f("P_qq_0"),(100,21):f("P_qg_0")}
        if glu: d[(21,100)]=f("P_gq_0"); d[(21,21)]=f("P_gg_0")
        return d
    fm={}
    if pto>=1: fm[(1,1,0)]=sec(lo(lambda l:ops[l],False))
    if pto>=2:
        fm[(2,1,0)]=sec({(NSP,0):ops["P_nsp_1"],(NSM,0):ops["P_nsm_1"],(NSV,0):ops["P_nsm_1"],(100,100):ops["P_qq_1"],(100,21):ops["P_qg_1"]})
        fm[(2,1,1)]=sec(lo(lambda l: ops[l]-(0 if l in("P_gq_0","P_qg_0") else b0*I),True))
        ns=0.5*(ops["P_qq_0^2"]-b0*ops["P_qq_0"])
        fm[(2,2,0)]=sec({(NSP,0):ns,(NSM,0):ns,(NSV,0):ns,(100,100):0.5*(ops["P_qq_0^2"]+ops["P_qg_0P_gq_0"]-b0*ops["P_qq_0"]),(100,21):0.5*(ops["P_qq_0P_qg_0"]+ops["P_qg_0P_gg_0"]-b0*ops["P_qg_0"])})
    rc={k:v for k,v in {(2,1,1):b0,(3,1,2):2*b0,(3,1,1):b1,(3,2,1):b0**2}.items() if k[0]<=pto}
    from math import comb
    out={}
    def acc(key,ten): out[key]=out.get(key,0)+ten
    for partons,vecs in kern:
        v=np.array([partons.get(p,0.0) for p in pids])
        terms=[((o,0,0,0),(v,np.array(c,float))) for o,c in sorted(vecs.items()) if o<=pto]
        common=[]
        if fact and not intrinsic:
            for (o,_,_,_),(vv,c) in terms:
                for (t,lnf,src),secs in fm.items():
                    if src==o:
                        ten=sum(np.outer(vv@P[i],secs[ad]@c) for i,ad in enumerate(AD))
                        common.append(((t,0,0,lnf),ten))
        base=[(k,np.outer(vv,c)) for k,(vv,c) in terms]
        allk=base+common
        diff=[]
        if ren or fact:
            for (o,q,_,lnf),ten in allk:
                for (t,n2,src),rcf in rc.items():
                    if src==o:
                        for j in range(n2+1):
                            key=(t,q,j,n2-j+lnf)
                            if not ren and key[2]!=0: continue
                            if (not fact or intrinsic) and key[3]!=0: continue
                            diff.append((key,comb(n2,j)*(-1)**j*rcf*ten))
        for k,ten in allk+diff: acc(k,ten)
    return out
def build_orders(pto): return [(a,0,r,f) for a in range(pto+1) for f in range(a+1) for r in range(max(a,1))]
if __name__=="__main__":
    rng=np.random.default_rng(1); n=4; worst=0; cnt=0
    labels=["P_qq_0","P_qg_0","P_gq_0","P_gg_0","P_qq_1","P_qg_1","P_nsp_1","P_nsm_1","P_qq_0^2","P_qg_0P_gq_0","P_qq_0P_qg_0","P_qg_0P_gg_0"]
    for pto,nf,(ren,fact),intr in itertools.product([1,2,3],[3,4,5],[(True,True),(True,False),(False,True),(False,False)],[False,True]):
        ops={l:toeplitz(n,list(rng.integers(-3,4,size=3))) for l in labels}
        kern=[({2:4.0,-2:4.0,1:1.0,-1:1.0,3:1.0,-3:1.0},{0:[1,0,2,0],1:[3,1,0,-1],2:[0,2,5,1],3:[1,1,1,1]}),
              ({21:5.0},{1:[1,1,1,0],2:[2,0,0,1],3:[0,3,0,0]}),
              ({2:2.0,-2:-2.0,1:-1.0,-1:1.0},{0:[2,1,0,0],1:[0,1,0,2],2:[1,0,0,0]})]
        if intr: kern=[({4:3.0,-4:3.0},{0:[1,0,2,0],1:[3,1,0,-1]})]
        code=run_code(pto,nf,ops,kern,ren,fact,intr); mir=mirror(pto,nf,ops,kern,ren,fact,intr)
        assert set(code)==set(build_orders(pto)),(set(code)^set(build_orders(pto)))
        for k in code:
            m=mir.get(k,np.zeros_like(code[k])); d=np.max(np.abs(code[k]-m)); worst=max(worst,d/(np.max(np.abs(m))+1)); cnt+=1
            if d>1e-9*(np.max(np.abs(m))+1): print("MISMATCH",pto,nf,ren,fact,intr,k,d)
    print("compared",cnt,"tensors; worst rel",worst)
