import numpy as np, io
exec(open("t34.py").read().split("for sname,shape in shapes.items():")[0])
o=mk(shapes["esf1"],[1.0]*12)
l1=Output.load_yaml(io.StringIO(o.dump_yaml()))
print("cycle1 ok; xgrid grid type", type(l1["xgrid"]["grid"]))
s2=l1.dump_yaml()
print([l for l in s2.splitlines() if "!!" in l][:3])
try: Output.load_yaml(io.StringIO(s2)); print("cycle2 ok")
except Exception as e: print("cycle2", type(e).__name__, str(e)[:120])
# tar then yaml, yaml then tar
import tempfile, pathlib
with tempfile.TemporaryDirectory() as d:
    p=pathlib.Path(d)/"o.tar"; o.dump_tar(p); t1=Output.load_tar(p)
    print("tar-loaded xgrid type", type(t1["xgrid"]), type(t1["xgrid"]["grid"]) if isinstance(t1["xgrid"],dict) else None, "pids", type(t1["pids"]))
    try: Output.load_yaml(io.StringIO(t1.dump_yaml())); print("tar->yaml ok")
    except Exception as e: print("tar->yaml", type(e).__name__, str(e)[:100])
    try: l1.dump_tar(p); Output.load_tar(p); print("yaml->tar ok")
    except Exception as e: print("yaml->tar", type(e).__name__, str(e)[:100])
