import numpy as np, warnings, scipy.integrate as si
warnings.filterwarnings("ignore")
import yadism, yadism.log
yadism.log.silent_mode=True
from cards import *
from eko import interpolation
class Toy:
    def hasFlavor(self,pid): return pid in (21,1,2,-1,-2,3,-3)
    def xfxQ2(self,pid,x,Q2): return (x**0.7)*(1-x)**3*(1+0.3*pid if abs(pid)<4 else 1.0)
xg=interpolation.make_grid(20,20,x_min=1e-3).tolist()
x,Q2=0.5,2.0
M2=0.938**2; mu=M2/Q2; rho=np.sqrt(1+4*x*x*mu); xi=2*x/(1+rho)
us=np.linspace(xi,1.0,41)[:-1]
a_s=lambda mu_: 0.0
def pred(out,name): return [r["result"] for r in out.apply_pdf_alphas_alphaqed_xir_xif(Toy(), lambda m:0.2, lambda m:0.0, 1.0,1.0)[name]]
for kind in ["F3","F2"]:
    name=f"{kind}_light"
    bare=yadism.run_yadism(theory(PTO=0,PTODIS=0,TMC=0), obs({name:[dict(x=float(u),Q2=Q2) for u in us]},xgrid=xg,prDIS="CC",ProjectileDIS="neutrino"))
    G=np.array(pred(bare,name)+[0.0]); U=np.append(us,1.0)
    Gxi=G[0]
    I_u2=np.trapz(G/U**2,U); I_u1=np.trapz(G/U,U); 
    g2=np.trapz((U-xi)*G/U**2,U)
    tm=yadism.run_yadism(theory(PTO=0,PTODIS=0,TMC=3), obs({name:[dict(x=x,Q2=Q2)]},xgrid=xg,prDIS="CC",ProjectileDIS="neutrino"))
    R=pred(tm,name)[0]
    if kind=="F3":
        pub=x**2/(xi**2*rho**2)*Gxi+2*mu*x**3/rho**3*I_u2
        cod=x**2/(xi**2*rho**2)*Gxi+2*mu*x**3/rho**3*I_u1
    else:
        pub=x**2/(xi**2*rho**3)*Gxi+6*mu*x**3/rho**4*I_u2+12*mu**2*x**4/rho**5*g2
        cod=pub
    print(kind,"yadism TMC exact:",R," published:",pub," with int G/u:",cod, " shifted only:", x**2/(xi**2*rho**2)*Gxi)
