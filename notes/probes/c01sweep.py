import adani
_orig=adani.HighScaleSplitLogs
def _compat(order,kind,channel,version="exact"):
    v={"exact":adani.HighScaleVersion.Exact,"gm":adani.HighScaleVersion.GM}[version] if isinstance(version,str) else version
    return _orig(order,kind,channel,v)
adani.HighScaleSplitLogs=_compat
import numpy as np, warnings, scipy.integrate as si, time, itertools
warnings.filterwarnings("ignore")
from multiprocessing import Pool
from cards import *
def oracle(rsl,x,pj,nodes):
    pts=[u for u in nodes if x<u<1]
    px=pj(x)
    def f(u):
        z=x/u; jac=x/u**2; val=0.0; pu=pj(u)
        if rsl.reg is not None: val+=rsl.reg(z,rsl.args["reg"])*pu/z*jac
        if rsl.sing is not None: val+=rsl.sing(z,rsl.args["sing"])*(pu/z-px)*jac
        return val
    edges=[x]+pts+[1.0]; tot=0;err=0
    if rsl.reg is not None or rsl.sing is not None:
        for a,b in zip(edges[:-1],edges[1:]):
            lo=a*(1+1e-12) if a==x else a
            r,e=si.quad(f,lo,b,epsabs=1e-13,epsrel=1e-11,limit=300); tot+=r;err+=e
    if rsl.loc is not None: tot+=px*rsl.loc(x,rsl.args["loc"])
    return tot,err
def job(a):
    proc,name,scheme,nfff,pto,x,Q2=a
    import yadism, yadism.log; yadism.log.silent_mode=True
    from yadism import runner, coefficient_functions as cf
    from yadism.esf import conv
    proj="neutrino" if proc=="CC" else "electron"
    try:
        r=runner.Runner(theory(PTO=pto,PTODIS=pto,FNS=scheme,NfFF=nfff,mc=1.5,Q0=1.0), obs({name:[dict(x=x,Q2=Q2)]},n=10,deg=3,prDIS=proc,ProjectileDIS=proj))
        e=r.observables[name].elements[0]; interp=r.configs.managers["interpolator"]; nodes=np.array(interp.xgrid.raw)
        rows=[]
        for k in cf.Combiner(e).collect_elems():
            xc=k.coeff.convolution_point()
            for o in range(pto+1):
                if not k.has_order(o): continue
                rsl=k.coeff[o]()
                if rsl is None: continue
                v,er=conv.convolve_vector(rsl,interp,xc)
                if xc>=1-1e-10: ov=[(0.0,0.0)]*len(v)
                else: ov=[oracle(rsl,xc,pj,nodes) for pj in interp]
                d=max(abs(p-q[0]) for p,q in zip(v,ov)); sc=max(max(abs(v)),max(abs(q[0]) for q in ov))
                tol=10*(max(er)+max(q[1] for q in ov))+1e-6*sc
                rows.append((type(k.coeff).__module__.split(".")[-2]+"."+type(k.coeff).__name__,o,d/(sc+1e-300),d<=tol))
        return a,rows
    except Exception as ex:
        import traceback
        return a,"EXC "+type(ex).__name__+": "+str(ex)[:60]
if __name__=="__main__":
    jobs=[]
    for x in [0.013,0.3,0.75]:
        jobs+= [("NC",f"{k}_light","ZM-VFNS",3,3,x,20.0) for k in ["F2","FL","F3"]]
        jobs+= [("NC",f"{k}_light","ZM-VFNS",3,2,x,20.0) for k in ["g1","gL","g4"]]
        jobs+= [("CC",f"{k}_light","ZM-VFNS",3,3 if k!="FL" else 2,x,20.0) for k in ["F2","FL","F3"]]
        jobs+= [("NC",f"{k}_charm","FFNS",3,2,x,20.0) for k in ["F2","FL","F3","g1"]]
        jobs+= [("CC",f"{k}_charm","FFNS",3,1,x,20.0) for k in ["F2","FL","F3"]]
        jobs+= [("NC",f"{k}_total","FFN0",3,2,x,20.0) for k in ["F2","FL"]]
        jobs+= [("CC",f"{k}_charm","FFN0",3,1,x,20.0) for k in ["F2","F3"]]
    t0=time.time()
    with Pool(16) as p: res=p.map(job,jobs)
    print("wall",time.time()-t0, "jobs",len(jobs))
    worst={}; fails=[]
    for a,rows in res:
        if isinstance(rows,str): print(a,rows); continue
        for cls,o,rel,ok in rows:
            key=(cls,o); worst[key]=max(worst.get(key,0),rel)
            if not ok: fails.append((a,cls,o,"%.2e"%rel))
    for k,v in sorted(worst.items(), key=lambda t:-t[1])[:25]: print(k,"%.2e"%v)
    print("n kernel-order checks:",sum(len(r) for a,r in res if not isinstance(r,str)),"fails:",len(fails))
    for f in fails[:30]: print(f)
