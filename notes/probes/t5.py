import numpy as np, copy, sys, pickle, os
import yadism, yadism.log
yadism.log.silent_mode=True
from cards import *
from eko import basis_rotation as br
pids=list(br.flavor_basis_pids)
def digest(out):
    import hashlib
    h={}
    for k,v in out.items():
        if isinstance(v,list) and v and hasattr(v[0],'orders'):
            h[k]=[hashlib.sha1(b"".join(r.orders[o][0].tobytes()+r.orders[o][1].tobytes() for o in sorted(r.orders))).hexdigest()[:10] for r in v]
    return h
# B: LO at node
o=obs({"F2_light":[]}, n=10)
xg=o["interpolation_xgrid"]; xn=xg[6]
o["observables"]={"F2_light":[dict(x=xn,Q2=10.0)],"F3_light":[dict(x=xn,Q2=10.0)]}
o["prDIS"]="NC"
out=yadism.run_yadism(theory(PTO=0,PTODIS=0),o)
v=out["F2_light"][0].orders[(0,0,0,0)][0]
print("LO node: row u", v[pids.index(2)]/xn, "row d", v[pids.index(1)]/xn)
print("F3 row u", out["F3_light"][0].orders[(0,0,0,0)][0][pids.index(2)][6]/xn, "ubar", out["F3_light"][0].orders[(0,0,0,0)][0][pids.index(-2)][6]/xn)
# D: permutation determinism
kins=[dict(x=0.1,Q2=30.0),dict(x=0.2,Q2=10.0),dict(x=0.1,Q2=10.0),dict(x=0.2,Q2=10.0)]
t=theory(PTO=1,PTODIS=1,TMC=1)
o1=obs({"F2_light":kins,"FL_light":kins[:2],"XSHERANC":[dict(x=0.1,Q2=30.0,y=0.3)]},prDIS="NC")
o2=obs({"XSHERANC":[dict(x=0.1,Q2=30.0,y=0.3)],"FL_light":kins[:2][::-1],"F2_light":kins[::-1]},prDIS="NC")
d1=digest(yadism.run_yadism(t,o1)); d2=digest(yadism.run_yadism(t,o2))
print(d1); print(d2)
print("perm equal:", d1["F2_light"]==d2["F2_light"][::-1], d1["FL_light"]==d2["FL_light"][::-1], d1["XSHERANC"]==d2["XSHERANC"])
# E: additivity FFNS nf=3
t=theory(PTO=2,PTODIS=2,FNS="FFNS",NfFF=3)
k=[dict(x=0.05,Q2=20.0)]
out=yadism.run_yadism(t,obs({"F2_total":k,"F2_light":k,"F2_charm":k,"F2_bottom":k,"F2_top":k}))
mx=0
for ok in out["F2_total"][0].orders:
    tot=out["F2_total"][0].orders[ok][0]
    s=sum(out[n][0].orders[ok][0] for n in ["F2_light","F2_charm","F2_bottom","F2_top"])
    mx=max(mx, np.max(np.abs(tot-s))/(np.max(np.abs(tot))+1e-300))
print("additivity max rel diff", mx)
pickle.dump({k:[ (r.x,r.Q2,{o:r.orders[o][0] for o in r.orders}) for r in out[k]] for k in ["F2_total","F2_charm"]}, open(f"/tmp/probe/out_jit{os.environ.get('NUMBA_DISABLE_JIT','0')}.pkl","wb"))
