import numpy as np, warnings
warnings.filterwarnings("ignore")
import yadism, yadism.log
yadism.log.silent_mode=True
from cards import *
k=[dict(x=0.05,Q2=50.0)]
res={}
for ren in [True,False]:
    for fact in [True,False]:
        res[(ren,fact)]=yadism.run_yadism(theory(PTO=3,PTODIS=3,FNS="FFNS",NfFF=4,RenScaleVar=ren,FactScaleVar=fact), obs({"F2_total":k},prDIS="NC"))["F2_total"][0]
full=res[(True,True)]
for (ren,fact),r in res.items():
    bad=[]
    for o in full.orders:
        v=r.orders[o][0]; f=full.orders[o][0]
        off=(not ren and o[2]>0) or (not fact and o[3]>0)
        if off:
            if np.any(v!=0): bad.append(("nonzero-off",o))
        else:
            if not np.array_equal(np.nan_to_num(v),np.nan_to_num(f)): bad.append(("changed",o, float(np.nanmax(np.abs(v-f)))))
    print("ren",ren,"fact",fact,"keys equal",set(r.orders)==set(full.orders),"violations",bad[:6])
