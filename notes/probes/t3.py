import numpy as np, copy, io, tempfile, pathlib, traceback
import yadism, yadism.log
from yadism.output import Output
yadism.log.silent_mode=True
from cards import *
t=theory(PTO=1,PTODIS=1,FNS="FFNS",NfFF=3)
o=obs({"F2_charm":[dict(x=0.1,Q2=30.0),dict(x=0.2,Q2=10.0)],"XSHERANC":[dict(x=0.1,Q2=30.0,y=0.5)]})
t0=copy.deepcopy(t); o0=copy.deepcopy(o)
out=yadism.run_yadism(t,o)
print("theory unchanged", t==t0, "obs unchanged", o==o0)
print("keys", list(out.keys()))
print("out.theory is t?", out.theory is t, out.theory==t0, out.observables==o0)
print({k:type(v) for k,v in out.items()})
# tar
with tempfile.TemporaryDirectory() as d:
    p=pathlib.Path(d)/"o.tar"
    try:
        out.dump_tar(p); l=Output.load_tar(p)
        print("tar keys", list(l.keys()))
        for k in ["F2_charm","XSHERANC"]:
            for a,b in zip(out[k],l[k]):
                assert a.x==b.x and a.Q2==b.Q2 and list(a.orders)==list(b.orders), (a.x,b.x)
                for ok in a.orders:
                    assert np.array_equal(a.orders[ok][0],b.orders[ok][0]) and np.array_equal(a.orders[ok][1],b.orders[ok][1])
        print("tar ok; xgrid", type(l["xgrid"]), l.get("pids"), l["projectilePID"], type(l.theory))
        print("theory eq", l.theory==t0, "obs eq", l.observables==o0)
    except Exception as e:
        traceback.print_exc()
try:
    s=out.dump_yaml(); l=Output.load_yaml(io.StringIO(s))
    print("yaml ok", list(l.keys()))
    print("theory eq", l.theory==t0, "obs eq", l.observables==o0)
except Exception as e:
    traceback.print_exc()
