import numpy as np
from yadism.coefficient_functions.light.nlo import f2,fl,f3,g1
CF=4/3; TR=0.5; z2=np.pi**2/6
a=np.array([4.0])
worst=0
for z in np.concatenate([np.linspace(0.01,0.99,37),[1e-6,1-1e-6]]):
    L0=np.log(z); L1=np.log(1-z)
    # literature (a_s=alpha_s/4pi): C2q = CF[4 D1 - 3 D0 - 2(1+z)L1 - 2(1+z^2)/(1-z) L0 + 6 + 4z - (4 z2 + 9) delta]
    c2q_reg=CF*(-2*(1+z)*L1-2*(1+z*z)/(1-z)*L0+6+4*z)
    clq=CF*4*z
    c3q_reg=c2q_reg-CF*2*(1+z)
    c2g=4*4*TR*((z*z+(1-z)**2)*np.log((1-z)/z)-1+8*z*(1-z))     # nf=4
    clg=4*TR*16*z*(1-z)
    dg=4*4*TR*((2*z-1)*np.log((1-z)/z)+3-4*z)
    for name,code,lit in [("c2q",f2.ns_reg(z,a),c2q_reg),("clq",fl.ns_reg(z,a),clq),("c3q",f3.ns_reg(z,a),c3q_reg),("g1q",g1.ns_reg(z,a),c3q_reg),("c2g",f2.gluon_reg(z,a),c2g),("clg",fl.gluon_reg(z,a),clg),("g1g",g1.gluon_reg(z,a),dg)]:
        d=abs(code-lit)/(abs(lit)+1e-12); worst=max(worst,d)
        if d>1e-9: print("MISMATCH",name,z,code,lit)
print("worst rel", worst, "| delta, D0, D1 coeffs:", f2.ns_delta, -CF*(9+4*z2), f2.ns_omx, -3*CF, f2.ns_logomx, 4*CF)
