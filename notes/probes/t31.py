import numpy as np, warnings, scipy.integrate as si, time
warnings.filterwarnings("ignore")
from eko import interpolation
from eko.interpolation import InterpolatorDispatcher, XGrid
from yadism.esf import conv
from yadism.coefficient_functions.light import f2_nc, f3_nc
from yadism.coefficient_functions.heavy import f2_cc
class E: x=0.1; Q2=10.0
xg=interpolation.make_grid(6,6,x_min=1e-3)
for is_log in [True,False]:
  interp=InterpolatorDispatcher(XGrid(xg,is_log),4,mode_N=False)
  nodes=np.array(xg)
  def oracle(rsl,x,pj):
    # integrate in u = x/z over [x,1]; breakpoints at nodes in (x,1)
    pts=[u for u in nodes if x<u<1]
    px=pj(x)
    def f(u):
        z=x/u; jac=x/u**2   # dz = -x/u^2 du
        val=0.0
        pu=pj(u)
        if rsl.reg is not None: val+=rsl.reg(z,rsl.args["reg"])*pu/z*jac
        if rsl.sing is not None: val+=rsl.sing(z,rsl.args["sing"])*(pu/z-px)*jac
        return val
    edges=[x]+pts+[1.0]; tot=0;err=0
    for a,b in zip(edges[:-1],edges[1:]):
        lo=a*(1+1e-12) if a==x else a
        r,e=si.quad(f,lo,b,epsabs=1e-13,epsrel=1e-12,limit=200); tot+=r;err+=e
    if rsl.loc is not None: tot+=px*rsl.loc(x,rsl.args["loc"])
    return tot,err
  for name,pc in [("F2 ns",f2_nc.NonSinglet(E(),4)),("F2 g",f2_nc.Gluon(E(),4))]:
    for o in [1,2]:
        rsl=pc[o]()
        for x in [0.0123, float(nodes[5]), 0.6]:
            t0=time.time(); v,e=conv.convolve_vector(rsl,interp,x); t1=time.time()
            ov=[oracle(rsl,x,pj) for pj in interp]; t2=time.time()
            d=max(abs(a-b[0]) for a,b in zip(v,ov)); sc=max(abs(v))
            print("log" if is_log else "lin",name,"order",o,"x=%.4g"%x,"max|diff| %.2e"%d,"scale %.2e"%sc,"code err %.1e"%max(e),"oracle err %.1e"%max(b[1] for b in ov),"t code %.2fs oracle %.2fs"%(t1-t0,t2-t1))
