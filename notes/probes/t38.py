exec(open("c01sweep.py").read().split("def job(a):")[0])
import yadism, yadism.log; yadism.log.silent_mode=True
from yadism import runner, coefficient_functions as cf
from yadism.esf import conv
for x,nm in [(x,nm) for x in (0.013,0.3,0.75) for nm in ("F2_total","FL_total")]:
    r=runner.Runner(theory(PTO=2,PTODIS=2,FNS="FFN0",NfFF=3,mc=1.5,Q0=1.0), obs({nm:[dict(x=x,Q2=20.0)]},n=10,deg=3,prDIS="NC"))
    e=r.observables[nm].elements[0]; interp=r.configs.managers["interpolator"]; nodes=np.array(interp.xgrid.raw)
    for k in cf.Combiner(e).collect_elems():
        if type(k.coeff).__name__!="AsyNLLSinglet": continue
        rsl=k.coeff[2](); v,er=conv.convolve_vector(rsl,interp,x)
        ov=[oracle(rsl,x,pj,nodes) for pj in interp]
        d=max(abs(p-q[0]) for p,q in zip(v,ov)); sc=max(max(abs(v)),max(abs(q[0]) for q in ov))
        if d/(sc+1e-300)<1e-3: continue
        print(nm,"x",x,"code",np.array2string(v,precision=4),"\n   oracle",np.array2string(np.array([q[0] for q in ov]),precision=4),"\n   code err",np.array2string(er,precision=2),"oracle err",np.array2string(np.array([q[1] for q in ov]),precision=2))
        print("   reg samples", [float(rsl.reg(z,rsl.args["reg"])) for z in (1e-3,0.01,0.1,0.5,0.9,0.999)])
        break
