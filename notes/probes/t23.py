import numpy as np, warnings
warnings.filterwarnings("ignore")
import yadism, yadism.log
yadism.log.silent_mode=True
from cards import *
from eko import basis_rotation as br
pids=list(br.flavor_basis_pids)
k=[dict(x=0.05,Q2=50.0)]
# positivity sum at N3LO light (fl11) NC, ZM nf=4 (Q2=50 -> nf=5 with mb=4.92: 24.2<50)
t=theory(PTO=3,PTODIS=3)
names=["F2_light","FL_light","F3_light"]
full=yadism.run_yadism(t, obs({n:k for n in names},prDIS="NC"))
acc={n:None for n in names}
for q in ["up","down","strange","charm","bottom","top"]:
    r=yadism.run_yadism(t, obs({n:k for n in names},prDIS="NC",NCPositivityCharge=q))
    for n in names:
        acc[n]=r[n][0] if acc[n] is None else acc[n]+r[n][0]
for n in names:
    w=max(np.max(np.abs(full[n][0].orders[o][0]-acc[n].orders[o][0]))/(np.max(np.abs(full[n][0].orders[o][0]))+1e-300) for o in full[n][0].orders)
    print("positivity sum",n,w)
# d<->s rows
f=full["F2_light"][0]
print("d vs s rows equal:", all(np.array_equal(f.orders[o][0][pids.index(1)], f.orders[o][0][pids.index(3)]) for o in f.orders), " u vs c:", all(np.array_equal(f.orders[o][0][pids.index(2)], f.orders[o][0][pids.index(4)]) for o in f.orders))
# XS relation
kk=[dict(x=0.05,Q2=50.0,y=0.4)]
for proj in ["electron","positron"]:
    r=yadism.run_yadism(theory(PTO=2,PTODIS=2,TMC=1), obs({"XSHERANC":kk,"F2_total":kk,"FL_total":kk,"F3_total":kk},prDIS="NC",ProjectileDIS=proj))
    y=0.4; yp=1+(1-y)**2; ym=1-(1-y)**2; yL=y*y; s=1 if proj=="electron" else -1
    w=0
    for o in r["XSHERANC"][0].orders:
        X=r["XSHERANC"][0].orders[o][0]; E=r["F2_total"][0].orders[o][0]-yL/yp*r["FL_total"][0].orders[o][0]+s*ym/yp*r["F3_total"][0].orders[o][0]
        w=max(w,np.max(np.abs(X-E))/(np.max(np.abs(X))+1e-300))
    print("XSHERANC",proj,w)
