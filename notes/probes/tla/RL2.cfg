SPECIFICATION Spec
CONSTANTS MaxPts = 2
  AllowSwapped = TRUE
INVARIANT SlotsIdeal
INVARIANT CacheCoherent
INVARIANT AllFilled
CHECK_DEADLOCK FALSE
