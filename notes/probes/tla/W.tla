---- MODULE W ----
EXTENDS Integers, TLC, Json, Sequences, FiniteSets
RECURSIVE Gcd(_,_)
Gcd(a,b) == IF b = 0 THEN a ELSE Gcd(b, a % b)
Abs(a) == IF a < 0 THEN -a ELSE a
Norm(n,d) == IF n = 0 THEN <<0,1>> ELSE LET g == Gcd(Abs(n),Abs(d)) s == IF d < 0 THEN -1 ELSE 1 IN <<s*(n \div g), s*(d \div g)>>
R(n,d) == Norm(n,d)
Mul(a,b) == LET g1 == Gcd(Abs(a[1]),b[2]) g2 == Gcd(Abs(b[1]),a[2]) IN
            IF a[1]=0 \/ b[1]=0 THEN <<0,1>> ELSE <<(a[1] \div g1)*(b[1] \div g2), (a[2] \div g2)*(b[2] \div g1)>>
Lcm(a,b) == (a \div Gcd(a,b)) * b
Add(a,b) == LET l == Lcm(a[2],b[2]) IN Norm(a[1]*(l \div a[2]) + b[1]*(l \div b[2]), l)
Neg(a) == <<-a[1],a[2]>>
Sub(a,b) == Add(a,Neg(b))
Inv(a) == IF a[1] < 0 THEN <<-a[2],-a[1]>> ELSE <<a[2],a[1]>>
Div(a,b) == Mul(a,Inv(b))
I(n) == <<n,1>>
S2W == {R(1,2),R(1,4),R(1,8),R(3,8)}
RR == {R(0,1),R(1,2),R(1,5),R(2,3)}
OMD == {R(1,1),R(1,2),R(5,4)}
POL == {R(-1,1),R(-1,2),R(0,1),R(1,3),R(1,1)}
PROJ == {11,-11,12,-12}
Eq(q) == IF q % 2 = 0 THEN R(2,3) ELSE R(-1,3)
T3q(q) == IF q % 2 = 0 THEN R(1,2) ELSE R(-1,2)
Wt(s,r,omd,pol,proj,q) ==
  LET eta == Div(Div(r, Mul(I(4),Mul(s,Sub(I(1),s)))), omd)
      ap == IF proj < 0 THEN -proj ELSE proj
      el == IF ap = 11 THEN I(-1) ELSE I(0)
      t3l == IF ap = 11 THEN R(-1,2) ELSE R(1,2)
      v == Sub(t3l, Mul(I(2),Mul(el,s)))
      a == t3l
      p == IF proj \in {-11,12} THEN pol ELSE Neg(pol)
      e == Eq(q)  gv == Sub(T3q(q), Mul(I(2),Mul(e,s)))  ga == T3q(q)
      wpp == Mul(Mul(el,el),Mul(e,e))
      wpz == Mul(I(2),Mul(Mul(el,Add(v,Mul(p,a))),Mul(eta,Mul(e,gv))))
      lzz == Add(Add(Mul(v,v),Mul(a,a)),Mul(I(2),Mul(p,Mul(v,a))))
      wzz == Mul(lzz,Mul(Mul(eta,eta),Add(Mul(gv,gv),Mul(ga,ga))))
  IN Add(wpp,Add(wpz,wzz))
All == {<<s,r,o,p,j,q, Wt(s,r,o,p,j,q)>> : s \in S2W, r \in RR, o \in OMD, p \in POL, j \in PROJ, q \in 1..6}


====
