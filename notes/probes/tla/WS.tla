---- MODULE WS ----
EXTENDS W
VARIABLE cell
Init == cell \in (S2W \X RR \X OMD \X POL \X PROJ)
Next == UNCHANGED cell
\* a stand-in "theorem": positron(P) == electron(-P), evaluated per state for all quarks
Flip == \A q \in 1..6 : Wt(cell[1],cell[2],cell[3],cell[4],-11,q) = Wt(cell[1],cell[2],cell[3],Neg(cell[4]),11,q)
Heavy == \A q \in 1..6 : \A k \in 1..20 : Wt(cell[1],cell[2],cell[3],cell[4],cell[5],q)[2] > 0
====
