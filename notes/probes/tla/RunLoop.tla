---------------------------- MODULE RunLoop ----------------------------
(* Throw-away feasibility prototype of the runner / cache state machine. *)
EXTENDS Integers, Sequences, FiniteSets, TLC

CONSTANTS MaxPts,        \* max kinematic points per observable
          AllowSwapped   \* may the user write {Q2:..,x:..} instead of {x:..,Q2:..} ?

Obs    == {"F2", "FL"}            \* FL under TMC needs F2 (sibling delegation)
XsR    == 1..2                    \* user x ids;  node ids 0..2 ; Shift(x) = x-1
Nodes  == 0..2
Qs     == 1..2
Shift(x) == x - 1

\* a kinematics dict = sequence of <<name, value>> in dict order
KinXQ(x,q) == << <<"x",x>>, <<"Q2",q>> >>
KinQX(x,q) == << <<"Q2",q>>, <<"x",x>> >>
Get(k, n)  == LET i == CHOOSE j \in 1..Len(k) : k[j][1] = n IN k[i][2]
Vals(k)    == [i \in 1..Len(k) |-> k[i][2]]
UserKins   == {KinXQ(x,q) : x \in XsR, q \in Qs} \cup
              (IF AllowSwapped THEN {KinQX(x,q) : x \in XsR, q \in Qs} ELSE {})

VARIABLES tmc, plan, heap, cache, elems, slots, pc, cur, lastQ, order, pos
vars == <<tmc, plan, heap, cache, elems, slots, pc, cur, lastQ, order, pos>>

\* ---------- ideal (history-free) semantics: symbolic terms ----------
RawT(o,x,q)  == <<"raw", o, x, q>>
RECURSIVE SetToSeq(_)
SetToSeq(S) == IF S = {} THEN <<>> ELSE LET m == CHOOSE e \in S : \A f \in S : e <= f IN <<m>> \o SetToSeq(S \ {m})
TmcT(o,x,q)  == <<"tmc", o, x, q, RawT(o, Shift(x), q),
                  [j \in {n \in Nodes : n >= Shift(x)} |-> RawT("F2", j, q)]>>
Ideal(o,k)   == IF tmc THEN TmcT(o, Get(k,"x"), Get(k,"Q2")) ELSE RawT(o, Get(k,"x"), Get(k,"Q2"))

\* ---------- the implementation-shaped part ----------
Key(k, flag) == Vals(k) \o <<flag>>                 \* tuple(kin.values()) + (flag,)
NewId        == Cardinality(DOMAIN heap) + 1

\* get_esf on SF o for kinematics k; returns <<heap', cache', id>>
GetEsf(h, c, o, k, useRaw) ==
   LET flag == (~useRaw) /\ tmc
       key  == Key(k, flag) IN
   IF key \in DOMAIN c[o] THEN <<h, c, c[o][key]>>
   ELSE LET id  == Cardinality(DOMAIN h) + 1
            obj == [cls |-> IF flag THEN "TMC" ELSE "ESF", obs |-> o,
                    x |-> Get(k,"x"), q |-> Get(k,"Q2")]
        IN <<h @@ (id :> obj), [c EXCEPT ![o] = @ @@ (key :> id)], id>>

\* value computed by an object from ITS OWN attributes (raw ESF)
RawVal(obj) == RawT(obj.obs, obj.x, obj.q)

\* evaluation of a TMC object: shifted look-up on own SF, node look-ups on the F2 SF with {Q2,x} order
RECURSIVE NodeLoop(_,_,_,_,_)
NodeLoop(h, c, js, q, acc) ==
   IF js = <<>> THEN <<h, c, acc>>
   ELSE LET r == GetEsf(h, c, "F2", KinQX(Head(js), q), TRUE)
        IN NodeLoop(r[1], r[2], Tail(js), q, acc @@ (Head(js) :> RawVal(r[1][r[3]])))
EvalObj(h, c, id) ==
   LET obj == h[id] IN
   IF obj.cls = "ESF" THEN <<h, c, RawVal(obj)>>
   ELSE LET r1 == GetEsf(h, c, obj.obs, KinXQ(Shift(obj.x), obj.q), TRUE)
            js == SetToSeq({n \in Nodes : n >= Shift(obj.x)})
            r2 == NodeLoop(r1[1], r1[2], js, obj.q, <<>>)
        IN <<r2[1], r2[2], <<"tmc", obj.obs, obj.x, obj.q, RawVal(r1[1][r1[3]]), r2[3]>> >>

EmptyCache == [o \in Obs |-> <<>>]

\* load(): every runcard kinematics goes through get_esf(use_raw=FALSE) at construction time
RECURSIVE LoadObs(_,_,_,_,_)
LoadObs(h, c, o, ks, acc) ==
   IF ks = <<>> THEN <<h, c, acc>>
   ELSE LET r == GetEsf(h, c, o, Head(ks), FALSE) IN LoadObs(r[1], r[2], o, Tail(ks), Append(acc, r[3]))
RECURSIVE LoadAll(_,_,_,_)
LoadAll(h, c, p, acc) ==
   IF p = <<>> THEN <<h, c, acc>>
   ELSE LET r == LoadObs(h, c, Head(p).name, Head(p).kins, <<>>)
        IN LoadAll(r[1], r[2], Tail(p), acc @@ (Head(p).name :> r[3]))

KinSeqs == UNION {[1..n -> UserKins] : n \in 1..MaxPts}
Plans   == {<<[name |-> "F2", kins |-> a]>> : a \in KinSeqs} \cup
           {<<[name |-> "FL", kins |-> a]>> : a \in KinSeqs} \cup
           UNION {{<<[name |-> n1, kins |-> a], [name |-> n2, kins |-> b]>> :
                     n2 \in Obs \ {n1}, a \in KinSeqs, b \in KinSeqs} : n1 \in Obs}

\* stable sort of element indices by the element object's Q2
RECURSIVE SortIdx(_,_)
SortIdx(S, f) == IF S = {} THEN <<>> ELSE
    LET m == CHOOSE i \in S : \A j \in S : f[i] < f[j] \/ (f[i] = f[j] /\ i <= j) IN <<m>> \o SortIdx(S \ {m}, f)

Init == /\ tmc \in BOOLEAN
        /\ plan \in Plans
        /\ LET r == LoadAll(<<>>, EmptyCache, plan, <<>>) IN
             /\ heap = r[1] /\ cache = r[2] /\ elems = r[3]
        /\ slots = [i \in 1..Len(plan) |-> [j \in 1..Len(plan[i].kins) |-> <<"empty">>]]
        /\ pc = "start" /\ cur = 1 /\ lastQ = 0 /\ order = <<>> /\ pos = 1

StartObs == /\ pc = "start" /\ cur <= Len(plan)
            /\ LET o == plan[cur].name  es == elems[o] IN
                 order' = SortIdx(DOMAIN es, [i \in DOMAIN es |-> heap[es[i]].q])
            /\ pos' = 1 /\ lastQ' = 0 /\ pc' = "loop"
            /\ UNCHANGED <<tmc, plan, heap, cache, elems, slots, cur>>

Step == /\ pc = "loop" /\ pos <= Len(order)
        /\ LET o   == plan[cur].name
               idx == order[pos]
               id  == elems[o][idx]
               q   == heap[id].q
               c0  == IF lastQ # 0 /\ lastQ # q THEN EmptyCache ELSE cache   \* drop_cache on Q2 change
               r   == EvalObj(heap, c0, id)
           IN /\ heap' = r[1] /\ cache' = r[2]
              /\ slots' = [slots EXCEPT ![cur][idx] = r[3]]
              /\ lastQ' = q
        /\ pos' = pos + 1
        /\ UNCHANGED <<tmc, plan, elems, pc, cur, order>>

EndObs == /\ pc = "loop" /\ pos > Len(order)
          /\ cache' = EmptyCache /\ cur' = cur + 1 /\ pc' = "start"
          /\ UNCHANGED <<tmc, plan, heap, elems, slots, lastQ, order, pos>>

Done == pc = "start" /\ cur > Len(plan) /\ UNCHANGED vars
Next == StartObs \/ Step \/ EndObs \/ Done
Spec == Init /\ [][Next]_vars

\* ---------- properties ----------
SlotsIdeal == \A i \in 1..Len(plan) : \A j \in 1..Len(plan[i].kins) :
                 slots[i][j] # <<"empty">> => slots[i][j] = Ideal(plan[i].name, plan[i].kins[j])
CacheCoherent == \A o \in Obs : \A key \in DOMAIN cache[o] : heap[cache[o][key]].obs = o
AllFilled == (pc = "start" /\ cur > Len(plan)) =>
                \A i \in 1..Len(plan) : \A j \in 1..Len(plan[i].kins) : slots[i][j] # <<"empty">>
=============================================================================
