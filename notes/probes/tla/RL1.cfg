SPECIFICATION Spec
CONSTANTS MaxPts = 2
  AllowSwapped = FALSE
INVARIANT SlotsIdeal
INVARIANT CacheCoherent
INVARIANT AllFilled
CHECK_DEADLOCK FALSE
