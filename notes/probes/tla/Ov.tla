---- MODULE Ov ----
EXTENDS Integers, TLC, Json, Sequences
RECURSIVE Gcd(_,_)
Gcd(a,b) == IF b = 0 THEN a ELSE Gcd(b, a % b)
Abs(a) == IF a < 0 THEN -a ELSE a
Norm(n,d) == LET g == Gcd(Abs(n),Abs(d)) s == IF d < 0 THEN -1 ELSE 1 IN <<s*(n \div g), s*(d \div g)>>
Mul(a,b) == Norm(a[1]*b[1], a[2]*b[2])
Lcm(a,b) == (a \div Gcd(a,b)) * b
Add(a,b) == LET l == Lcm(a[2],b[2]) IN Norm(a[1]*(l \div a[2]) + b[1]*(l \div b[2]), l)
ASSUME PrintT(Mul(<<2,3>>,<<9,4>>))
ASSUME PrintT(Add(<<1,6>>,<<1,10>>))
ASSUME PrintT(ToJson([a |-> Add(<<1,6>>,<<1,10>>), b |-> "x"]))
ASSUME PrintT(100000 * 100000)
====
