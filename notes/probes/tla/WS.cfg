INIT Init
NEXT Next
INVARIANT Flip
INVARIANT Heavy
