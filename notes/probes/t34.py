import numpy as np, io, tempfile, pathlib, itertools, traceback, copy
from yadism.output import Output
from yadism.esf.result import ESFResult, EXSResult
def mk(shape, vals):
    o=Output()
    o.theory={"PTO":1,"FNS":"ZM-VFNS"}; o.observables={"prDIS":"EM","observables":{}}
    o["xgrid"]={"grid":[0.1,0.5,1.0],"log":True}; o["polynomial_degree"]=1; o["is_log"]=True
    o["pids"]=(22,-1,21,1); o["projectilePID"]=11
    for name,(cls,npts,keys) in shape.items():
        if cls is None: o[name]=None; continue
        pts=[]
        for i in range(npts):
            orders={k:(np.array(vals,float).reshape(4,3)*(i+1),np.abs(np.array(vals,float)).reshape(4,3)*1e-3) for k in keys}
            pts.append(ESFResult(0.1*(i+1),10.0*(i+1),None,orders) if cls=="ESF" else EXSResult(0.1*(i+1),10.0*(i+1),0.3,None,orders))
        o[name]=pts
    return o
def equal(a,b):
    if set(a.keys())!=set(b.keys()): return "keys %s"%(set(a.keys())^set(b.keys()))
    for k in a:
        if isinstance(a[k],list) and a[k] and hasattr(a[k][0],"orders"):
            if len(a[k])!=len(b[k]): return "len "+k
            for r,s in zip(a[k],b[k]):
                if type(r)!=type(s): return "type "+k
                if (r.x,r.Q2,getattr(r,"y",None),r.nf)!=(s.x,s.Q2,getattr(s,"y",None),s.nf): return "kin "+k
                if list(r.orders)!=list(s.orders): return "orderkeys "+k
                for o in r.orders:
                    for t in (0,1):
                        if not (np.array_equal(r.orders[o][t],s.orders[o][t],equal_nan=True) and np.array_equal(np.signbit(r.orders[o][t]),np.signbit(s.orders[o][t]))): return "values %s %s"%(k,o)
        else:
            x,y=a[k],b[k]
            if isinstance(x,dict):
                if list(np.array(x["grid"]))!=list(np.array(y["grid"])) or x["log"]!=y["log"]: return "xgrid"
            elif isinstance(x,(tuple,list,np.ndarray)):
                if list(x)!=list(y): return "meta "+k
            elif x!=y: return "meta "+k
    if a.theory!=b.theory or a.observables!=b.observables: return "cards"
    return None
specials=[0.0,-0.0,5e-324,1.7976931348623157e308,0.1+0.2,1/3,-2.5e-17,1e22,123456789.123456789,-1.0,2.0,3.0]
shapes={
 "esf1":{"F2_light":("ESF",1,[(0,0,0,0)])},
 "esf2keys":{"F2_light":("ESF",2,[(1,0,0,0),(0,0,0,0),(1,0,0,1)])},
 "exs":{"XSHERANC":("EXS",2,[(0,0,0,0),(1,0,0,0)])},
 "mixed":{"F2_light":("ESF",2,[(0,0,0,0)]),"XSHERANC":("EXS",1,[(0,0,0,0)]),"FL_total":("ESF",1,[(0,0,0,0),(1,0,0,0)])},
 "none":{"F2_light":("ESF",1,[(0,0,0,0)]),"FL_light":(None,0,[])},
 "empty":{"F2_light":("ESF",1,[(0,0,0,0)]),"FL_light":("ESF",0,[])},
 "noorders":{"F2_light":("ESF",1,[])},
}
for sname,shape in shapes.items():
    o=mk(shape,specials)
    for fmt in ["tar","yaml"]:
        cur=o; verdict="ok"
        try:
            for cycle in range(2):
                if fmt=="tar":
                    with tempfile.TemporaryDirectory() as d:
                        p=pathlib.Path(d)/"out.tar"; cur.dump_tar(p); cur=Output.load_tar(p)
                else:
                    cur=Output.load_yaml(io.StringIO(cur.dump_yaml()))
                e=equal(o,cur)
                if e: verdict=f"DIFF cycle{cycle}: {e}"; break
        except Exception as ex:
            verdict=f"EXC {type(ex).__name__}: {str(ex)[:60]}"
        print(sname,fmt,verdict)
o=mk(shapes["esf1"],specials)
s=o.dump_yaml()
import re
print([l for l in s.splitlines() if "!!" in l][:5])
