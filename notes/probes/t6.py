import numpy as np, time
import yadism, yadism.log
yadism.log.silent_mode=True
from cards import *
def nonfinite(out):
    bad=[]
    for k,v in out.items():
        if isinstance(v,list) and v and hasattr(v[0],'orders'):
            for r in v:
                for ok,(val,err) in r.orders.items():
                    if not (np.all(np.isfinite(val)) and np.all(np.isfinite(err))): bad.append((k,r.x,ok))
    return bad
from eko import interpolation
xg=interpolation.make_grid(15,10,x_min=1e-7).tolist()
for name in ["g1_charm","g1_total","g1"]:
    t0=time.time()
    try:
        out=yadism.run_yadism(theory(PTO=2,PTODIS=2,FNS="FFNS",NfFF=3), obs({name:[dict(x=1e-6,Q2=100.0),dict(x=1e-4,Q2=10.0)]},xgrid=xg,prDIS="NC"))
        print(name, "nonfinite:", nonfinite(out), time.time()-t0)
    except Exception as e:
        print(name,"EXC",type(e).__name__,e)
t0=time.time()
out=yadism.run_yadism(theory(PTO=3,PTODIS=3,FNS="FFNS",NfFF=3), obs({"F2_total":[dict(x=0.01,Q2=50.0)]},prDIS="NC"))
print("N3LO FFNS total", time.time()-t0, nonfinite(out), len(out["F2_total"][0].orders))
