import time, sys, os
t0=time.time()
import yadism, yadism.log
yadism.log.silent_mode=True
from cards import *
print("import", time.time()-t0)
for pto in [0,1,2]:
    t0=time.time()
    out = yadism.run_yadism(theory(PTO=pto,PTODIS=pto), obs({"F2_light":[dict(x=0.1,Q2=10.0), dict(x=0.01,Q2=20.0)]}))
    print(pto, time.time()-t0, sorted(out["F2_light"][0].orders.keys()))
