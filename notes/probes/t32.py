import numpy as np, warnings
warnings.filterwarnings("ignore")
from yadism.coefficient_functions.light import fl_cc
class E: x=0.1; Q2=10.0
rsl=fl_cc.NonSingletOdd(E(),4)[3]()
try:
    print("loc value:", rsl.loc(0.3, rsl.args["loc"]), "args len", len(rsl.args["loc"]))
except Exception as e:
    print("raised", type(e).__name__, e)
import numba; print("jit disabled?", numba.config.DISABLE_JIT, "boundscheck", numba.config.BOUNDSCHECK)
print("has py_func:", hasattr(rsl.loc,"py_func"))
