import numpy as np, warnings, itertools, time, collections
warnings.filterwarnings("ignore")
from multiprocessing import Pool
from cards import *
def maxdev(a,b,perm=None,sgn=1):
    w=0
    for o in a.orders:
        A=a.orders[o][0]; B=b.orders[o][0]
        if perm is not None: A=sgn*A[perm]
        w=max(w,np.max(np.abs(A-B))/(max(np.max(np.abs(A)),np.max(np.abs(B)))+1e-300))
    return w
def job(c):
    kind,hv,(scheme,nfff),pto,tmc=c
    import yadism, yadism.log; yadism.log.silent_mode=True
    from eko import basis_rotation as br
    pids=list(br.flavor_basis_pids); conj=[pids.index(-p) if abs(p)<=6 else i for i,p in enumerate(pids)]
    name=f"{kind}_{hv}"; kins=[dict(x=0.1,Q2=30.0),dict(x=0.3,Q2=3.0)]
    ckm="0.9 0.4 0.1 0.3 0.8 0.5 0.2 0.35 0.7"
    def go(proc,proj,pol=0.0,**th):
        t=dict(PTO=pto,PTODIS=pto,FNS=scheme,NfFF=nfff,TMC=tmc,CKM=ckm); t.update(th)
        return yadism.run_yadism(theory(**t), obs({name:kins},n=8,deg=3,prDIS=proc,ProjectileDIS=proj,PolarizationDIS=pol))[name]
    res={}
    try:
        a=go("NC","electron",0.3,MZ=float("inf")); b=go("EM","electron",0.3)
        res["nc2em"]=max(maxdev(x,y) for x,y in zip(a,b))
        a=go("NC","positron",0.3); b=go("NC","electron",-0.3)
        res["posflip"]=max(maxdev(x,y) for x,y in zip(a,b))
        if not kind.startswith("g"):
            a=go("CC","neutrino"); b=go("CC","antineutrino")
            res["conj"]=max(maxdev(x,y,conj,-1 if kind=="F3" else 1) for x,y in zip(a,b))
        if scheme=="ZM-VFNS" and hv in ("light","total"):
            a=go("NC","electron",0.3)
            w=0
            for r in a:
                for o in r.orders:
                    v=r.orders[o][0]; w=max(w,np.max(np.abs(v[pids.index(1)]-v[pids.index(3)]))/(np.max(np.abs(v))+1e-300), np.max(np.abs(v[pids.index(-1)]-v[pids.index(-3)]))/(np.max(np.abs(v))+1e-300))
            res["d_s"]=w
        return c,res
    except Exception as ex:
        return c,"EXC "+type(ex).__name__+str(ex)[:40]
if __name__=="__main__":
    cells=list(itertools.product(["F2","FL","F3","g1","g4"],["light","total","charm"],[("ZM-VFNS",3),("FFNS",3),("FFNS",4)],[1,2],[0,1]))
    t0=time.time()
    with Pool(16) as p: res=p.map(job,cells,chunksize=2)
    print("wall",time.time()-t0,len(cells))
    worst=collections.defaultdict(float); exc=collections.Counter()
    for c,r in res:
        if isinstance(r,str): exc[r]+=1; continue
        for k,v in r.items(): worst[k]=max(worst[k],v)
    print(dict(worst)); print(exc.most_common(6))
