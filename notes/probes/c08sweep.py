import adani
_orig=adani.HighScaleSplitLogs
def _compat(order,kind,channel,version="exact"):
    v={"exact":adani.HighScaleVersion.Exact,"gm":adani.HighScaleVersion.GM}[version] if isinstance(version,str) else version
    return _orig(order,kind,channel,v)
adani.HighScaleSplitLogs=_compat
import numpy as np, warnings, itertools, time
warnings.filterwarnings("ignore")
from multiprocessing import Pool
from cards import *
RS=[1e2,1e3,1e4,1e5,1e6]
def job(a):
    proc,kind,hq,x=a
    import yadism, yadism.log; yadism.log.silent_mode=True
    from eko import basis_rotation as br
    pids=list(br.flavor_basis_pids)
    m={"charm":1.51,"bottom":4.92}[hq]; nfff={"charm":3,"bottom":4}[hq]
    name=f"{kind}_{hq}"
    kins=[dict(x=x,Q2=m*m*r) for r in RS]
    proj="neutrino" if proc=="CC" else "electron"
    try:
        A=yadism.run_yadism(theory(PTO=2,PTODIS=2,FNS="FFNS",NfFF=nfff,RenScaleVar=False,FactScaleVar=False), obs({name:kins},n=14,deg=4,prDIS=proc,ProjectileDIS=proj))[name]
        B=yadism.run_yadism(theory(PTO=2,PTODIS=2,FNS="FFN0",NfFF=nfff,RenScaleVar=False,FactScaleVar=False), obs({name:kins},n=14,deg=4,prDIS=proc,ProjectileDIS=proj))[name]
    except Exception as ex:
        return a,"EXC "+type(ex).__name__+str(ex)[:50]
    hqpid={"charm":4,"bottom":5}[hq]
    groups={"g":[pids.index(21)],"q":[pids.index(p) for p in (1,-1,2,-2,3,-3)],"h":[pids.index(hqpid),pids.index(-hqpid)]}
    out={}
    for o in [0,1,2]:
        for g,rows in groups.items():
            seq=[]
            for i in range(len(RS)):
                a_=A[i].orders[(o,0,0,0)][0][rows]; b_=B[i].orders[(o,0,0,0)][0][rows]
                sc=max(np.max(np.abs(a_)),np.max(np.abs(b_)))
                seq.append((np.max(np.abs(a_-b_))/sc) if sc>0 else 0.0)
            if any(s>0 for s in seq): out[(o,g)]=seq
    return a,out
if __name__=="__main__":
    jobs=[(p,k,h,x) for p,k in [("NC","F2"),("NC","FL"),("NC","g1"),("CC","F2"),("CC","FL"),("CC","F3")] for h in ["charm","bottom"] for x in [0.01,0.1,0.4]]
    t0=time.time()
    with Pool(16) as p: res=p.map(job,jobs)
    print("wall",time.time()-t0)
    for a,out in res:
        if isinstance(out,str): print(a,out); continue
        for (o,g),seq in sorted(out.items()):
            print(a,"order",o,"rows",g," ".join("%.1e"%s for s in seq))
