import numpy as np, warnings
warnings.filterwarnings("ignore")
import yadism, yadism.log
yadism.log.silent_mode=True
from cards import *
from eko import basis_rotation as br
pids=list(br.flavor_basis_pids)
k=[dict(x=0.05,Q2=50.0)]
for pto in [1,2,3]:
    f=yadism.run_yadism(theory(PTO=pto,PTODIS=pto), obs({"F2_light":k},prDIS="EM"))["F2_light"][0]
    for o in f.orders:
        U=f.orders[o][0][pids.index(2)]; C=f.orders[o][0][pids.index(4)]
        d=np.max(np.abs(U-C)); 
        if d>0: print(pto,o,"max|u-c|",d,"scale",np.max(np.abs(U)))
