import itertools, sys, os, json, warnings, collections, time
warnings.filterwarnings("ignore")
import numpy as np
from multiprocessing import Pool
from cards import *
def shim():
    import adani
    if getattr(adani,"_shimmed",False): return
    _orig=adani.HighScaleSplitLogs
    def _compat(order,kind,channel,version="exact"):
        v={"exact":adani.HighScaleVersion.Exact,"gm":adani.HighScaleVersion.GM}[version] if isinstance(version,str) else version
        return _orig(order,kind,channel,v)
    adani.HighScaleSplitLogs=_compat; adani._shimmed=True
KINDS=["F2","FL","F3","g1","gL","g4"]
def reldev(a,b):
    w=0
    for o in a.orders:
        A=a.orders[o][0]; B=b.orders[o][0]
        w=max(w,np.max(np.abs(A-B))/(max(np.max(np.abs(A)),np.max(np.abs(B)))+1e-300))
    return w
def run(cell):
    kind,proc,(scheme,nfff),pto,tmc=cell
    shim()
    import yadism, yadism.log
    from eko import basis_rotation as br
    pids=list(br.flavor_basis_pids)
    yadism.log.silent_mode=True
    proj="neutrino" if proc=="CC" else "electron"
    kins=[dict(x=0.1,Q2=30.0),dict(x=0.3,Q2=3.0)]
    out={}
    def go(names,**kw):
        th=dict(PTO=pto,PTODIS=pto,FNS=scheme,NfFF=nfff,TMC=tmc); ob=dict(n=8,deg=3,prDIS=proc,ProjectileDIS=proj)
        for k,v in kw.items(): (th if k in ("FONLLParts",) else ob)[k]=v
        return yadism.run_yadism(theory(**th), obs({n:kins for n in names},**ob))
    res={}
    try:
        names=[f"{kind}_{h}" for h in ["total","light","charm","bottom","top"]]
        base=go(names)
        massive=[h for i,h in enumerate(["charm","bottom","top"]) if (scheme!="ZM-VFNS" and i+4>nfff and (not scheme.startswith("FONLL") or i+4==nfff+1))]
        for i in range(2):
            s=base[f"{kind}_light"][i]
            for h in massive: s=s+base[f"{kind}_{h}"][i]
            res.setdefault("partition",0); res["partition"]=max(res["partition"],reldev(base[f"{kind}_total"][i],s))
        if scheme.startswith("FONLL"):
            ml=go([f"{kind}_total"],FONLLParts="massless"); mv=go([f"{kind}_total"],FONLLParts="massive")
            for i in range(2):
                res["fonllparts"]=max(res.get("fonllparts",0),reldev(base[f"{kind}_total"][i], ml[f"{kind}_total"][i]+mv[f"{kind}_total"][i]))
        for tgt,(Z,A) in [("neutron",(0.0,1.0)),("iron",(23.403,49.618))]:
            t=go([f"{kind}_total"],TargetDIS=tgt)
            for i in range(2):
                P=base[f"{kind}_total"][i]; T=t[f"{kind}_total"][i]; w=0
                for o in P.orders:
                    p=P.orders[o][0]; q=T.orders[o][0]; e=p.copy()
                    for s in (1,-1):
                        iu,idd=pids.index(2*s),pids.index(1*s)
                        e[iu]=(Z*p[iu]+(A-Z)*p[idd])/A; e[idd]=(Z*p[idd]+(A-Z)*p[iu])/A
                    w=max(w,np.max(np.abs(q-e))/(np.max(np.abs(p))+1e-300))
                res["iso_"+tgt]=max(res.get("iso_"+tgt,0),w)
        if proc=="NC":
            acc=None
            for qn in ["up","down","strange","charm","bottom","top"]:
                r=go([f"{kind}_total"],NCPositivityCharge=qn)
                acc=[r[f"{kind}_total"][i] if acc is None else acc[i]+r[f"{kind}_total"][i] for i in range(2)]
            for i in range(2): res["positivity"]=max(res.get("positivity",0),reldev(base[f"{kind}_total"][i],acc[i]))
        return cell,"OK",res
    except Exception as ex:
        return cell,type(ex).__name__,str(ex)[:60]
if __name__=="__main__":
    cells=list(itertools.product(KINDS,["EM","NC","CC"],[("ZM-VFNS",3),("FFNS",3),("FFNS",4),("FFN0",3),("FONLL-FFNS",3),("FONLL-FFN0",4)],[1,2],[0,1]))
    print(len(cells)); t0=time.time()
    with Pool(16) as p: res=p.map(run,cells,chunksize=2)
    print("wall",time.time()-t0)
    worst=collections.defaultdict(float); bad=[]
    exc=collections.Counter()
    for cell,st,r in res:
        if st!="OK": exc[(st,r)]+=1; continue
        for k,v in r.items():
            worst[k]=max(worst[k],v)
            if v>1e-12: bad.append((k,"%.2e"%v,cell))
    print(dict(worst)); print(exc.most_common(8))
    for b in bad[:40]: print(b)
    print("n bad",len(bad))
