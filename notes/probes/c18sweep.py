import numpy as np, warnings, importlib, pkgutil, inspect, time
warnings.filterwarnings("ignore")
import numba
from numba.core.registry import CPUDispatcher
import yadism
disp=[]
for mi in pkgutil.walk_packages(yadism.__path__, "yadism."):
    if ".asy.f2_nc" in mi.name or ".asy.fl_nc" in mi.name: continue
    try: m=importlib.import_module(mi.name)
    except Exception as e: print("import fail",mi.name,type(e).__name__); continue
    for n,o in vars(m).items():
        if isinstance(o,CPUDispatcher) and o.py_func.__module__==m.__name__: disp.append((mi.name,n,o))
print("njit kernels:",len(disp))
sigs=set(str(d[2].nopython_signatures) for d in disp); print(list(sigs)[:5], len(sigs))
worst=[];bad=[]
zs=[1e-4,0.01,0.1,0.3,0.5,0.7,0.9,0.99,0.9999]
for mod,name,f in disp:
    sig=f.nopython_signatures
    if not sig: continue
    s=sig[0]
    if len(s.args)==2 and str(s.args[1]).startswith("array"):
        w=0
        for nf in (3.0,5.0):
            args=np.array([nf,2.0,0.5,1.5]) 
            for z in zs:
                try:
                    a=f(z,args); b=f.py_func(z,args)
                except Exception as e:
                    bad.append((mod,name,type(e).__name__)); break
                if np.isfinite(a) or np.isfinite(b):
                    w=max(w,abs(a-b)/(abs(b)+1e-300) if b!=0 else abs(a))
        worst.append((w,mod,name))
    else:
        bad.append((mod,name,"sig "+str(s)))
worst.sort(reverse=True)
print("top deviations:",[(f"{w:.1e}",m.split('.')[-1],n) for w,m,n in worst[:8]])
print("other signatures / errors:",bad[:20], len(bad))
