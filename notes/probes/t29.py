import numpy as np, warnings, importlib, inspect
warnings.filterwarnings("ignore")
from yadism.coefficient_functions.partonic_channel import PartonicChannel, EmptyPartonicChannel
class E: x=0.1; Q2=10.0
bad=[];n=0
for mod in ["f2_nc","f3_nc","fl_nc","f2_cc","f3_cc","fl_cc","g1_nc","gl_nc","g4_nc"]:
    m=importlib.import_module("yadism.coefficient_functions.light."+mod)
    for name,cls in inspect.getmembers(m, inspect.isclass):
        if not issubclass(cls,PartonicChannel) or cls in (PartonicChannel,): continue
        if cls.__module__.split('.')[-1] not in (mod,"f2_nc","f3_nc","fl_nc","partonic_channel"): pass
        try: pc=cls(E(),4)
        except Exception as e: bad.append((mod,name,"init",repr(e))); continue
        for o in range(4):
            try: rsl=pc[o]()
            except Exception as e: bad.append((mod,name,o,"build",repr(e)[:60])); continue
            if rsl is None: continue
            for part in ["reg","sing","loc"]:
                f=getattr(rsl,part)
                if f is None: continue
                for z in [0.3,0.7]:
                    n+=1
                    try:
                        v=f(z, rsl.args[part])
                        if not np.isfinite(v): bad.append((mod,name,o,part,"nonfinite",z))
                    except Exception as e:
                        bad.append((mod,name,o,part,type(e).__name__,len(rsl.args[part]))); break
print("calls",n); 
for b in bad: print(b)
