import itertools, warnings, collections, time
warnings.filterwarnings("ignore")
import numpy as np
from cards import *
import yadism, yadism.log
yadism.log.silent_mode=True
GEV_CM2=3.893793e10
def doc_coeffs(kind,x,y,Q2,proj,M2,M2W,GF):
    # transcribed from docs/source/theory/intro.rst : sigma = N (F2 - yL/y+ FL + (-1)^l y-/y+ xF3), N includes y+ where stated
    yp=1+(1-y)**2; ym=1-(1-y)**2; yL=y*y; l=-1 if proj in ("positron","antineutrino") else 1
    if kind=="XSHERANC": return (1.0,-yL/yp,l*ym/yp)
    if kind=="XSHERANCAVG": return (1.0,-yL/yp,0.0)
    if kind=="XSHERACC": N=0.25*yp; return (N,-N*yL/yp,l*N*ym/yp)
    if kind in ("XSCHORUSCC","XSNUTEVCC","XSNUTEVNU"):
        ypc=yp-2*(x*y)**2*M2/Q2
        if kind=="XSCHORUSCC": N=GEV_CM2*GF**2*np.sqrt(M2)/(2*np.pi*(1+Q2/M2W)**2)*ypc
        if kind=="XSNUTEVCC": N=100/(2*(1+Q2/M2W)**2)*ypc
        if kind=="XSNUTEVNU": N=GEV_CM2*GF**2*np.sqrt(M2)/(2*np.pi)*ypc
        return (N,-N*yL/ypc,l*N*ym/ypc)
    if kind=="FW":
        yLf=y*y/(2*(y*y/2+(1-y)-M2*(x*y)**2/Q2)); return (1.0,-yLf,0.0)
    if kind=="XSFPFCC":
        N=GF**2/(8*np.pi*x*(1+Q2/M2W)**2)*yp; return (N,-N*yL/yp,l*N*ym/yp)
    if kind=="F1": return (1.0,-1.0,0.0)
rows=[]
for kind,proj,tmc in itertools.product(["XSHERANC","XSHERANCAVG","XSHERACC","XSCHORUSCC","XSNUTEVCC","XSNUTEVNU","FW","XSFPFCC","F1"],["electron","positron","neutrino","antineutrino"],[0,1]):
    proc="NC" if kind in ("XSHERANC","XSHERANCAVG","F1") else "CC"
    x,y,Q2=0.1,0.4,30.0
    kk=[dict(x=x,Q2=Q2,y=y)]
    th=theory(PTO=1,PTODIS=1,TMC=tmc)
    out=yadism.run_yadism(th, obs({kind:kk,"F2_total":kk,"FL_total":kk,"F3_total":kk},n=8,deg=3,prDIS=proc,ProjectileDIS=proj))
    a,b,c=doc_coeffs(kind,x,y,Q2,proj,th["MP"]**2,th["MW"]**2,th["GF"])
    num=den=0; ratio=[]
    for o in out[kind][0].orders:
        X=out[kind][0].orders[o][0]; E=a*out["F2_total"][0].orders[o][0]+b*out["FL_total"][0].orders[o][0]+c*out["F3_total"][0].orders[o][0]
        num=max(num,np.max(np.abs(X-E))); den=max(den,np.max(np.abs(X)))
        m=np.abs(E)>1e-12*np.max(np.abs(E)) if np.max(np.abs(E))>0 else np.zeros_like(E,bool)
        if m.any(): ratio.append(np.median(X[m]/E[m]))
    rows.append((kind,proj,tmc,num/(den+1e-300), np.median(ratio) if ratio else None))
for r in rows:
    if r[3]>1e-12: print("DEV",r)
print("checked",len(rows),"max dev among agreeing:",max(r[3] for r in rows if r[3]<=1e-12))
