# independent PDG/docs transcription (Fractions) vs code get_weight
from fractions import Fraction as F
import itertools, numpy as np
from yadism.coefficient_functions.coupling_constants import CouplingConstants
def textbook(kindclass, q, s, r, omd, pol, proj, process):
    # kindclass: "PC" -> VV+AA weight (F2,FL,g1), "PV" -> VA+AV weight (F3,gL,g4)
    ap=abs(proj); el=F(-1) if ap==11 else F(0); T3l=F(-1,2) if ap==11 else F(1,2)
    gVe=T3l-2*el*s; gAe=T3l
    anti = proj<0
    # helicity-dependent effective couplings: particle (gV - lam gA), antiparticle (gV + lam gA)   [for e+-; for nu only pol=0 judged]
    sg = 1 if anti else -1
    if ap==12: sg = -sg  # code's convention for neutrinos (not judged unless pol==0)
    lam=pol
    eta=r/(4*s*(1-s))/omd
    e=F(2,3) if q%2==0 else F(-1,3); T3=F(1,2) if q%2==0 else F(-1,2); gV=T3-2*e*s; gA=T3
    if process=="EM":
        return el*el*e*e if kindclass=="PC" else F(0)
    if kindclass=="PC":
        return el*el*e*e + el*(gVe+sg*lam*gAe)*eta*(2*e*gV) + (gVe**2+gAe**2+2*sg*lam*gVe*gAe)*eta**2*(gV**2+gA**2)
    else:
        return el*(gAe+sg*lam*gVe)*eta*(2*e*gA) + (2*gVe*gAe+sg*lam*(gVe**2+gAe**2))*eta**2*(2*gV*gA)
worst=0;n=0
for s,r,omd,pol,proj,process in itertools.product([F(1,2),F(1,4),F(1,8),F(3,8)],[F(0),F(1,2),F(1,5),F(2,3)],[F(1),F(1,2),F(5,4)],[F(-1),F(-1,2),F(0),F(1,3),F(1)],[11,-11,12,-12],["EM","NC"]):
    Q2=10.0; MZ2=float("inf") if r==0 else Q2*(1-float(r))/float(r)
    th={"CKM":"1 0 0 0 1 0 0 0 1","MZ":np.sqrt(MZ2),"SIN2TW":float(s),"MW":80.0}
    ob={"ProjectileDIS":{11:"electron",-11:"positron",12:"neutrino",-12:"antineutrino"}[proj],"prDIS":process,"PolarizationDIS":float(pol),"PropagatorCorrection":float(1-omd),"NCPositivityCharge":None}
    cc=CouplingConstants.from_dict(th,ob)
    for q in range(1,7):
        for kc,(a,b) in {"PC":("VV","AA"),"PV":("VA","AV")}.items():
            w=cc.get_weight(q,Q2,a)+cc.get_weight(q,Q2,b)
            t=float(textbook(kc,q,s,r,omd,pol,proj,process))
            d=abs(w-t); worst=max(worst,d); n+=1
            if d>1e-12: print("MISMATCH",s,r,omd,pol,proj,process,q,kc,w,t); raise SystemExit
print("compared",n,"worst abs diff",worst)
