import numpy as np, warnings
warnings.filterwarnings("ignore")
import yadism, yadism.log
yadism.log.silent_mode=True
from cards import *
from eko import interpolation
class Toy:
    def hasFlavor(self,pid): return pid in (21,1,2,-1,-2,3,-3)
    def xfxQ2(self,pid,x,Q2): return (x**0.7)*(1-x)**3*(1+0.3*pid if abs(pid)<4 else 1.5)
xg=interpolation.make_grid(20,20,x_min=1e-3).tolist()
def pred(out,name): return np.array([r["result"] for r in out.apply_pdf_alphas_alphaqed_xir_xif(Toy(), lambda m:0.3*4*np.pi/ (4*np.pi)*4*np.pi, lambda m:0.0, 1.0,1.0)[name]])
for (x,Q2) in [(0.5,2.0),(0.2,4.0)]:
    M2=0.938**2; mu=M2/Q2; rho=np.sqrt(1+4*x*x*mu); xi=2*x/(1+rho)
    U=np.append(np.linspace(xi,1.0,161)[:-1],1.0)
    kin=[dict(x=float(u),Q2=Q2) for u in U[:-1]]
    bare=yadism.run_yadism(theory(PTO=1,PTODIS=1,TMC=0), obs({"F2_light":kin,"FL_light":kin,"F3_light":kin},xgrid=xg,prDIS="CC",ProjectileDIS="neutrino"))
    G={k:np.append(pred(bare,k+"_light"),0.0) for k in ["F2","FL","F3"]}
    I=lambda f: np.trapz(f,U)
    h2=I(G["F2"]/U**2); g2=I((U-xi)*G["F2"]/U**2); h3pub=I(G["F3"]/U**2)
    exp={}
    exp[("F2",3)]=x**2/(xi**2*rho**3)*G["F2"][0]+6*mu*x**3/rho**4*h2+12*mu**2*x**4/rho**5*g2
    exp[("F2",1)]=x**2/(xi**2*rho**3)*G["F2"][0]+6*mu*x**3/rho**4*h2
    exp[("F2",2)]=x**2/(xi**2*rho**3)*G["F2"][0]*(1+6*mu*x*xi/rho*(1-xi)**2)
    exp[("FL",3)]=x**2/(xi**2*rho)*G["FL"][0]+4*mu*x**3/rho**2*h2+8*mu**2*x**4/rho**3*g2
    exp[("FL",1)]=x**2/(xi**2*rho)*G["FL"][0]+4*mu*x**3/rho**2*h2
    exp[("FL",2)]=x**2/(xi**2*rho)*(G["FL"][0]+G["F2"][0]*(4*mu*x*xi/rho*(1-xi)+8*(mu*x*xi/rho)**2*(-np.log(xi)-1+xi)))
    exp[("F3",3)]=x**2/(xi**2*rho**2)*G["F3"][0]+2*mu*x**3/rho**3*h3pub
    exp[("F3",2)]=x**2/(xi**2*rho**2)*G["F3"][0]*(1-mu*x*xi/rho*(1-xi)*np.log(xi))
    for tmc in [1,2,3]:
        out=yadism.run_yadism(theory(PTO=1,PTODIS=1,TMC=tmc), obs({k+"_light":[dict(x=x,Q2=Q2)] for k in ["F2","FL","F3"]},xgrid=xg,prDIS="CC",ProjectileDIS="neutrino"))
        for k in ["F2","FL","F3"]:
            key=(k,tmc if (k,tmc) in exp else 3)
            got=pred(out,k+"_light")[0]
            print("x=%.2f Q2=%.1f"%(x,Q2),k,"TMC",tmc,"yadism %.6f"%got,"formula %.6f"%exp[key],"rel %.1e"%abs(got/exp[key]-1))
