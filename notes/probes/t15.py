import numpy as np, warnings, scipy.integrate as si
warnings.filterwarnings("ignore")
from yadism.coefficient_functions.light import f2_cc, f3_cc, f2_nc, f3_nc, g1_nc, fl_nc
class E:  # minimal ESF stub
    x=0.1; Q2=10.0
def mom(rsl, N):
    if rsl is None: return 0.0
    tot=0.0
    if rsl.reg is not None:
        tot+=si.quad(lambda z: z**(N-1)*rsl.reg(z, rsl.args["reg"]),0,1,epsabs=1e-11,epsrel=1e-11,limit=400)[0]
    if rsl.sing is not None:
        tot+=si.quad(lambda z: (z**(N-1)-1)*rsl.sing(z, rsl.args["sing"]),0,1,epsabs=1e-11,epsrel=1e-11,limit=400)[0]
    if rsl.loc is not None:
        tot+=rsl.loc(0.0, rsl.args["loc"])
    return tot
z3=1.2020569031595942; z5=1.0369277551433699
for nf in [3,4,5]:
    print("nf",nf)
    for name,cls in [("F2cc odd",f2_cc.NonSingletOdd),("F2cc even",f2_cc.NonSingletEven),("F3cc odd",f3_cc.NonSingletOdd),("F3cc even",f3_cc.NonSingletEven),("F3nc ns",f3_nc.NonSinglet),("g1 ns",g1_nc.NonSinglet)]:
        pc=cls(E(),nf)
        ms=[]
        for o in [1,2,3]:
            try: ms.append(mom(pc[o](),1))
            except Exception as ex: ms.append(repr(ex)[:30])
        print("  %-10s"%name, ms)
    try:
        v=f3_cc.Valence(E(),nf)[3](); print("  F3 valence N3LO first moment", mom(v,1))
    except Exception as ex: print("val",ex)
    a1=-4.0; a2=-(55/12-nf/3)*16
    a3=-(13841/216+44/9*z3-55/2*z5 - nf*(10339/1296+61/54*z3-5/3*z5) + nf**2*115/648)*64
    lbl=nf*(-11/144+z3/6)*64  # candidate light-by-light
    print("  GLS ref (as/4pi):", a1,a2,a3, " lbl cand", lbl)
