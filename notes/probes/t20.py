import numpy as np, warnings
warnings.filterwarnings("ignore")
import yadism, yadism.log
yadism.log.silent_mode=True
from cards import *
k1={"x":0.5,"Q2":0.8}; k2={"Q2":0.5,"x":0.8}
o=yadism.run_yadism(theory(PTO=0,PTODIS=0,Q0=0.5), obs({"F2_light":[k1,k2]}))
r=o["F2_light"]
print([(e.x,e.Q2) for e in r])
solo=yadism.run_yadism(theory(PTO=0,PTODIS=0,Q0=0.5), obs({"F2_light":[k2]}))["F2_light"][0]
print("solo", solo.x, solo.Q2, "same values as in joint run:", np.array_equal(solo.orders[(0,0,0,0)][0], r[1].orders[(0,0,0,0)][0]))
