import numpy as np, warnings
warnings.filterwarnings("ignore")
import yadism, yadism.log
yadism.log.silent_mode=True
from cards import *
for tmc in [0,1,2,3]:
    for kin in [dict(x=1.2,Q2=1.0), dict(x=1.0,Q2=1.0), dict(x=0.5,Q2=-1.0), dict(x=0.5,Q2=0.0)]:
        try:
            out=yadism.run_yadism(theory(PTO=0,PTODIS=0,TMC=tmc,Q0=0.5), obs({"F2_light":[kin]}))
            r=out["F2_light"][0]
            print("TMC",tmc,kin,"ACCEPTED", "finite" if np.all(np.isfinite(r.orders[(0,0,0,0)][0])) else "nonfinite", "max",np.max(np.abs(r.orders[(0,0,0,0)][0])))
        except Exception as e:
            print("TMC",tmc,kin,"->",type(e).__name__,str(e)[:70])
