import numpy as np, io
exec(open("t34.py").read().split("for sname,shape in shapes.items():")[0])
o=mk(shapes["esf1"],specials)
s=o.dump_yaml()
print(s[600:900])
try:
    Output.load_yaml(io.StringIO(s))
except Exception as e: print(str(e)[:900])
