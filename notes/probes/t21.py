import adani
_orig=adani.HighScaleSplitLogs
def _compat(order,kind,channel,version="exact"):
    v={"exact":adani.HighScaleVersion.Exact,"gm":adani.HighScaleVersion.GM}[version] if isinstance(version,str) else version
    return _orig(order,kind,channel,v)
adani.HighScaleSplitLogs=_compat
import numpy as np, warnings
warnings.filterwarnings("ignore")
import yadism, yadism.log
yadism.log.silent_mode=True
from cards import *
from eko import basis_rotation as br
pids=list(br.flavor_basis_pids); iu,idd=pids.index(2),pids.index(1)
k=[dict(x=0.05,Q2=50.0)]
for fns in ["FFN0","FFNS"]:
  for pto,ptoev in [(2,3),(2,1)]:
    t=theory(PTO=ptoev,PTODIS=pto,FNS=fns,NfFF=3)
    p=yadism.run_yadism(t, obs({"F2_light":k},prDIS="EM",TargetDIS="proton"))["F2_light"][0]
    n=yadism.run_yadism(t, obs({"F2_light":k},prDIS="EM",TargetDIS="neutron"))["F2_light"][0]
    worst=0
    for o in p.orders:
        P=p.orders[o][0]; N=n.orders[o][0]
        d=max(np.max(np.abs(P[iu]-N[idd])), np.max(np.abs(P[idd]-N[iu])))
        worst=max(worst, d/(np.max(np.abs(P))+1e-300))
        if d>1e-12: print("   ",fns,pto,o,"swap violated: |P[u]-N[d]|",np.max(np.abs(P[iu]-N[idd])),"; N[u]==P[u]?",np.allclose(N[iu],P[iu]))
    print(fns,"ptodis",pto,"pto_evol",ptoev,"neutron=swap(proton) worst rel diff",worst)
