import numpy as np, time, warnings
warnings.filterwarnings("ignore")
import yadism, yadism.log
yadism.log.silent_mode=True
from cards import *
from eko import basis_rotation as br
pids=list(br.flavor_basis_pids)
for name in ["F2_total","F2","F2_light","F2_charm","F2_bottom","F2_top"]:
    out=yadism.run_yadism(theory(PTO=3,PTODIS=3,FNS="FFNS",NfFF=3), obs({name:[dict(x=0.01,Q2=50.0)]},prDIS="NC"))
    v=out[name][0].orders[(3,0,0,0)][0]
    bad=np.argwhere(~np.isfinite(v))
    print(name, "nonfinite rows:", sorted(set(pids[i] for i,_ in bad)), "cols", sorted(set(j for _,j in bad)), "n", len(bad))
