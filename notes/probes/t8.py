import numpy as np, warnings
warnings.filterwarnings("ignore")
import yadism, yadism.log
yadism.log.silent_mode=True
from cards import *
from yadism import runner
from yadism import coefficient_functions as cf
from yadism.esf import conv
r=runner.Runner(theory(PTO=3,PTODIS=3,FNS="FFNS",NfFF=3), obs({"F2_charm":[dict(x=0.01,Q2=50.0)]},prDIS="NC"))
esf=r.observables["F2_charm"].elements[0]
for k in cf.Combiner(esf).collect_elems():
    for o in range(4):
        if not k.has_order(o): continue
        rsl=k.coeff[o]()
        if rsl is None: continue
        v,e=conv.convolve_vector(rsl, r.configs.managers["interpolator"], k.coeff.convolution_point())
        print(type(k.coeff).__module__.split('.')[-2:], type(k.coeff).__name__, o, "finite" if np.all(np.isfinite(v)) else "NONFINITE", list(k.partons)[:3])
        if not np.all(np.isfinite(v)):
            zs=np.linspace(0.02,0.9,8)
            print("   reg samples", [float(np.squeeze(rsl.reg(z, rsl.args['reg']))) if rsl.reg else None for z in zs])
