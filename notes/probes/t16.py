import numpy as np, warnings, time
warnings.filterwarnings("ignore")
import yadism, yadism.log
yadism.log.silent_mode=True
from cards import *
class Toy:
    def hasFlavor(self,pid): return pid in (21,1,2,-1,-2,3,-3,4,-4)
    def xfxQ2(self,pid,x,Q2): return (x**0.3)*(1-x)**3*(2.0 if pid==21 else (1+0.3*pid if abs(pid)<4 else 0.2))
def preds(out,name):
    res=[]
    for r in out[name]:
        d={}
        for o,(v,e) in r.orders.items():
            if o[2]==0 and o[3]==0:
                pd=np.array([[Toy().xfxQ2(p,z,1.0)/z if Toy().hasFlavor(p) else 0 for z in out["xgrid"]["grid"]] for p in out["pids"]])
                d[o[0]]=float(np.sum(v*pd))
        res.append(d)
    return res
m=1.51
for proc,name in [("NC","F2_charm"),("NC","FL_charm"),("CC","F2_charm"),("CC","F3_charm")]:
    t0=time.time()
    kins=[dict(x=0.05,Q2=m*m*r) for r in [1e1,1e2,1e3,1e4,1e5]]
    a=preds(yadism.run_yadism(theory(PTO=2,PTODIS=2,FNS="FFNS",NfFF=3), obs({name:kins},prDIS=proc,ProjectileDIS="neutrino" if proc=="CC" else "electron")),name)
    b=preds(yadism.run_yadism(theory(PTO=2,PTODIS=2,FNS="FFN0",NfFF=3), obs({name:kins},prDIS=proc,ProjectileDIS="neutrino" if proc=="CC" else "electron")),name)
    print(proc,name,"%.1fs"%(time.time()-t0))
    for o in [0,1,2]:
        print("  order",o,[ "%.2e/%.2e"%(x[o]-y[o], x[o]) for x,y in zip(a,b)])
