import numpy as np, warnings
warnings.filterwarnings("ignore")
import yadism, yadism.log
yadism.log.silent_mode=True
from cards import *
from eko import basis_rotation as br
pids=list(br.flavor_basis_pids)
conj=[pids.index(-p) if abs(p)<=6 else i for i,p in enumerate(pids)]
k=[dict(x=0.05,Q2=50.0)]
ckm="0.9 0.4 0.1 0.3 0.8 0.5 0.2 0.35 0.7"
for fns,nf,names in [("ZM-VFNS",4,["F2_light","F3_light","FL_light","F2_charm","F2_total"]),("FFNS",3,["F2_light","F3_light","FL_light","F2_charm","F3_charm","FL_charm","F2_total","F3_total","F3_bottom"])]:
  for pa,pb in [("neutrino","antineutrino"),("electron","positron")]:
    t=theory(PTO=1,PTODIS=1,FNS=fns,NfFF=nf,CKM=ckm)
    try:
        a=yadism.run_yadism(t, obs({n:k for n in names},prDIS="CC",ProjectileDIS=pa))
        b=yadism.run_yadism(t, obs({n:k for n in names},prDIS="CC",ProjectileDIS=pb))
    except Exception as e:
        print(fns,pa,"EXC",type(e).__name__,e); continue
    for n in names:
        sgn=-1 if n.startswith("F3") else 1
        w=0
        for o in a[n][0].orders:
            A=a[n][0].orders[o][0]; B=b[n][0].orders[o][0]
            w=max(w, np.max(np.abs(B-sgn*A[conj]))/(np.max(np.abs(A))+1e-300))
        print(fns,pa,"->",pb,n,"conj rel dev",w)
