import numpy as np, warnings, copy, itertools
warnings.filterwarnings("ignore")
import yadism, yadism.log; yadism.log.silent_mode=True
from cards import *
from yadism.input import compatibility
from yadism.output import Output
from yadism.esf.result import ESFResult
from fractions import Fraction as F
# ---- C17 exact contraction on a synthetic output with integer operators
pids=(22,-2,-1,21,1,2); xg=[0.125,0.25,0.5,1.0]
class Fake:
    def __init__(s,have): s.have=have
    def hasFlavor(s,p): return p in s.have
    def xfxQ2(s,p,x,Q2): return float(F(abs(p)%7+1,3)*F(x).limit_denominator(1000)*F(Q2).limit_denominator(1000)) if p in s.have else 1e99
worst=0;n=0
rng=np.random.default_rng(0)
for pto,(xr,xf),have in itertools.product([0,1,2,3],[(1,1),(2,0.5),(0.5,2),(1,2)],[(21,1,2,-1,-2),(21,1),(22,-2,-1,21,1,2)]):
    keys=[(a,0,r,f) for a in range(pto+1) for f in range(a+1) for r in range(max(a,1))]
    orders={k:(rng.integers(-5,6,size=(len(pids),len(xg))).astype(float),np.zeros((len(pids),len(xg)))) for k in keys}
    o=Output(); o["xgrid"]={"grid":xg,"log":True}; o["pids"]=pids; o["F2_light"]=[ESFResult(0.25,4.0,None,orders)]
    pdf=Fake(have)
    got=o.apply_pdf_alphas_alphaqed_xir_xif(pdf, lambda mu: 4*np.pi*0.25/mu, lambda mu: 0.5, xr, xf)["F2_light"][0]["result"]
    Q2=4.0; a_s=0.25/(np.sqrt(Q2)*xr); LR=np.log(1/xr**2); LF=np.log(1/xf**2)
    exp=0
    for (k,l,i,j),(v,e) in orders.items():
        pref=a_s**k*0.5**l*(1 if i==0 else LR**i)*(1 if j==0 else LF**j)
        exp+=pref*sum(v[a][b]*pdf.xfxQ2(p,xg[b],Q2*xf**2)/xg[b] for a,p in enumerate(pids) if p in have for b in range(len(xg)))
    worst=max(worst,abs(got-exp)/(abs(exp)+1e-300)); n+=1
print("C17 contraction cases",n,"worst rel",worst)
# ---- C20: non-mutation, idempotence, echo
bad=[]
for fns,nfff,tgt,extra in itertools.product(["ZM-VFNS","FFNS","FFN0","FONLL-FFNS","FONLL-FFN0"],[3,4,5],["proton","neutron","isoscalar","iron","lead","neon","marble",{"Z":3.0,"A":7.0}],[{}, {"PTODIS":None,"FONLLParts":None}]):
    t=theory(PTO=1,FNS=fns,NfFF=nfff); t.update(extra)
    for k in ("RenScaleVar","FactScaleVar"):
        if extra: t.pop(k,None)
    o=obs({"F2_light":[dict(x=0.1,Q2=30.0)]},n=6,deg=2,TargetDIS=copy.deepcopy(tgt))
    t0,o0=copy.deepcopy(t),copy.deepcopy(o); ids=(id(o["observables"]),id(o["observables"]["F2_light"]),id(o["observables"]["F2_light"][0]),id(o["TargetDIS"]))
    nt,no=compatibility.update(t,o)
    if t!=t0 or o!=o0: bad.append(("mutated by update",fns,nfff,tgt))
    nt2,no2=compatibility.update(nt,no)
    if nt2!=nt or no2!=no: bad.append(("not idempotent",fns,nfff,str(tgt),[k for k in nt2 if nt2.get(k)!=nt.get(k)]))
    if fns in ("ZM-VFNS","FFNS") and not extra and isinstance(tgt,str) and tgt in ("proton","iron"):
        out=yadism.run_yadism(t,o)
        if t!=t0 or o!=o0: bad.append(("mutated by run",fns,nfff,tgt))
        if out.theory!=t0 or out.observables!=o0: bad.append(("echo",fns,nfff,tgt))
        if ids!=(id(o["observables"]),id(o["observables"]["F2_light"]),id(o["observables"]["F2_light"][0]),id(o["TargetDIS"])): bad.append(("ids",))
print("C20 issues:",bad[:10],len(bad))
