import numpy as np, scipy.integrate as si, warnings
warnings.filterwarnings("ignore")
from yadism.coefficient_functions.light.n3lo import xc3ns3p as m3, xc2ns3p as m2
from yadism.coefficient_functions.light.nnlo import xc2ns2p, xc3ns2p
def check(name, sing, loc, nf):
    a=np.array([float(nf)])
    out=[]
    x0=1e-9
    for x in [0.05,0.3,0.7,0.95]:
        S,_=si.quad(lambda z:sing(z,a),x0,x,epsabs=1e-12,epsrel=1e-12,limit=200)
        out.append(loc(x,a)-loc(x0,a)+S)
    print(name, nf, ["%.3e"%v for v in out])
for nf in [3,4]:
    check("c2 n3lo fl2", m2.c2ns3b_fl2, m2.c2np3c_fl2, nf)
    check("c3 n3lo m", m3.c3ns3b, m3.c3nm3c, nf)
    check("c3 n3lo p", m3.c3ns3b, m3.c3np3c, nf)
    check("c2 nnlo", xc2ns2p.c2ns2b, xc2ns2p.c2nn2c, nf)
    check("c3 nnlo", xc3ns2p.c3ns2b, xc3ns2p.c3nm2c, nf)
