import importlib, pkgutil, traceback, warnings
warnings.filterwarnings("ignore")
import yadism.coefficient_functions as cf
bad=[]
for fam in ["light","heavy","asy","intrinsic"]:
    pkg=importlib.import_module(f"yadism.coefficient_functions.{fam}")
    for m in pkgutil.iter_modules(pkg.__path__):
        name=f"yadism.coefficient_functions.{fam}.{m.name}"
        try: importlib.import_module(name)
        except Exception as e: bad.append((name,type(e).__name__,str(e)[:80]))
print(bad)
