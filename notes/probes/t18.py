import numpy as np, warnings, time
warnings.filterwarnings("ignore")
import yadism, yadism.log
yadism.log.silent_mode=True
from cards import *
from eko import interpolation
class Toy:
    def hasFlavor(self,pid): return pid in (21,1,2,-1,-2,3,-3)
    def xfxQ2(self,pid,x,Q2): return (x**0.3)*(1-x)**3*(2.0 if pid==21 else (1+0.3*pid))
def pred(out,name):
    return [r["result"] for r in out.apply_pdf_alphas_alphaqed_xir_xif(Toy(), lambda m:0.25, lambda m:0.0, 1.0,1.0)[name]]
res={}
xs=[1e-3,0.01,0.1,0.5,0.8]
for n,deg in [(20,4),(30,4),(45,4),(60,4),(30,3),(30,5),(90,4)]:
    xg=interpolation.make_grid(n//2,n-n//2,x_min=1e-4).tolist()
    t0=time.time()
    out=yadism.run_yadism(theory(PTO=2,PTODIS=2), obs({"F2_light":[dict(x=x,Q2=30.0) for x in xs]},xgrid=xg,deg=deg,prDIS="NC"))
    res[(n,deg)]=np.array(pred(out,"F2_light")); print(n,deg,"%.1fs"%(time.time()-t0),res[(n,deg)])
ref=res[(90,4)]
for k,v in res.items(): print(k, np.abs(v/ref-1))
# node continuity
xg=interpolation.make_grid(15,15,x_min=1e-4).tolist(); xn=xg[12]
out=yadism.run_yadism(theory(PTO=2,PTODIS=2), obs({"F2_light":[dict(x=xn*(1+s),Q2=30.0) for s in (-1e-9,0,1e-9)]},xgrid=xg,prDIS="NC"))
p=np.array(pred(out,"F2_light")); print("node continuity", xn, p, np.abs(p/p[1]-1))
