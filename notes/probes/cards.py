import numpy as np, copy
def theory(**kw):
    masses = dict(mc=1.51, mb=4.92, mt=172.5)
    kthr = dict(kcThr=1.0, kbThr=1.0, ktThr=1.0)
    t = dict(PTO=1, PTODIS=1, FNS="ZM-VFNS", NfFF=4, nf0=4, **masses, **kthr,
        MaxNfPdf=6, MP=0.938, Q0=1.65, HQ="POLE", TMC=0, RenScaleVar=True, FactScaleVar=True,
        CKM="0.97428 0.22530 0.003470 0.22520 0.97345 0.041000 0.00862 0.04030 0.999152",
        MW=80.398, MZ=91.1876, GF=1.1663787e-05, SIN2TW=0.23126, FONLLParts="full", n3lo_cf_variation=0,
        ModEv="EXA", alphas=0.118, alphaqed=0.007496, Qref=91.2, nfref=5, XIR=1.0, XIF=1.0, QED=0,
        ModSV=None, IC=1, IB=0, Qmc=1.51,Qmb=4.92,Qmt=172.5, kDIScThr=1.0,kDISbThr=1.0,kDIStThr=1.0, Q0_=1.65, MaxNfAs=6)
    t.update(kw); return t
def obs(observables, n=12, deg=4, **kw):
    from eko import interpolation
    xgrid = interpolation.make_grid(n//2, n-n//2).tolist() if not kw.get("xgrid") else kw.pop("xgrid")
    o = dict(interpolation_xgrid=xgrid, interpolation_polynomial_degree=deg, interpolation_is_log=True,
        prDIS="EM", TargetDIS="proton", ProjectileDIS="electron", PolarizationDIS=0.0,
        PropagatorCorrection=0.0, NCPositivityCharge=None, observables=observables)
    o.update(kw); return o
