import numpy as np, scipy.integrate as si, traceback
import yadism, yadism.log
yadism.log.silent_mode=True
from cards import *
from yadism.coefficient_functions.splitting_functions.nlo import convolutions as c
from yadism.coefficient_functions.splitting_functions import lo, nlo
e=np.array([],dtype=float)
# 1. pqq0_2 loc
for x in [0.0,0.1,0.5,0.9]:
    S,_=si.quad(lambda z:c.pqq0_2_sing(z,e),0,x)
    print("pqq0_2 x",x,"loc",c.pqq0_2_loc(x,e),"delta-S",c.pqq0_2_loc(0.,e)-S)
def tryrun(name, t, o):
    try:
        out=yadism.run_yadism(t,o)
        bad=[]
        for k,v in out.items():
            if isinstance(v,list) and v and hasattr(v[0],'orders'):
                for r in v:
                    for ok,(val,err) in r.orders.items():
                        if not np.all(np.isfinite(val)): bad.append((k,ok))
        print(name,"OK nonfinite:",bad)
        return out
    except Exception as ex:
        print(name,"EXC",type(ex).__name__,ex)
# 2. CC heavylight PV
tryrun("CC F3_charm ZM nf4", theory(PTO=1,PTODIS=1), obs({"F3_charm":[dict(x=0.1,Q2=30.0)]},prDIS="CC"))
tryrun("CC F2_charm ZM nf4", theory(PTO=1,PTODIS=1), obs({"F2_charm":[dict(x=0.1,Q2=30.0)]},prDIS="CC"))
# 3. CC FL N3LO
tryrun("CC FL_light N3LO", theory(PTO=3,PTODIS=3), obs({"FL_light":[dict(x=0.1,Q2=30.0)]},prDIS="CC"))
# 4. TMC gL
tryrun("TMC gL", theory(PTO=1,PTODIS=1,TMC=1), obs({"gL_light":[dict(x=0.1,Q2=30.0)]},prDIS="NC"))
tryrun("TMC g1", theory(PTO=1,PTODIS=1,TMC=3), obs({"g1_light":[dict(x=0.1,Q2=30.0)]},prDIS="NC"))
