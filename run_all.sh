#!/bin/sh
# runs every registered check (tier $1, default quick) and prints one summary line per check
tier="${1:-quick}"
cd "$(dirname "$0")" || exit 2
for p in $(/venv/bin/python -c "import json; print(' '.join(c['property_id'] for c in json.load(open('MANIFEST.json'))['checks']))"); do
  mkdir -p build; ( time ./vcheck $p $tier ) > build/all_$p.log 2>&1; rc=$(grep -c "^VIOLATION\|MACHINERY" build/all_$p.log)
  echo "$p bad=$rc $(grep "^\[$p" build/all_$p.log | cut -c1-160) $(grep "^real" build/all_$p.log)"
done
