#!/bin/sh
# runs every registered check (tier $1, default quick) and prints one summary line per check
tier="${1:-quick}"
cd /verif
for p in $(/venv/bin/python -c "import json; print(' '.join(c['property_id'] for c in json.load(open('MANIFEST.json'))['checks']))"); do
  ./vcheck $p $tier > build/all_$p.log 2>&1; rc=$?
  echo "$p rc=$rc $(tail -1 build/all_$p.log | cut -c1-200)"
done
