"""Conformance of Kernels.tla itself: Kernels.Assemble(cell) against the real Combiner.collect_elems().

Spec -> Code: Emit_Asm enumerates the supported cells of the lattice (kind x heavyness x process x scheme x orders x target x
              EW point x coupling restriction x FONLL part) with the class keys and number of flavours of the model's assembly.
Code ~ Spec : the real runner builds the element, the real Combiner collects its kernels (isospin applied, empty ones dropped);
              weights are summed per class and snapped onto the exact rationals; Trace_Asm recomputes the model's assembly and
              compares keys, weights and nf.  Departures are conformance NOTES (see Trace_Asm), counted in the evidence.
"""
import numpy as np

from . import cells, common, cards


def execute(ob):
    cards.silence()
    pt = ob["pt"]
    line = dict(oid=ob["oid"], pt=pt, outcome="OK", nf=0, asm=[], note="")
    try:
        from yadism import coefficient_functions as cf
        from yadism import runner as yr

        name = f"{pt['kind']}_{pt['flav']}"
        th, o = cells.build(pt, [name], xs=[0.23])
        r = yr.Runner(th, o)
        comb = cf.Combiner(r.observables[name].elements[0])
        kers = comb.collect_elems()
        line["nf"] = int(comb.nf)
        agg = {}
        for k in kers:
            mod = type(k.coeff).__module__.split(".")
            key = f"{mod[-2]}/{type(k.coeff).__name__}"
            w = agg.setdefault(key, np.zeros(13))
            for i, p in enumerate(cells.PIDSEQ):
                w[i] += float(k.partons.get(p, 0.0))
            if any(abs(float(v)) > 0 for p, v in k.partons.items() if p not in cells.PIDSEQ):
                line["note"] += f" {key} couples to parton(s) outside the 13 QCD ones"
        line["_agg"] = {k: v.tolist() for k, v in agg.items() if np.any(v != 0.0)}
    except Exception as ex:
        line["outcome"] = cells.classify_exception(ex)
        line["note"] = str(ex)[:160]
    return line


def run(ctx, prop, quick):
    schemes = {"ZM3", "ZM5", "FFNS3", "FFNS4", "FFN03", "FONLLS4", "FONLL03"} if quick else \
        {"ZM3", "ZM4", "ZM5", "ZM6", "FFNS3", "FFNS4", "FFNS5", "FFN03", "FFN04", "FONLLS3", "FONLLS4", "FONLL03", "FONLL04"}
    base = dict(PROCS={"EM", "NC", "CC"}, PROJS={"e-", "nu"}, KINDS={"F2", "FL", "F3", "g1"} if quick else {"F2", "FL", "F3", "g1", "gL", "g4"},
                FLAVS={"light", "total", "charm", "bottom"} if quick else {"light", "total", "charm", "bottom", "top"}, SCHEMES=schemes,
                ORDERS={"11", "22", "33"} if quick else {"00", "11", "22", "33", "23", "12"}, TARGETS={"proton", "third"}, EWS={"g1"} if quick else {"g1", "g2"},
                POSS={0} if quick else {0, 4}, CKMS={"generic"}, PARTS={"full"})
    cfgs = [common.cfg_text(dict(base, KINDS={k}), spec=None) for k in sorted(base["KINDS"])]
    cfgs.append(common.cfg_text(dict(base, SCHEMES={"FONLLS4", "FONLL03"}, PARTS={"massless", "massive"}, TARGETS={"proton"}), spec=None))
    obls = ctx.tlc_emit_many("Emit_Asm", cfgs)
    seen, todo = set(), []
    for o in obls:
        o["oid"] = common.oid_of(prop, dict(asm=1, pt=o["pt"]))
        if o["oid"] not in seen:
            seen.add(o["oid"])
            todo.append(o)
    lines = ctx.pmap(execute, todo, chunksize=16)
    # snap the observed weights onto the rationals the model expects (emitted keys only tell WHICH classes; the numbers are recomputed
    # by Trace_Asm, so the projection uses small denominators and leaves the comparison to TLC)
    from fractions import Fraction
    for ln in lines:
        agg = ln.pop("_agg", {})
        ln["asm"] = [dict(key=k, w=[common.ratj(Fraction(v).limit_denominator(10**6)) for v in agg[k]]) for k in sorted(agg)]
        ctx.count(1, nontrivial_key=ln["oid"] if ln["asm"] else None)
    ctx.sample({k: lines[len(lines) // 2][k] for k in ("pt", "nf", "asm", "outcome")})
    ctx.last_notes.clear()
    before = dict(ctx.cov.get("spec_conformance_notes", {}))
    bad = ctx.tlc_validate_sharded("Trace_Asm", "Trace.cfg", [{k: v for k, v in ln.items() if k != "note"} for ln in lines])
    notes = dict(ctx.last_notes)
    ctx.cov["assembly_conformance"] = dict(cells=len(lines), cells_where_code_and_model_agree=len(lines) - len(notes),
                                           notes={n: sum(1 for v in notes.values() if v == n) for n in set(notes.values())},
                                           examples=[dict(pt=next(l["pt"] for l in lines if l["oid"] == oid), note=n) for oid, n in list(notes.items())[:5]])
    # the notes must be producible: corrupt three accepted lines
    good = [{k: v for k, v in ln.items() if k != "note"} for ln in lines if ln["oid"] not in notes and len(ln["asm"]) >= 2][:1]
    if good:
        g = good[0]
        probe = [dict(g, oid="asm~nf", nf=g["nf"] + 1), dict(g, oid="asm~keys", asm=g["asm"][1:]),
                 dict(g, oid="asm~w", asm=[dict(g["asm"][0], w=[[g["asm"][0]["w"][0][0] + 1, g["asm"][0]["w"][0][1]]] + g["asm"][0]["w"][1:])] + g["asm"][1:])]
        saved = (ctx.cov["traces_validated_against_impl"], list(ctx.cov["tlc_runs"]))
        ctx.last_notes.clear()
        ctx.tlc_validate("Trace_Asm", "Trace.cfg", probe, name="asm_noteprobe")
        got = dict(ctx.last_notes)
        ctx.cov["traces_validated_against_impl"], ctx.cov["tlc_runs"] = saved
        ctx.cov["spec_conformance_notes"] = {k: v for k, v in ctx.cov.get("spec_conformance_notes", {}).items()}
        for n in got.values():
            ctx.cov["spec_conformance_notes"][n] = ctx.cov["spec_conformance_notes"].get(n, 0) - 1
        ctx.cov["spec_conformance_notes"] = {k: v for k, v in ctx.cov["spec_conformance_notes"].items() if v > 0}
        if set(got) != {"asm~nf", "asm~keys", "asm~w"}:
            raise common.MachineryError(f"Trace_Asm note probe: {got}")
    return notes
