"""Collection of the RSL objects the runner can use, through the REAL assembly (Combiner.collect_elems), so that every
coefficient function is obtained with the constructor arguments and argument vectors of its production call site."""
from . import cards

POLARISED = ("g1", "gL", "g4")
NONES = set()   # (kind, pc, class, order) that the real class answered with None (per process)


def coverage_cells(quick=True):
    """Cells chosen so that every class of the registry is instantiated at every order it defines."""
    cells = []
    for kind in ("F2", "FL", "F3", "g1", "gL", "g4"):
        for proc in ("NC", "CC"):
            if proc == "CC" and kind in POLARISED:
                continue
            top = 2 if kind in POLARISED else 3
            # massless: nf follows Q2 (mc=2, mb=5, mt=12)
            for q2, nf in ((3.0, 3), (10.0, 4), (60.0, 5), (400.0, 6)):
                if quick and nf in (4, 6):
                    continue
                cells.append(dict(kind=kind, proc=proc, fns="ZM-VFNS", nfff=4, pto=top, ptoEvol=top, Q2=q2, x=0.05, flav="total", nf=nf))
            # massive and heavy-quark initiated: three mass ratios Q2/mc2
            for ratio in ((10.0,) if quick else (1.5, 10.0, 1000.0)):
                cells.append(dict(kind=kind, proc=proc, fns="FFNS", nfff=3, pto=top, ptoEvol=top, Q2=4.0 * ratio, x=0.05, flav="total", nf=3,
                                  ratio=ratio))
                # asymptotic towers (all logs): evolution order = top
                cells.append(dict(kind=kind, proc=proc, fns="FFN0", nfff=3, pto=top, ptoEvol=min(top, 2 if kind == "g1" else 3),
                                  Q2=4.0 * ratio, x=0.05, flav="total", nf=3, ratio=ratio))
            if proc == "CC":
                # the ends of the mass-ratio range (lambda = Q2/(Q2+m2) -> 0 and -> 1): far below the heavy-quark mass the
                # slow-rescaling point x (1 + m2/Q2) only fits for small x (own grid), far above it the massless limit is close
                cells.append(dict(kind=kind, proc=proc, fns="FFNS", nfff=3, pto=min(top, 2), ptoEvol=min(top, 2), Q2=4.0 * 0.004, x=1e-3,
                                  flav="total", nf=3, ratio=0.004, xmin=1e-4))
                cells.append(dict(kind=kind, proc=proc, fns="FFNS", nfff=3, pto=min(top, 2), ptoEvol=min(top, 2), Q2=4.0 * 5000.0, x=0.05,
                                  flav="charm", nf=3, ratio=5000.0))
            if not quick:
                cells.append(dict(kind=kind, proc=proc, fns="FFNS", nfff=4, pto=top, ptoEvol=top, Q2=250.0, x=0.05, flav="total", nf=4, ratio=10.0))
                cells.append(dict(kind=kind, proc=proc, fns="FFN0", nfff=5, pto=top, ptoEvol=2, Q2=1440.0, x=0.05, flav="total", nf=5, ratio=10.0))
    return cells


def make_element(cell, xgrid=None):
    cards.silence()
    from yadism import runner as yr

    th = cards.theory(PTO=cell["ptoEvol"], PTODIS=cell["pto"], FNS=cell["fns"], NfFF=cell["nfff"], mc=2.0, mb=5.0, mt=12.0, Q0=1.0)
    name = f"{cell['kind']}_{cell['flav']}"
    xg = xgrid or cards.make_grid(4, 4, x_min=cell.get("xmin", 1e-2))
    ob = cards.obs({name: [dict(x=cell["x"], Q2=cell["Q2"])]}, xgrid=xg, deg=3, prDIS=cell["proc"],
                   ProjectileDIS="neutrino" if cell["proc"] == "CC" else "electron", PolarizationDIS=0.3 if cell["proc"] == "NC" else 0.0,
                   TargetDIS=cell.get("target") or "proton")
    r = yr.Runner(th, ob)
    return r, r.observables[name].elements[0]


def collect(cell):
    """[(key, order, nf, rsl, kernel)] for every kernel and order of the cell; key = (kind, pc, 'package/Class')."""
    from yadism import coefficient_functions as cf

    r, e = make_element(cell)
    comb = cf.Combiner(e)
    out = []
    for ker in comb.collect_elems():
        c = ker.coeff
        mod = type(c).__module__.split(".")
        key = (cell["kind"], "cc" if cell["proc"] == "CC" else "nc", f"{mod[-2]}/{type(c).__name__}")
        for o in range(cell["pto"] + 1):
            if not ker.has_order(o):
                continue
            rsl = c[o]()
            if rsl is None:
                NONES.add((key[0], key[1], key[2], o))   # the class answers this order with "no contribution"
                continue
            out.append((key, o, comb.nf, rsl, ker))
    return out, r, e
