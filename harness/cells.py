"""Instantiation of a specification cell (as emitted by TLC) as real theory/observable cards, and cached real runs.

A cell (JSON) has the discrete fields of Theorems.MkCell plus the rational EW point:
  proc, proj, kind, flav, fns, nfff, nfzm, parts, pto, ptoEvol, target:[Z,A] (rationals), pos (0..6),
  s2w, r, omd, pol (rationals [n,d]), ckm ("generic"|"unitary"), tmc (0..3, optional)
The masses / Q2 mirror Theorems.SchemeTheory / SchemeQ2: m = (2, 5, 170), Q2 = 10 (fixed nf) or Q2ForNf(nfzm).
"""
import hashlib
import json
import math

from . import cards, common

Q2_FOR_NF = {3: 2.0, 4: 10.0, 5: 100.0, 6: 30000.0}
CKM2 = {
    "generic": [[(4, 5), (1, 6), (1, 100)], [(1, 7), (3, 4), (1, 20)], [(1, 50), (1, 25), (9, 10)]],
    "unitary": [[(1, 2), (1, 3), (1, 6)], [(1, 3), (1, 2), (1, 6)], [(1, 6), (1, 6), (2, 3)]],
}
POS_NAME = {0: None, 1: "down", 2: "up", 3: "strange", 4: "charm", 5: "bottom", 6: "top"}
PIDSEQ = [-6, -5, -4, -3, -2, -1, 21, 1, 2, 3, 4, 5, 6]


def q2_of(cell):
    if "Q2" in cell:
        return float(common.frac(cell["Q2"]))
    return Q2_FOR_NF[cell["nfzm"]] if cell["fns"] == "ZM-VFNS" else 10.0


def grid(cell):
    n = cell.get("grid_n", 8)
    return cards.make_grid(n // 2, n - n // 2, x_min=cell.get("x_min", 1e-2))


def build(cell, names, xs=None):
    """(theory, observables) for the observable names requested at the cell's kinematics."""
    q2 = q2_of(cell)
    s2w = float(common.frac(cell["s2w"]))
    r = common.frac(cell["r"])
    mz = math.inf if r == 0 else math.sqrt(q2 * float((1 - r) / r))
    ckm = [math.sqrt(n / d) for row in CKM2[cell.get("ckm", "generic")] for (n, d) in row]
    th = cards.theory(
        PTO=cell["ptoEvol"], PTODIS=cell["pto"], FNS=cell["fns"], NfFF=cell["nfff"], mc=2.0, mb=5.0, mt=170.0,
        SIN2TW=s2w, MZ=mz, CKM=" ".join(repr(c) for c in ckm), Q0=1.0, TMC=cell.get("tmc", 0),
        FONLLParts=cell.get("parts", "full"), MP=cell.get("MP", 0.938),
        RenScaleVar=cell.get("ren", True), FactScaleVar=cell.get("fact", True))
    xg = grid(cell)
    if xs is None:
        xs = cell.get("xs") or [xg[2] * 1.37, xg[5]]
    kins = [dict(x=float(x), Q2=q2) for x in xs]
    if cell.get("xs_kind"):       # a cross-section kind in place of the structure function: needs the inelasticity
        for i, k in enumerate(kins):
            k["y"] = (0.8, 0.35)[i % 2]
    z, a = (float(common.frac(v)) for v in cell.get("target", [[1, 1], [1, 1]]))
    tgt = cell.get("target_name") or dict(A=a, Z=z)      # (a dict target may list its keys in either order: A first here, Z first in C20)
    if isinstance(tgt, dict) and cell["proc"] != "NC" and a == int(a) and z == int(z):
        tgt = dict(A=int(a), Z=int(z))                   # (... and hold integers, as a YAML card with `Z: 26, A: 56` does)
    ob = cards.obs({n: [dict(k) for k in kins] for n in names}, xgrid=xg, deg=cell.get("deg", 3),
                   prDIS=cell["proc"], ProjectileDIS=cards.PROJ_NAME[cell["proj"]],
                   PolarizationDIS=float(common.frac(cell["pol"])),
                   PropagatorCorrection=float(1 - common.frac(cell["omd"])),
                   NCPositivityCharge=POS_NAME[cell.get("pos", 0)], TargetDIS=tgt)
    return th, ob


_RUNS = {}


def raised_explicitly(ex):
    """Was the exception raised by a `raise` statement (an explicit rejection written by the authors), or did it come out of a
    builtin / library call (list.index, a dict lookup, float(), numpy) - an internal error that merely has the same type?"""
    import linecache

    tb = ex.__traceback__
    if tb is None:
        return True
    while tb.tb_next is not None:
        tb = tb.tb_next
    line = linecache.getline(tb.tb_frame.f_code.co_filename, tb.tb_lineno).strip()
    return line.startswith("raise ") or line == "raise" or not line      # (no source available: benefit of the doubt)


def classify_exception(ex):
    if isinstance(ex, (ValueError, NotImplementedError)):
        if not raised_explicitly(ex):
            return "Crash_" + type(ex).__name__ + "FromLookup"
        return "Reject_" + type(ex).__name__
    if isinstance(ex, ImportError):
        return "Reject_ImportError"
    return "Crash_" + type(ex).__name__


def run_cell(cell, names, xs=None):
    """Real run, cached per process.  Returns dict(outcome, ops) with ops[name][i][key] = (values, errors) arrays
    restricted to the 13 QCD partons in PIDSEQ order plus the photon row appended last."""
    key = hashlib.sha1(json.dumps([cell, sorted(names), xs], sort_keys=True, default=str).encode()).hexdigest()
    if key in _RUNS:
        return _RUNS[key]
    import numpy as np

    th, ob = build(cell, names, xs)
    res = dict(outcome="OK", ops={}, msg="")
    try:
        out = cards.run(th, ob)
    except Exception as ex:  # classified, not swallowed
        res["outcome"] = classify_exception(ex)
        res["msg"] = str(ex)[:200]
        _RUNS[key] = res
        return res
    pids = list(out["pids"])
    idx = [pids.index(p) for p in PIDSEQ] + [pids.index(22)]
    for n in names:
        pts = []
        for r in out[n]:
            pts.append({k: (np.asarray(v[0])[idx], np.asarray(v[1])[idx]) for k, v in r.orders.items()})
        res["ops"][n] = pts
    if len(_RUNS) > 64:
        _RUNS.clear()
    _RUNS[key] = res
    return res
