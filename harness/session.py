"""Process-level sessions (Session.tla): several Runner objects with different configurations constructed and evaluated,
interleaved, in ONE Python process.  The configuration space is a product of named coordinates; value 0 of a coordinate is
the base value, 1.. the alternatives.  TLC only sees the ids (header: how many alternatives each coordinate has)."""
import copy
import hashlib

from . import cards, recorder

CKM_STD = "0.97428 0.22530 0.003470 0.22520 0.97345 0.041000 0.00862 0.04030 0.999152"
CKM_ALT = "0.95 0.30 0.08660254 0.30 0.94 0.16155494 0.08660254 0.16155494 0.98305493"

# coordinate -> list of (card, key, value) settings per value id (id 0 = base)
COORDS = {
    # the interpolation: nodes (same number of other nodes / another number of nodes), polynomial degree, log mode - each its own
    # coordinate, so that a module-level memo keyed by any proper part of (nodes, degree, mode) meets a single-coordinate neighbour
    "grid": [dict(n=12, xmin=1e-3), dict(n=12, xmin=4e-3), dict(n=16, xmin=1e-3)],
    "deg": [dict(deg=4), dict(deg=3)],
    "log": [dict(ob=dict(interpolation_is_log=True)), dict(ob=dict(interpolation_is_log=False))],
    "mc": [dict(th=dict(mc=1.51, Qmc=1.51)), dict(th=dict(mc=2.0, Qmc=2.0))],
    "mb": [dict(th=dict(mb=4.92, Qmb=4.92)), dict(th=dict(mb=4.5, Qmb=4.5))],
    "fns": [dict(th=dict(FNS="FFNS")), dict(th=dict(FNS="ZM-VFNS")), dict(th=dict(FNS="FFN0")), dict(th=dict(FNS="FONLL-A"))],
    "nfff": [dict(th=dict(NfFF=3)), dict(th=dict(NfFF=4))],
    "pto": [dict(th=dict(PTO=1, PTODIS=1)), dict(th=dict(PTO=0, PTODIS=0)), dict(th=dict(PTO=2, PTODIS=2))],
    "proc": [dict(ob=dict(prDIS="NC")), dict(ob=dict(prDIS="EM")), dict(ob=dict(prDIS="CC"))],
    "proj": [dict(ob=dict(ProjectileDIS="electron")), dict(ob=dict(ProjectileDIS="positron")), dict(ob=dict(ProjectileDIS="neutrino"))],
    "target": [dict(ob=dict(TargetDIS="proton")), dict(ob=dict(TargetDIS="iron")), dict(ob=dict(TargetDIS="neutron"))],
    "tmc": [dict(th=dict(TMC=0)), dict(th=dict(TMC=1))],
    "pol": [dict(ob=dict(PolarizationDIS=0.0)), dict(ob=dict(PolarizationDIS=0.6))],
    "sv": [dict(th=dict(RenScaleVar=True, FactScaleVar=True)), dict(th=dict(RenScaleVar=True, FactScaleVar=False))],
    "s2w": [dict(th=dict(SIN2TW=0.23126)), dict(th=dict(SIN2TW=0.25))],
    "ic": [dict(th=dict(IC=0)), dict(th=dict(IC=1))],
    "ckm": [dict(th=dict(CKM=CKM_STD)), dict(th=dict(CKM=CKM_ALT))],
    "prop": [dict(ob=dict(PropagatorCorrection=0.0)), dict(ob=dict(PropagatorCorrection=0.05))],
    "mp": [dict(th=dict(MP=0.938)), dict(th=dict(MP=1.2))],
}
ALTS = {c: len(v) - 1 for c, v in COORDS.items()}
P1, P2 = dict(x=0.1, Q2=20.0), dict(x=0.3, Q2=90.0)


def plan_of(cfg):
    """The observables requested in a configuration (a function of the configuration alone)."""
    xs = "XSHERACC_total" if cfg["proc"] == 2 else "XSHERANC_total"
    return {"F2_total": [dict(P1), dict(P2)], "FL_charm": [dict(P1)], "F3_total": [dict(P2)], xs: [dict(P1, y=0.4)]}


def cards_of(cfg):
    th, ob = {}, {}
    g = COORDS["grid"][cfg["grid"]]
    for c, vid in cfg.items():
        s = COORDS[c][vid]
        th.update(s.get("th", {}))
        ob.update(s.get("ob", {}))
    theory = cards.theory(**th)
    obs = cards.obs(plan_of(cfg), xgrid=cards.make_grid(g["n"] // 2, g["n"] - g["n"] // 2, x_min=g["xmin"]), deg=COORDS["deg"][cfg["deg"]]["deg"], **ob)
    return theory, obs


class ToyPdf:
    """A smooth toy PDF with the lhapdf-like interface apply_pdf uses (gluon and five quark flavours)."""

    def hasFlavor(self, pid):
        return pid == 21 or 1 <= abs(pid) <= 5

    def xfxQ2(self, pid, x, mu2):
        import math

        a = 0.2 + 0.05 * (abs(pid) % 7) + (0.03 if pid < 0 else 0.0)
        return x ** a * (1.0 - x) ** (3.0 + 0.1 * (abs(pid) % 5)) * (1.0 + 0.05 * math.log(mu2))


def digest_slot(res):
    return recorder.digest_result(res)


def fresh_map(fn, items):
    """One NEW process per item, forked from a server that has only imported the code under test (the import is paid once)."""
    import multiprocessing as mp
    from . import common

    common.setup_env()
    common.warm_jit()
    ctx = mp.get_context("forkserver")
    ctx.set_forkserver_preload(["harness.session_preload"])
    with ctx.Pool(min(common.NCPU, max(1, len(items))), initializer=common._init_worker, maxtasksperchild=1) as pool:
        res = pool.map(common._call, [(fn, it) for it in items], chunksize=1)
    out = []
    for it, (st, val) in zip(items, res):
        if st == "err":
            raise common.MachineryError(f"session driver failed on {str(it)[:300]}:\n{val}")
        out.append(val)
    return out


def run_session(job):
    """One session in THIS process: events [["C", r, cfg] | ["G", r]].  Returns the recorded lines."""
    sid, events = job
    cards.silence()
    from yadism import runner as yr

    lines = [dict(sid=sid, ev="Begin")]
    live, last, cfgs = {}, {}, {}
    for e in events:
        if e[0] == "C":
            r, cfg = e[1], e[2]
            cfgs[r] = cfg
            th, ob = cards_of(cfg)
            try:
                live[r] = (yr.Runner(th, ob), list(plan_of(cfg)))
                lines.append(dict(sid=sid, ev="C", r=r, cfg=cfg, outcome="ok"))
            except Exception as ex:  # a rejection at construction is an outcome of the configuration
                live[r] = None
                lines.append(dict(sid=sid, ev="C", r=r, cfg=cfg, outcome="raised:" + type(ex).__name__))
        elif e[0] == "A":
            r = e[1]
            if live.get(r) is None or r not in last:
                continue
            run, names = live[r]
            out = last[r]
            k = sum(cfgs[r].values())        # the scale ratios are a function of the configuration
            xis = (2.0 if k % 2 else 1.0, 0.5 if k % 3 == 1 else 1.0)
            try:
                pr = out.apply_pdf_alphas_alphaqed_xir_xif(ToyPdf(), lambda mu2: 0.2 / (1.0 + 0.1 * float(__import__("math").log(mu2))),
                                                           lambda mu2: 0.0075, *xis)
                h = hashlib.sha1()
                for n in names:
                    for pt in pr[n]:
                        h.update(repr(sorted((k, repr(float(v))) for k, v in pt.items() if isinstance(v, (int, float)))).encode())
                pd = h.hexdigest()
            except Exception as ex:
                pd = "raised:" + type(ex).__name__
            try:
                dg = [digest_slot(res) for n in names for res in out[n]]
            except Exception as ex:
                dg = ["raised:" + type(ex).__name__]
            lines.append(dict(sid=sid, ev="A", r=r, digests=dg, pred=pd))
        elif e[0] == "D":
            r = e[1]
            import pathlib, tempfile
            from yadism import output as yout

            if live.get(r) is None or r not in last:
                continue          # nothing was returned that could be dumped (construction rejected)
            run, names = live[r]
            out = last[r]
            fmt = ["tar", "yaml"][sid % 2]
            with tempfile.TemporaryDirectory(prefix="sess_") as td:
                pth = pathlib.Path(td) / ("o.tar" if fmt == "tar" else "o.yaml")
                try:
                    if fmt == "tar":
                        out.dump_tar(pth)
                        back = yout.Output.load_tar(pth)
                    else:
                        out.dump_yaml_to_file(pth)
                        back = yout.Output.load_yaml_from_file(pth)
                    ld = [digest_slot(res) for n in names for res in back[n]]
                except Exception as ex:
                    ld = ["raised:" + type(ex).__name__]
            try:
                dg = [digest_slot(res) for n in names for res in out[n]]
            except Exception as ex:
                dg = ["raised:" + type(ex).__name__]
            lines.append(dict(sid=sid, ev="D", r=r, fmt=fmt, digests=dg, loaded=ld))
        else:
            r = e[1]
            if live.get(r) is None:
                lines.append(dict(sid=sid, ev="G", r=r, digests=[]))
                continue
            run, names = live[r]
            try:
                out = run.get_result()
                last[r] = out
                dg = [digest_slot(res) for n in names for res in out[n]]
            except Exception as ex:
                dg = ["raised:" + type(ex).__name__]
            lines.append(dict(sid=sid, ev="G", r=r, digests=dg))
    return lines


# --------------------------------------------------------------------------- the check (run under C14)
def _cfg(**c):
    from . import common

    base = dict(MaxRunners=2, MaxEvents=4, MaxDist=1, MaxFromBase=1, NSlots=5, MaxCalls=1, WithDump=False, LeakMode="none", LeakCoord="grid")
    base.update(c)
    return base


def mc_cfg(leak, coord="b", **kw):
    from . import common

    c = dict(Coords={"a", "b", "c"}, MaxRunners=2, MaxEvents=5, MaxDist=1, MaxFromBase=1, NSlots=2, MaxCalls=2, WithDump=True, LeakMode=leak, LeakCoord=coord)
    c.update(kw)
    return common.cfg_text(c, dict(Alts="MCAlts"), invariants=["SessionIdeal"], properties=["OutputsStable", "CfgFrozen"], view="View")


def schedule_shape(events):
    return "".join(f"{e[0]}{e[1]}" for e in events)


def validate(ctx, sessions_lines, hf, name):
    """Trace_Session over recorded sessions; returns {sid: clause}."""
    import re
    from . import common

    tf = ctx.dir / f"{name}.trace.ndjson"
    rows = [e for s in sessions_lines for e in s] + [dict(ev="EOF", sid=-2)]
    common.write_ndjson(tf, rows)
    cfg = common.cfg_text(_cfg(MaxRunners=4, MaxEvents=64, MaxDist=99, MaxFromBase=99, MaxCalls=8, WithDump=True), dict(Alts="HdrAlts", Coords="HdrCoords"),
                          invariants=["SessionIdeal"], spec="TraceSpec")
    r = common.run_tlc("Trace_Session", cfg, workdir=ctx.dir / f"tlc_{name}", env=dict(HEADER_FILE=hf, TRACE_FILE=tf), workers=1)
    out = r["out"]
    if not r["ok"]:
        raise common.MachineryError(f"Trace_Session did not complete: {out[-2000:]}")
    m = re.search(r'<<\s*"CONSUMED",\s*(\d+)\s*>>', out)
    if not m or int(m.group(1)) != len(rows) - 1:
        raise common.MachineryError(f"Trace_Session consumed {m.group(1) if m else '?'} of {len(rows) - 1} lines:\n{out[-1500:]}")
    bad = {}
    for m in re.finditer(r'<<\s*"VERDICT",\s*"(-?\d+)",\s*"([^"]+)"\s*>>', out):
        bad.setdefault(int(m.group(1)), m.group(2))
    ctx.cov["tlc_runs"].append(dict(module="Trace_Session", cfg=name, states=r["distinct"], wall_s=round(r["wall"], 1), role="validate",
                                    lines=len(rows), rejected=len(bad)))
    return bad


def to_ids(lines, dig):
    out = []
    for e in lines:
        e = dict(e)
        if e["ev"] in ("G", "D", "A"):
            e["digests"] = [dig.setdefault(d, len(dig) + 1) for d in e["digests"]]
        if e["ev"] == "A":
            e["pred"] = dig.setdefault(e["pred"], len(dig) + 1)
        if e["ev"] == "D":
            e["loaded"] = [dig.setdefault(d, len(dig) + 1) for d in e["loaded"]]
        out.append(e)
    return out


def run(ctx):
    """Session.tla: properties on the small universe with both negative controls, behaviours of the specification on the real
    coordinate universe driven through real runners (one fresh process per behaviour), recorded sessions validated."""
    import json
    from . import common

    q = ctx.quick
    # 1. Spec |= P; the two faulty variants must be refuted (on each kind of coordinate)
    ctx.tlc_check("MC_Session", mc_cfg("none", MaxRunners=2 if q else 3, MaxEvents=5 if q else 7, MaxDist=1 if q else 2, MaxFromBase=1 if q else 2),
                  coverage=False, min_states=90, min_depth=6)
    for leak in ("ctor_global", "memo_partial"):
        for coord in ("a", "b"):
            r = common.run_tlc("MC_Session", mc_cfg(leak, coord), workdir=ctx.dir / f"tlc_sess_{leak}_{coord}")
            if r["ok"] or r["invariant_violated"] != "SessionIdeal":
                raise common.MachineryError(f"Session model lost its sensitivity: LeakMode={leak} on {coord} must violate SessionIdeal")
    ctx.cov["session_negative_controls"] = "LeakMode in {ctor_global, memo_partial} x LeakCoord in {a, b}: SessionIdeal refuted by TLC"
    # 2. behaviours of the specification on the real universe
    hf = ctx.dir / "session.header.json"
    hf.write_text(json.dumps(dict(alts=ALTS)))
    beh = ctx.tlc_emit("Emit_Session", common.cfg_text(_cfg(MaxEvents=4 if q else 5, MaxCalls=1 if q else 2), dict(Alts="HdrAlts", Coords="HdrCoords"),
                                                        invariants=["Collect"], postcondition="Written"),
                       name="Emit_Session", env=dict(HEADER_FILE=str(hf)), workers=1)
    # one runner, evaluated, its output serialised, evaluated again
    behd = ctx.tlc_emit("Emit_Session", common.cfg_text(_cfg(MaxRunners=1, MaxEvents=4, MaxCalls=2, WithDump=True), dict(Alts="HdrAlts", Coords="HdrCoords"),
                                                         invariants=["Collect"], postcondition="Written"),
                        name="Emit_Session_dump", env=dict(HEADER_FILE=str(hf)), workers=1)
    dumps = [b for b in behd if schedule_shape(b) in ("C1G1D1G1", "C1G1A1G1")]
    solos = [b for b in beh if schedule_shape(b) == "C1G1"]
    multi = [b for b in beh if sum(1 for e in b if e[0] == "C") >= 2]
    if q:
        # every ordered pair in the schedule that exposes both mechanisms (C1 C2 G2 G1); the other schedules for a seed-rotated third
        keep = []
        for i, b in enumerate(sorted(multi, key=json.dumps)):
            if schedule_shape(b) == "C1C2G2G1" or (i + ctx.seed) % 3 == 0:
                keep.append(b)
        multi = keep
    else:
        # maximal behaviours only (a proper prefix of another behaviour is observed inside it)
        keys = {json.dumps(b)[:-1] for b in multi}
        multi = [b for b in multi if not any(k != json.dumps(b)[:-1] and k.startswith(json.dumps(b)[:-1] + ",") for k in keys)]
    sessions = solos + multi + dumps  # solos first: they define the reference digests
    ctx.cov["session_behaviours"] = dict(emitted=len(beh), solo=len(solos), driven=len(sessions),
                                         shapes=sorted({schedule_shape(b) for b in sessions}))
    raw = fresh_map(run_session, list(enumerate(sessions)))
    dig = {}
    lines = [to_ids(s, dig) for s in raw]
    for s in lines:
        ctx.count(1, nontrivial_key=("session", s[0]["sid"]) if len(s) > 3 else None)
    ctx.sample(lines[len(solos)][:5] if len(lines) > len(solos) else lines[0])
    bad = validate(ctx, lines, hf, "sessions")
    ctx.cov["traces_validated_against_impl"] += len(lines)
    for sid, clause in sorted(bad.items()):
        ev = sessions[sid]
        short = [[e[0], e[1]] + ([{k: v for k, v in e[2].items() if v}] if e[0] == "C" else []) for e in ev]
        key = f"session:{common.oid_of('C14', dict(events=ev))}:{clause}"
        ctx.violation(key, f"{clause} in recorded process {json.dumps(short)} (coordinates that differ from the base are shown)",
                      dict(kind="C14session", events=ev, clause=clause))
    # 3. binding: accepted sessions with one recorded field corrupted must be rejected
    good = [s for s in lines if s[0]["sid"] not in bad and len(s) > 3][:4]
    import copy

    def corrupt(s, fn, off):
        c = copy.deepcopy(s)
        for e in c:
            e["sid"] = e["sid"] + off
        fn(c)
        return c

    def digest(c):
        g = [e for e in c if e["ev"] == "G"][-1]
        g["digests"][0] = 10 ** 6

    def slot(c):
        g = [e for e in c if e["ev"] == "G"][-1]
        g["digests"] = g["digests"][:-1]

    def outcome(c):
        e = [e for e in c if e["ev"] == "C"][-1]
        e["outcome"] = "raised:Corrupted" if e["outcome"] == "ok" else "ok"

    def runner_id(c):
        g = [e for e in c if e["ev"] == "G"][-1]
        g["r"] = 9

    def loaded(c):
        d = [e for e in c if e["ev"] == "D"][-1]
        d["loaded"][0] = 10 ** 6

    def after_dump(c):
        d = [e for e in c if e["ev"] == "D"][-1]
        d["digests"][-1] = 10 ** 6

    def pred(c):
        a = [e for e in c if e["ev"] == "A"][-1]
        a["pred"] = 10 ** 6

    def after_apply(c):
        a = [e for e in c if e["ev"] == "A"][-1]
        a["digests"][0] = 10 ** 6

    gooda = [s for s in lines if s[0]["sid"] not in bad and any(e["ev"] == "A" for e in s)][:2]
    goodd = [s for s in lines if s[0]["sid"] not in bad and any(e["ev"] == "D" for e in s)][:2]
    cor, names = [], {}
    for k, (nm, fn, src) in enumerate([("digest", digest, good), ("slot_dropped", slot, good), ("outcome", outcome, good), ("runner_id", runner_id, good),
                                       ("loaded_digest", loaded, goodd), ("digest_after_dump", after_dump, goodd),
                                       ("prediction", pred, gooda), ("digest_after_apply", after_apply, gooda)]):
        for s in src[:2]:
            c = corrupt(s, fn, 10 ** 5 * (k + 1))
            names[c[0]["sid"]] = nm
            cor.append(c)
    if cor:
        refs = [s for s in lines if len(s) == 3] + gooda      # the accepted apply sessions define the reference predictions
        badc = validate(ctx, refs + cor, hf, "selftest_sessions")
        ctx.cov["tlc_runs"] = [r for r in ctx.cov["tlc_runs"] if r.get("cfg") != "selftest_sessions"]
        missed = sorted({nm for sid, nm in names.items() if sid not in badc})
        st = ctx.cov.setdefault("binding_selftest", {}).setdefault("Trace_Session", dict(corrupted_lines=0, rejected=0, fields=[]))
        st["corrupted_lines"] += len(cor)
        st["rejected"] += len([s for s in names if s in badc])
        st["fields"] = sorted(set(names.values()))
        if missed:
            raise common.MachineryError(f"binding self-test: Trace_Session accepted sessions corrupted in {missed}")


def replay(ctx, obj):
    """Re-executes the offending process and every one of its configurations alone in a fresh process (the reference)."""
    import json
    from . import common

    ev = obj["events"]
    cfgs = [e[2] for e in ev if e[0] == "C"]
    sessions = [[["C", 1, c], ["G", 1]] for c in cfgs] + [ev]
    raw = fresh_map(run_session, list(enumerate(sessions)))
    dig = {}
    lines = [to_ids(s, dig) for s in raw]
    hf = ctx.dir / "session.header.json"
    hf.write_text(json.dumps(dict(alts=ALTS)))
    bad = validate(ctx, lines, hf, "replay_session")
    print("process:", json.dumps([[e[0], e[1]] + ([{k: v for k, v in e[2].items() if v}] if e[0] == "C" else []) for e in ev]), "verdicts:", bad or "ok")
    return 1 if bad else 0
