"""Run-time recorder for the runner / cache state machine (guard YADISM_VERIF=1).

No source hook is needed: the recorder wraps call boundaries of the real classes while a run is recorded and
restores them afterwards.  Events are logged at the call's return (in `finally`, so error paths are recorded
too); a depth counter attributes nested calls to the top-level element being evaluated.
"""
import contextlib
import hashlib
import os

import numpy as np


def digest_result(res):
    """sha1 over kinematics-free content of an ESFResult: every order key with value and error bytes."""
    h = hashlib.sha1()
    for k in sorted(res.orders):
        v, e = res.orders[k]
        h.update(repr(tuple(k)).encode())
        h.update(np.ascontiguousarray(np.asarray(v, dtype=float)).tobytes())
        h.update(np.ascontiguousarray(np.asarray(e, dtype=float)).tobytes())
    return h.hexdigest()


class Recorder:
    def __init__(self):
        assert os.environ.get("YADISM_VERIF") == "1", "recorder is only available under the verification guard"
        self.events = []      # events inside the current top-level element
        self.drops = 0        # runner-level drop_cache calls since the previous element
        self.depth = 0
        self.log = []         # top-level records

    @contextlib.contextmanager
    def installed(self):
        from yadism import runner as yrunner
        from yadism.esf import esf as yesf
        from yadism.esf import scale_variations as ysv

        rec = self
        orig_compute = yesf.EvaluatedStructureFunction.compute_local
        orig_drop = yrunner.Runner.drop_cache
        orig_raw = ysv.ScaleVariations.compute_raw

        def compute_local(self_):
            fresh = not self_._computed
            try:
                return orig_compute(self_)
            finally:
                if fresh:
                    rec.events.append(["Compute", self_.info.obs_name.name, float(self_.x), float(self_.Q2)])

        def drop_cache(self_):
            try:
                return orig_drop(self_)
            finally:
                rec.drops += 1

        def compute_raw(self_, nf):
            before = len(self_.operators)
            try:
                return orig_raw(self_, nf)
            finally:
                if len(self_.operators) != before:
                    rec.events.append(["SV", int(nf)])

        yesf.EvaluatedStructureFunction.compute_local = compute_local
        yrunner.Runner.drop_cache = drop_cache
        ysv.ScaleVariations.compute_raw = compute_raw
        try:
            yield self
        finally:
            yesf.EvaluatedStructureFunction.compute_local = orig_compute
            yrunner.Runner.drop_cache = orig_drop
            ysv.ScaleVariations.compute_raw = orig_raw

    def wrap_elements(self, runner, names):
        """Wrap get_result of every top-level element of the requested observables (instance level)."""
        rec = self
        seen = set()
        for name in names:
            for el in runner.observables[name].elements:
                if id(el) in seen:
                    continue
                seen.add(id(el))
                orig = el.get_result

                def get_result(orig=orig, el=el, name=name):
                    top = rec.depth == 0
                    if top:
                        rec.events = []
                    rec.depth += 1
                    res = None
                    try:
                        res = orig()
                        return res
                    finally:
                        rec.depth -= 1
                        if top:
                            rec.log.append(dict(ev="Elem", obs=name, x=float(el.x), Q2=float(el.Q2), drops=rec.drops,
                                                events=rec.events, digest=digest_result(res) if res is not None else "error"))
                            rec.drops = 0
                            rec.events = []

                el.get_result = get_result

    def call_end(self, out, names):
        slots = [[digest_result(r) for r in out[n]] for n in names]
        self.log.append(dict(ev="CallEnd", drops=self.drops, slots=slots))
        self.drops = 0
