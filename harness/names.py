"""ObservableName (observable_name.py) against Names.tla.

Spec |= P : MC_Names - on every (kind, heavyness) pair: family and heavy-quark number are total on the names a user can write,
            the family is closed under apply_flavor_family, apply_kind keeps the heavyness, raw_flavor is defined exactly off
            total/heavy, and the maps agree with the ones the lattice specification uses (Theorems.FamOf / HqOf).
Code ~ Spec: Emit_Names enumerates every well-formed name and malformed ones (unknown kind / heavyness, wrong case, empty or
            extra parts); the real class answers every attribute (or raises); Trace_Names recomputes them.
"""
from . import common


def res(fn):
    try:
        v = fn()
        return dict(ok=True, v=v)
    except (ValueError, IndexError, KeyError, TypeError, AttributeError) as ex:
        return dict(ok=False, why=type(ex).__name__)


def execute(ob):
    from yadism.observable_name import ObservableName as ON

    name = "_".join(ob["parts"])
    line = dict(oid=ob["oid"], parts=ob["parts"], valid=False, why="", kind="", flavor="", family="", hqnumber=dict(ok=False, why="-"),
                is_xs=False, is_pv=False, apply_family="", apply_kind_F2="", name="", is_heavy=False, is_raw_heavy=False,
                is_heavylight=False, is_composed=False, raw_flavor=dict(ok=False, why="-"), mass_label="", has_heavies=False,
                has_lights=False, is_valid_agrees=True)
    try:
        o = ON(name)
    except ValueError as ex:
        msg = str(ex)
        line["why"] = next((w for w in ("Unknown obsname", "Unknown kind", "Unknown flavor") if msg.startswith(w)), msg[:40])
        line["is_valid_agrees"] = ON.is_valid(name) is False
        return line
    except Exception as ex:
        line["why"] = "Crash_" + type(ex).__name__
        return line
    from yadism import observable_name as onm

    line.update(valid=True, kind=o.kind, flavor=o.flavor, family=o.flavor_family, hqnumber=res(lambda: int(o.hqnumber)),
                is_xs=o.kind in onm.xs, is_pv=bool(o.is_parity_violating), name=o.name, is_heavy=bool(o.is_heavy),
                is_raw_heavy=bool(o.is_raw_heavy), is_heavylight=bool(o.is_heavylight), is_composed=bool(o.is_composed),
                raw_flavor=res(lambda: o.raw_flavor), mass_label=str(o.mass_label), has_heavies=bool(ON.has_heavies([name])),
                has_lights=bool(ON.has_lights([name])), is_valid_agrees=ON.is_valid(name) is True)
    a = res(lambda: o.apply_flavor_family().name)
    line["apply_family"] = a["v"] if a["ok"] else "raise"
    a = res(lambda: o.apply_kind("F2").name)
    line["apply_kind_F2"] = a["v"] if a["ok"] else "raise"
    return line


def run(ctx, prop):
    ctx.tlc_check("MC_Names", common.cfg_text({}, invariants=["Inv_Family", "Inv_Apply", "Inv_Parse"]), coverage=False, min_states=150)
    obls = ctx.tlc_emit("Emit_Names", common.cfg_text({}, spec=None))
    for o in obls:
        o["oid"] = common.oid_of(prop, dict(name="_".join(o["parts"]), n=len(o["parts"])))
    lines = [execute(o) for o in obls]
    for ln in lines:
        ctx.count(1, nontrivial_key=ln["oid"])
    ctx.sample({k: lines[len(lines) // 3][k] for k in ("parts", "valid", "why", "kind", "flavor", "family", "hqnumber", "raw_flavor", "mass_label")})
    bad = ctx.tlc_validate("Trace_Names", "Trace.cfg", lines)
    good = [ln for ln in lines if ln["oid"] not in bad and ln["valid"] and ln["hqnumber"]["ok"]]
    ctx.selftest("Trace_Names", "Trace.cfg", good, [
        ("valid", lambda l: dict(l, valid=False, why="Unknown kind")),
        ("family", lambda l: dict(l, family="heavy" if l["family"] != "heavy" else "light")),
        ("hqnumber", lambda l: dict(l, hqnumber=dict(ok=True, v=l["hqnumber"]["v"] + 1))),
        ("apply_kind", lambda l: dict(l, apply_kind_F2="F2_light" if l["apply_kind_F2"] != "F2_light" else "F2_total")),
        ("kind", lambda l: dict(l, kind="FL" if l["kind"] != "FL" else "F2"))])
    bad_inv = [ln for ln in lines if not ln["valid"] and ln["oid"] not in bad]
    ctx.selftest("Trace_Names", "Trace.cfg", bad_inv, [("accepted", lambda l: dict(l, valid=True)), ("reason", lambda l: dict(l, why="Unknown thing"))])
    by = {ln["oid"]: ln for ln in lines}
    for oid, clause in bad.items():
        ln = by[oid]
        ctx.violation(f"name:{'_'.join(ln['parts'])}:{clause}", f"observable name {'_'.join(ln['parts'])!r}: {clause} "
                      f"({ {k: ln[k] for k in ('valid', 'why', 'kind', 'flavor', 'family', 'hqnumber')} })", dict(kind="names", obligation=dict(oid=oid, parts=ln["parts"])))
    for ln in lines:
        if not ln["is_valid_agrees"]:
            ctx.violation(f"name:{'_'.join(ln['parts'])}:is_valid_disagrees_with_constructor", f"is_valid({'_'.join(ln['parts'])!r}) disagrees with the constructor",
                          dict(kind="names", obligation=dict(oid=ln["oid"], parts=ln["parts"])))


def replay(ctx, obj):
    ln = execute(obj["obligation"])
    bad = ctx.tlc_validate("Trace_Names", "Trace.cfg", [ln])
    print(ln, "verdict:", bad.get(ln["oid"], "ok"))
    return 1 if bad or not ln["is_valid_agrees"] else 0
