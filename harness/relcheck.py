"""Shared pipeline of the relation properties (C07, C12, C13):
   TLC theorem on the spec lattice -> TLC-emitted relation instances -> real runs -> TLC trace validation."""
from . import common, relations

LAT_DEFAULT = dict(NFZM={3, 4, 5}, NFFF={3, 4}, TARGETS={"proton"}, KINDS={"F2", "F3"}, PROCS={"NC", "CC"},
                   FLAVS={"light", "total", "charm", "bottom"}, POSS={0}, CKMS={"generic"})
SUB_DEFAULT = dict(S2W="S2W_one", RR="RR_one", OMD="OMD_one", POL="POL_one", ORDERS="ORD_one")

EMIT_DEFAULT = dict(PROCS={"NC"}, PROJS={"e-"}, KINDS={"F2"}, FLAVS={"total"}, SCHEMES={"ZM4"}, ORDERS={"11"},
                    TARGETS={"proton"}, EWS={"g1"}, POSS={0}, CKMS={"generic"}, PARTS={"full"})


def mc(ctx, invariants, consts=None, subst=None, min_states=100):
    c = dict(LAT_DEFAULT)
    c.update(consts or {})
    s = dict(SUB_DEFAULT)
    s.update(subst or {})
    return ctx.tlc_check("MC_Lattice", common.cfg_text(c, s, invariants=invariants), coverage=False,
                         min_states=min_states, min_depth=3)


def emit(ctx, rels, **consts):
    c = dict(EMIT_DEFAULT)
    c.update(consts)
    c["RELS"] = set(rels)
    rows = ctx.tlc_emit("Emit_Rel", common.cfg_text(c, spec=None))
    return rows


def drive_and_validate(ctx, prop, insts, describe=None, extra=None):
    seen = set()
    todo = []
    for i in insts:
        i = dict(i)
        if extra:
            i["extra"] = extra
        i["oid"] = common.oid_of(prop, dict(rel=i["rel"], pt=i["pt"], extra=extra or {}))
        if i["oid"] in seen:
            continue
        seen.add(i["oid"])
        todo.append(i)
    ctx.cov["obligations_emitted"] = ctx.cov.get("obligations_emitted", 0) + len(todo)
    lines = ctx.pmap(relations.execute, todo, chunksize=2)
    for ln in lines:
        ctx.count(1, nontrivial_key=ln["oid"] if ln["nontrivial"] else None)
    for ln in lines[:: max(1, len(lines) // 3)][:3]:
        ctx.sample(dict(rel=ln["rel"], point=ln["pt"], terms=ln["terms"], resid_milli_of_tol=ln["resid_milli"],
                        outcome=ln["outcome"], nkeys=ln["nkeys"], worst=ln["worst"]))
    bad = ctx.tlc_validate("Trace_Rel", "Trace.cfg", [relations.strip(ln) for ln in lines])
    byoid = {ln["oid"]: (i, ln) for i, ln in zip(todo, lines)}
    good = [relations.strip(ln) for ln in lines if ln["oid"] not in bad and ln["nontrivial"]]
    ctx.selftest("Trace_Rel", "Trace.cfg", good, [
        ("resid", lambda l: dict(l, resid_milli=4000)),
        ("coef", lambda l: dict(l, terms=[dict(l["terms"][0], coef=[3, 1])] + l["terms"][1:])),
        ("relation", lambda l: dict(l, rel="FONLLParts" if l["rel"] != "FONLLParts" else "PositronFlip")),
        ("keys", lambda l: dict(l, keyset_ok=False)), ("finite", lambda l: dict(l, finite=False))])
    for oid, clause in bad.items():
        i, ln = byoid[oid]
        pt = i["pt"]
        key = (f"{i['rel']}:{pt['proc']}:{pt['proj']}:{pt['kind']}_{pt['flav']}:{pt['fns']}{pt['nfff']}:nfzm{pt['nfzm']}:"
               f"pto{pt['pto']}.{pt['ptoEvol']}:Z{pt['target'][0][0]}/{pt['target'][0][1]}A{pt['target'][1][0]}/{pt['target'][1][1]}"
               f"{''.join('.' + str(k) + '=' + str(v) for k, v in sorted((i.get('extra') or {}).items()))}:{clause}")
        ctx.violation(key, f"relation {i['rel']} fails for {pt['kind']} {pt['proc']} {pt['fns']}(NfFF={pt['nfff']}) "
                      f"PTODIS={pt['pto']} PTO={pt['ptoEvol']}: {clause} ({ln['worst']})",
                      dict(kind="relation", instance=i, observed=ln))
    return lines, bad


def replay(ctx, obj):
    i = obj["instance"]
    ln = relations.execute(i)
    bad = ctx.tlc_validate("Trace_Rel", "Trace.cfg", [relations.strip(ln)])
    print("relation:", i["rel"], "point:", i["pt"])
    print("observed:", {k: ln[k] for k in ("outcome", "keyset_ok", "nkeys", "resid_milli", "worst")},
          "verdict:", bad.get(ln["oid"], "ok"))
    return 1 if bad else 0
