"""C03 - every coefficient / splitting kernel is one well-defined distribution.

Spec |= P : Registry.tla enumerates every (kind, process, class, order) element; MC_Lattice proves registry completeness
            (every class the assembly of any cell names is in the table), so no kernel the runner can use escapes;
            Trace_C03 states RSLContract.
Code ~ Spec: every element is instantiated THROUGH THE REAL ASSEMBLY (production constructor arguments), for nf 3..6 and
            several mass ratios, plus every splitting label; loc(x) - loc(0) + int_0^x sing is evaluated by adaptive
            quadrature on an x lattice, finiteness of reg/sing/loc on a z lattice; the registry must be covered exactly
            (both directions) and TLC judges every line.
"""
import math

import numpy as np

from .. import common, rsl as rslmod

XS_Q = (0.05, 0.3, 0.7, 0.95)
XS_T = (1e-6, 1e-3, 0.05, 0.2, 0.3, 0.5, 0.7, 0.9, 0.95, 0.999, 1 - 1e-6)
TOL = 2e-5    # published-digit rounding of the NNLO/N3LO parametrisations (largest legitimate residual/scale: 1.6e-6)


def contract(r, xs):
    """(worst residual / scale, finite, has_sing, has_loc) of one RSL."""
    import scipy.integrate as si

    has_sing, has_loc = r.sing is not None, r.loc is not None
    finite = True
    zs = (1e-5, 0.01, 0.2, 0.5, 0.8, 0.99, 1 - 1e-5)
    for z in zs:
        for part in ("reg", "sing", "loc"):
            f = getattr(r, part)
            if f is not None:
                v = f(z, r.args[part])
                if not (isinstance(v, (float, int, np.floating, np.integer)) and math.isfinite(float(v))):
                    finite = False
    if not has_loc and not has_sing:
        return 0.0, finite, has_sing, has_loc, ""
    loc = (lambda x: float(r.loc(x, r.args["loc"]))) if has_loc else (lambda x: 0.0)
    sing = (lambda z: float(r.sing(z, r.args["sing"]))) if has_sing else None
    worst, note = 0.0, ""
    x0 = 0.01          # reference point (x = 0 itself is avoided: several local parts are 0/0 there although their limit is finite)
    l0 = loc(x0)
    for x in xs:
        if x == x0:
            continue
        if sing is None:
            res, scale = loc(x) - l0, abs(l0) + 1e-300
        else:
            lo, hi = min(x0, x), max(x0, x)
            pts = [p for p in (0.5, 0.9, 0.99, 0.999, 0.9999) if lo < p < hi]
            integ, _ = si.quad(sing, x0, x, points=pts or None, epsabs=1e-13, epsrel=1e-12, limit=400)
            scale, _ = si.quad(lambda z: abs(sing(z)), lo, hi, points=pts or None, epsabs=1e-12, epsrel=1e-10, limit=400)
            res = loc(x) - l0 + integ
            scale = scale + abs(l0) + 1e-300
            if not has_loc and scale < 1e-14:
                continue
        if not math.isfinite(res):
            finite = False
            continue
        if abs(res) / scale > worst:
            worst, note = abs(res) / scale, f"x={x}: loc(x)-loc(x0)+int_x0^x sing = {res:.4e}, scale {scale:.3e}"
    return worst, finite, has_sing, has_loc, note


def kernels_of_cell(job):
    cell, xs = job
    lines = []
    try:
        items, _r, _e = rslmod.collect(cell)
    except Exception as ex:
        return [dict(what="cell_error", cell=cell, note=f"{type(ex).__name__}: {str(ex)[:150]}")]
    for n in sorted(rslmod.NONES):
        lines.append(dict(what="none", element=list(n)))
    for key, order, nf, r, _ker in items:
        if r.reg is None and r.sing is None and r.loc is None:
            # the empty distribution: below the pair threshold a massive class answers EVERY order with it, defined or not
            lines.append(dict(what="kernel", kind=key[0], pc=key[1], cls=key[2], order=order, nf=nf, ratio=cell.get("ratio", 0), fns=cell["fns"],
                              resid_milli=0, finite=True, has_sing=False, has_loc=False, empty=True, note="empty distribution"))
            continue
        w, fin, hs, hl, note = contract(r, xs)
        lines.append(dict(what="kernel", kind=key[0], pc=key[1], cls=key[2], order=order, nf=nf, ratio=cell.get("ratio", 0), empty=False,
                          fns=cell["fns"], resid_milli=common.milli(w, TOL), finite=fin, has_sing=hs, has_loc=hl, note=note))
    return lines


def splitting(job):
    nf, xs = job
    from yadism.coefficient_functions import splitting_functions as split

    lines = []
    for d in split.raw_labels:
        for lab, fnc in d.items():
            w, fin, hs, hl, note = contract(fnc(nf), xs)
            lines.append(dict(what="splitting", kind="-", pc="-", cls=lab, order=0, nf=nf, ratio=0, fns="-", resid_milli=common.milli(w, TOL),
                              finite=fin, has_sing=hs, has_loc=hl, note=note))
    return lines


def run(ctx):
    q = ctx.quick
    ctx.cov["rule"] = ("registry elements (kind, process, class, order) enumerated by TLC x nf x mass ratio, instantiated through the "
                       "real assembly, plus the splitting labels x nf; non-trivial = element with a singular or local part")
    ctx.cov["trusted_base"] = ["TLC", "scipy.quad", "LeProHQ / adani / eko (third-party values inside the kernels)"]
    # registry completeness on the assembly model
    ctx.tlc_check("MC_Lattice", common.cfg_text(
        dict(NFZM={3, 4, 5, 6}, NFFF={3, 4, 5}, TARGETS={"proton"}, KINDS={"F2", "FL", "F3", "g1", "gL", "g4"}, PROCS={"EM", "NC", "CC"},
             FLAVS={"light", "total", "charm", "bottom", "top"}, POSS={0}, CKMS={"generic"}),
        dict(S2W="S2W_one", RR="RR_one", OMD="OMD_one", POL="POL_one", ORDERS="ORD_few" if q else "ORD_all"),
        invariants=["Inv_Registry"]), coverage=False, min_states=1000, min_depth=3)
    reg = ctx.tlc_emit("Emit_Registry", common.cfg_text({}, spec=None))
    want = {(e["kind"], e["pc"], e["cls"], e["order"]) for e in reg}
    xs = XS_Q if q else XS_T
    cells = rslmod.coverage_cells(q)
    res = ctx.pmap(kernels_of_cell, [(c, xs) for c in cells]) + ctx.pmap(splitting, [(nf, xs) for nf in ((3, 5) if q else (3, 4, 5, 6))])
    lines = []
    nones = set()
    for rows in res:
        for ln in rows:
            if ln["what"] == "none":
                nones.add(tuple(ln["element"]))
                continue
            if ln["what"] == "cell_error":
                c = ln["cell"]
                # cells the code cannot serve are C16's business; here they only matter for coverage
                ctx.cov.setdefault("cells_not_served", []).append(f"{c['kind']} {c['proc']} {c['fns']} pto{c['pto']}: {ln['note']}")
                continue
            lines.append(ln)
    seen = set()
    uniq = []
    for ln in lines:
        ln["oid"] = common.oid_of("C03", {k: ln[k] for k in ("what", "kind", "pc", "cls", "order", "nf", "ratio", "fns")})
        if ln["oid"] in seen:
            continue
        seen.add(ln["oid"])
        uniq.append(ln)
        ctx.count(1, nontrivial_key=ln["oid"] if (ln["has_sing"] or ln["has_loc"]) else None)
    got = {(ln["kind"], ln["pc"], ln["cls"], ln["order"]) for ln in uniq if ln["what"] == "kernel" and not ln["empty"]}
    # base classes that no generator names are exempt from coverage (they are covered through their subclasses)
    base_only = {e for e in want if e[2] in ("asy/AsyGluon", "asy/AsySinglet")}
    missing = sorted(want - got - base_only - nones)
    ctx.cov["registry_elements_answered_none_at_run_time"] = len(want & nones - got)
    extra = sorted(got - want)
    ctx.cov["registry_elements"] = len(want)
    ctx.cov["registry_elements_covered"] = len(want & got)
    ctx.cov["registry_elements_not_reached"] = [list(m) for m in missing]
    for ln in uniq[:: max(1, len(uniq) // 3)][:3]:
        ctx.sample({k: ln[k] for k in ("what", "kind", "pc", "cls", "order", "nf", "ratio", "resid_milli", "finite", "note")})
    bad = ctx.tlc_validate_sharded("Trace_C03", "Trace.cfg", [{k: v for k, v in ln.items() if k != "note"} for ln in uniq])
    ctx.selftest("Trace_C03", "Trace.cfg", [{k: v for k, v in ln.items() if k not in ('note',)} for ln in uniq if ln["oid"] not in bad and (not ln.get("empty"))], [
        ("resid", lambda l: dict(l, resid_milli=3000)),
        ("finite", lambda l: dict(l, finite=False)),
        ("loc_missing", lambda l: dict(l, has_loc=False) if l["has_sing"] else None),
        ("element", lambda l: dict(l, order=9) if l["what"] == "kernel" else None)])
    by = {ln["oid"]: ln for ln in uniq}
    for oid, clause in bad.items():
        ln = by[oid]
        key = f"{ln['what']}:{ln['kind']}_{ln['pc']}:{ln['cls']}:order{ln['order']}:{clause}"
        ctx.violation(key, f"{ln['cls']} ({ln['kind']}_{ln['pc']}) order {ln['order']} nf={ln['nf']} ratio={ln['ratio']}: {clause} [{ln['note']}]",
                      dict(kind="C03", line={k: ln[k] for k in ("what", "kind", "pc", "cls", "order", "nf", "ratio", "fns")}))
    for e in extra:
        ctx.violation(f"registry:unlisted:{e[0]}_{e[1]}:{e[2]}:order{e[3]}", f"the assembly produced {e}, which the registry of the specification does not list",
                      dict(kind="C03-registry", element=list(e)))


def replay(ctx, obj):
    if obj["kind"] != "C03":
        print(obj)
        return 1
    t = obj["line"]
    xs = XS_T
    if t["what"] == "splitting":
        rows = [ln for ln in splitting((t["nf"], xs)) if ln["cls"] == t["cls"]]
    else:
        rows = []
        for c in rslmod.coverage_cells(False):
            if c["kind"] == t["kind"] and ("cc" if c["proc"] == "CC" else "nc") == t["pc"] and c["fns"] == t["fns"]:
                rows += [ln for ln in kernels_of_cell((c, xs)) if ln.get("cls") == t["cls"] and ln.get("order") == t["order"]]
    for ln in rows:
        print(ln["cls"], "order", ln["order"], "nf", ln["nf"], "resid/tol", ln["resid_milli"] / 1000, ln["note"])
    return 1 if any(ln["resid_milli"] > 1000 or not ln["finite"] for ln in rows) else 0
