"""C09 - heavy-quark production respects its kinematic threshold.

Spec |= P : Thresholds.tla - hadronic pair threshold = partonic threshold, class consistency, monotonicity, slow
            rescaling, exact rationals on a dyadic lattice with points EXACTLY on the threshold (MC_Thresholds).
Code ~ Spec: for every lattice point (exact floats; plus Q2 one ulp below the exact-threshold points) real FFNS runs:
            NC - every row of F2_charm / FL_charm at every order is exactly 0.0 iff the spec says the point is at or
            below the pair threshold, and F2_light / FL_light (the 'missing' heavy-quark channel, NNLO) are bit-identical
            to a run with a heavier charm; CC - rows of F2_charm / F2_bottom are zero iff chi >= 1 and the LO row is the
            delta at the slow-rescaling point chi computed by the spec (direction of p_j(chi)).
"""
import math

import numpy as np

from .. import cards, common

GRID = dict(n_low=4, n_mid=6, x_min=1e-2)


def all_zero(res, pids, hq):
    """every row of a NON-heavy parton is exactly zero (the rows of the heavy quark itself carry the heavy-quark-initiated
    contributions, which have no pair threshold and another convolution point)"""
    keep = [i for i, p in enumerate(pids) if abs(p) != hq]
    return all(np.all(np.asarray(v)[keep] == 0.0) and np.all(np.asarray(e)[keep] == 0.0) for r in res for v, e in r.orders.values())


def same(a, b):
    return all(set(x.orders) == set(y.orders) and all(np.array_equal(x.orders[k][0], y.orders[k][0]) for k in x.orders)
               for x, y in zip(a, b))


def execute(ob):
    cards.silence()
    x, q2, m2 = (float(common.frac(ob[k])) for k in ("x", "Q2", "m2"))
    if ob.get("ulp"):
        q2 = math.nextafter(q2, 0.0)
    hq, nfff = ob["hq"], ob["nfff"]
    hname, mkey = {4: ("charm", "mc"), 5: ("bottom", "mb")}[hq]
    masses = {4: dict(mc=math.sqrt(m2), mb=4.5), 5: dict(mc=1.5, mb=math.sqrt(m2))}[hq]
    line = dict(oid=ob["oid"], proc=ob["proc"], x=ob["x"], Q2=ob["Q2"], m2=ob["m2"], hq=ob["hq"], nfff=nfff, chi=ob["chi"], outcome="OK",
                all_zero=False, light_unchanged=True, delta_milli=0, partonic_ok=True, note="")
    xg = cards.make_grid(GRID["n_low"], GRID["n_mid"], x_min=GRID["x_min"])
    kin = [dict(x=x, Q2=q2)]
    try:
        if ob["proc"] == "NC":
            th = cards.theory(PTO=2, PTODIS=2, FNS="FFNS", NfFF=nfff, mt=170.0, Q0=1.0, **masses)
            o = cards.obs({f"F2_{hname}": kin, f"FL_{hname}": kin, "F2_light": kin, "FL_light": kin}, xgrid=xg, deg=3, prDIS="NC")
            out = cards.run(th, o)
            line["all_zero"] = all_zero(out[f"F2_{hname}"] + out[f"FL_{hname}"], list(out["pids"]), hq)
            if not ob["empty"]:
                # the partonic integrands vanish beyond zmax = 1/(1+4m2/Q2) and not below it
                from yadism import runner as yr
                from yadism.coefficient_functions.heavy import f2_nc, fl_nc

                r = yr.Runner(th, cards.obs({f"F2_{hname}": kin}, xgrid=xg, deg=3, prDIS="NC"))
                esf = r.observables[f"F2_{hname}"].elements[0]
                zmax = 1.0 / (1.0 + 4.0 * m2 / q2)
                for mod in (f2_nc, fl_nc):
                    for cls, order in (("GluonVV", "NLO"), ("GluonAA", "NLO"), ("GluonVV", "NNLO"), ("SingletVV", "NNLO"), ("SingletAA", "NNLO")):
                        rsl = getattr(getattr(mod, cls)(esf, nfff, m2hq=m2), order)()
                        f = lambda z: float(rsl.reg(z, rsl.args["reg"]))
                        beyond = [f(min(zmax * (1 + 1e-9), 1 - 1e-12)), f((zmax + 1) / 2)]
                        inside = f(zmax * (1 - 1e-2))
                        if any(v != 0.0 for v in beyond) or inside == 0.0 or not math.isfinite(inside):
                            line["partonic_ok"] = False
                            line["note"] += f" {mod.__name__.split('.')[-1]}.{cls}.{order}: beyond={beyond} inside={inside}"
            if ob["empty"]:
                th2 = dict(th, **{mkey: masses[mkey] * 1.25})
                out2 = cards.run(th2, o)
                line["light_unchanged"] = same(out["F2_light"] + out["FL_light"], out2["F2_light"] + out2["FL_light"])
                if not line["light_unchanged"]:
                    d = max(float(np.max(np.abs(a.orders[k][0] - b.orders[k][0]))) for a, b in
                            zip(out["F2_light"] + out["FL_light"], out2["F2_light"] + out2["FL_light"]) for k in a.orders)
                    line["note"] = f"light observables change by {d:.3e} when the {hname} mass is raised"
        else:
            name = f"F2_{hname}"
            th = cards.theory(PTO=1, PTODIS=1, FNS="FFNS", NfFF=nfff, mt=170.0, Q0=1.0, **masses)
            o = cards.obs({name: kin, name.replace("F2", "F3"): kin}, xgrid=xg, deg=3, prDIS="CC", ProjectileDIS="neutrino")
            out = cards.run(th, o)
            line["all_zero"] = all_zero(out[name] + out[name.replace("F2", "F3")], list(out["pids"]), ob["hq"])
            if not ob["empty"]:
                from eko.interpolation import InterpolatorDispatcher, XGrid

                interp = InterpolatorDispatcher(XGrid(xg, True), 3, mode_N=False)
                chi = float(common.frac(ob["chi"]))
                e = np.array([pj(chi) for pj in interp])
                lo = np.array(out[name][0].orders[(0, 0, 0, 0)][0])
                for ip, p in enumerate(out["pids"]):
                    if abs(p) == ob["hq"]:
                        lo[ip] = 0.0
                i = int(np.argmax(np.abs(lo).sum(axis=1)))
                v = lo[i]
                if np.linalg.norm(v) == 0:
                    line["delta_milli"] = 2**30
                else:
                    v = v / np.linalg.norm(v) * np.sign(v @ e)
                    line["delta_milli"] = common.milli(float(np.linalg.norm(v - e / np.linalg.norm(e))), 1e-9)
                    line["note"] = f"LO row direction deviates by {np.linalg.norm(v - e / np.linalg.norm(e)):.3e} from p_j(chi={chi})"
    except Exception as ex:
        line["outcome"] = ("Reject_" if isinstance(ex, (ValueError, NotImplementedError)) else "Crash_") + type(ex).__name__
        line["note"] = str(ex)[:200]
    return line


def blind_job(ob):
    """The loop of a massive quark on a light-quark line knows the quark only through its mass (Theorems.C09_MissingIsFlavourBlind):
    D_b(M) = light(mc=M/2, mb=M) - light(mc=M/2, mb=huge)  [the bottom loop at mass M]  equals
    D_c(M) = light(mc=M, mb=huge) - light(mc=huge', mb=huge)  [the charm loop at mass M],
    both non-zero above the pair threshold of M and both zero at and below it (FFNS, NfFF=3, O(a_s^2))."""
    cards.silence()
    x, q2, m2 = (float(common.frac(ob[k])) for k in ("x", "Q2", "m2"))
    M = math.sqrt(m2)
    xg = cards.make_grid(GRID["n_low"], GRID["n_mid"], x_min=GRID["x_min"])
    line = dict(oid=ob["oid"], proc="blind", x=ob["x"], Q2=ob["Q2"], m2=ob["m2"], hq=5, nfff=3, chi=ob["x"], kind=ob["kind"], outcome="OK",
                all_zero=False, light_unchanged=True, delta_milli=0, partonic_ok=True, note="")
    name = f"{ob['kind']}_light"

    def light(mc, mb):
        th = cards.theory(PTO=2, PTODIS=2, FNS="FFNS", NfFF=3, mc=mc, mb=mb, mt=2.0e4, Q0=1.0)
        return cards.run(th, cards.obs({name: [dict(x=x, Q2=q2)]}, xgrid=xg, deg=3, prDIS="NC"))[name][0].orders[(2, 0, 0, 0)][0]
    try:
        d_b = light(0.5 * M, M) - light(0.5 * M, 2.0e3)
        d_c = light(M, 2.0e3) - light(1.0e3, 2.0e3)
        scale = max(float(np.abs(d_c).max()), float(np.abs(d_b).max()))
        line["all_zero"] = bool(scale == 0.0)
        line["delta_milli"] = common.milli(float(np.abs(d_b - d_c).max()), 1e-10 * scale) if scale > 0 else 0
        line["note"] = f"bottom loop at mass M: max {np.abs(d_b).max():.3e}; charm loop at mass M: max {np.abs(d_c).max():.3e}; difference {np.abs(d_b - d_c).max():.3e}"
    except Exception as ex:
        line["outcome"] = ("Reject_" if isinstance(ex, (ValueError, NotImplementedError)) else "Crash_") + type(ex).__name__
        line["note"] = str(ex)[:200]
    return line


def run(ctx):
    ctx.cov["rule"] = ("lattice points (x, Q2, m2) enumerated by TLC with their class relative to the threshold (incl. points exactly "
                       "on it), plus Q2 one ulp below every exact-threshold point; non-trivial = point within a factor 3 of the threshold")
    ctx.cov["trusted_base"] = ["TLC", "numpy", "eko basis functions (LO delta direction)", "math.nextafter"]
    ctx.tlc_check("MC_Thresholds", common.cfg_text({}, invariants=["Inv_HP", "Inv_Class", "Inv_Mono", "Inv_CC"]), coverage=False,
                  min_states=100, min_depth=2)
    obls = ctx.tlc_emit("Emit_C09", common.cfg_text(dict(DEEP=not ctx.quick), spec=None))
    todo = []
    for o in obls:
        o["oid"] = common.oid_of("C09", {k: o[k] for k in ("proc", "x", "Q2", "m2", "hq", "nfff")})
        if float(common.frac(o["x"])) < 0.1 and o["proc"] == "CC" and ctx.quick:
            continue
        todo.append(o)
        if o["proc"] == "NC" and o["cls"] == "at":
            u = dict(o, ulp=True, empty=True)
            u["oid"] = o["oid"] + "-ulp"
            todo.append(u)
    lines = ctx.pmap(execute, todo, chunksize=1)
    # the 'missing' channel of the SECOND massive quark (bottom with NfFF = 3) against the one of the first at the same mass
    from .. import relcheck
    relcheck.mc(ctx, ["Inv_C09_Blind"], consts=dict(NFZM=set(), NFFF={3, 4}, KINDS={"F2", "FL", "F3", "g1"}, PROCS={"EM", "NC"},
                                                    FLAVS={"light", "total"}), subst=dict(ORDERS="ORD_few"), min_states=50)
    bl = []
    for o in obls:
        if o["proc"] == "NC" and o["hq"] == 5 and o["nfff"] == 3 and (not ctx.quick or float(common.frac(o["x"])) in (0.25, 0.5)):
            for kind in ("F2", "FL"):
                b = dict(o, kind=kind)
                b["oid"] = common.oid_of("C09", dict(blind=1, kind=kind, x=o["x"], Q2=o["Q2"], m2=o["m2"]))
                bl.append(b)
    todo = todo + bl
    lines = lines + ctx.pmap(blind_job, bl, chunksize=1)
    for o, ln in zip(todo, lines):
        ctx.count(1, nontrivial_key=ln["oid"] if o["cls"] == "at" or o.get("ulp") or o["proc"] == "CC" else None)
    for ln in lines[:: max(1, len(lines) // 3)][:3]:
        ctx.sample({k: ln[k] for k in ("proc", "x", "Q2", "m2", "hq", "chi", "all_zero", "light_unchanged", "delta_milli")})
    bad = ctx.tlc_validate("Trace_C09", "Trace.cfg", [{k: v for k, v in ln.items() if k not in ("note", "kind")} for ln in lines])
    ctx.selftest("Trace_C09", "Trace.cfg", [{k: v for k, v in ln.items() if k not in ('note', 'kind')} for ln in lines if ln["oid"] not in bad and (True)], [
        ("blind", lambda l: dict(l, delta_milli=7000) if l["proc"] == "blind" and not l["all_zero"] else None),
        ("all_zero", lambda l: dict(l, all_zero=not l["all_zero"])),
        ("outcome", lambda l: dict(l, outcome="Crash_ZeroDivisionError")),
        ("delta", lambda l: dict(l, delta_milli=5000) if l["proc"] == "CC" and not l["all_zero"] else None),
        ("partonic", lambda l: dict(l, partonic_ok=False) if l["proc"] == "NC" and not l["all_zero"] else None),
        ("light", lambda l: dict(l, light_unchanged=False) if l["proc"] == "NC" and l["all_zero"] else None)])
    by = {ln["oid"]: (o, ln) for o, ln in zip(todo, lines)}
    for oid, clause in bad.items():
        o, ln = by[oid]
        key = f"{ln['proc'] if ln['proc'] == 'blind' else o['proc']}{':' + o['kind'] if ln['proc'] == 'blind' else ''}:hq{o['hq']}.NfFF{o['nfff']}:x{o['x'][0]}/{o['x'][1]}:Q2_{o['Q2'][0]}/{o['Q2'][1]}{'-ulp' if o.get('ulp') else ''}:{clause}"
        ctx.violation(key, f"{o['proc']} heavy quark {o['hq']} at x={o['x']}, Q2={o['Q2']}{' (one ulp below)' if o.get('ulp') else ''}, "
                      f"m2={o['m2']} [{o['cls']}]: {clause} {ln['note']}", dict(kind="C09", obligation=o))


def replay(ctx, obj):
    ln = execute(obj["obligation"])
    bad = ctx.tlc_validate("Trace_C09", "Trace.cfg", [{k: v for k, v in ln.items() if k != "note"}])
    print({k: ln[k] for k in ("outcome", "all_zero", "light_unchanged", "delta_milli", "note")}, "verdict:", bad.get(ln["oid"], "ok"))
    return 1 if bad else 0
