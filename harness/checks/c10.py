"""C10 - target-mass-corrected results equal the published formulas.

Spec |= P : TMC.tla - the corrected F2, FL, xF3 as lists of <<term, exact rational prefactor, atom>> (exact, APFEL,
            approximate) on a lattice with rational rho; TLC proves the M -> 0 limit, APFEL = exact without g2,
            F_L = rho^2 F_2 - 2xF_1 on the integral weights, xi < x (MC_TMC).
Code ~ Spec: per lattice point one TMC=0 run gives the bare operators at xi and at every grid node; the term operators
            (h2, g2, h3 as integrals of the INTERPOLANT, own quadrature in u) are combined with TLC's prefactors and
            compared, for every order key, with the real TMC runs in the three modes (Trace_C10).  Continuity at M -> 0
            and rejection of requests whose xi leaves the grid are replayed as well.  g1: only the convention-free part
            (the integrals run over g1 - see C16/C14 request plans - and continuity) is checked.
"""
import math

import numpy as np

from .. import cards, common

Q2 = 10.0
GRID = dict(n_low=5, n_mid=7, x_min=1e-2)
NAMES = {"F2": "F2_total", "FL": "FL_total", "F3": "F3_total"}


def grid():
    return cards.make_grid(GRID["n_low"], GRID["n_mid"], x_min=GRID["x_min"])


def weights(xi, kernel):
    """w_j = int_xi^1 du K(u) p_j(u) for every basis function of the grid (independent quadrature in the PDF variable)."""
    import scipy.integrate as si
    from eko.interpolation import InterpolatorDispatcher, XGrid

    xg = grid()
    interp = InterpolatorDispatcher(XGrid(xg, True), 3, mode_N=False)
    pts = [x for x in xg if xi < x < 1.0]
    ws = []
    for pj in interp:
        if pj.is_below_x(xi):
            ws.append(0.0)
            continue
        val, _ = si.quad(lambda u: kernel(u) * pj(u), xi, 1.0, points=pts, epsabs=1e-13, epsrel=1e-12, limit=400)
        ws.append(val)
    return np.array(ws)


def run_point(group):
    """All obligations of one lattice point (and process)."""
    cards.silence()
    obls = group["obls"]
    proc = group["proc"]
    p = obls[0]["p"]
    x = float(common.frac(p["x"]))
    xi = float(common.frac(obls[0]["xi"]))
    mu = float(common.frac(obls[0]["mu"]))
    mp = math.sqrt(mu * Q2)
    xg = grid()
    proj = "neutrino" if proc == "CC" else "electron"
    base = dict(PTO=1, PTODIS=1, FNS="ZM-VFNS", mc=2.0, mb=5.0, mt=170.0, MP=mp, Q0=1.0)
    kinds = sorted({o["kind"] for o in obls})
    lines = []
    try:
        nodes = [xj for xj in xg]
        # history: the same request on ANOTHER grid first, in the same process (results must not depend on it)
        xg2 = cards.make_grid(GRID["n_low"] - 1, GRID["n_mid"] + 2, x_min=GRID["x_min"] / 2)
        for m in sorted({o["mode"] for o in obls}):
            cards.run(cards.theory(TMC=m, **base),
                      cards.obs({NAMES[k]: [dict(x=x, Q2=Q2)] for k in kinds}, xgrid=xg2, deg=2, prDIS=proc, ProjectileDIS=proj))
        bare = cards.run(cards.theory(TMC=0, **base),
                         cards.obs({NAMES[k]: [dict(x=xi, Q2=Q2)] + [dict(x=xj, Q2=Q2) for xj in nodes] for k in set(kinds) | {"F2"}},
                                   xgrid=xg, deg=3, prDIS=proc, ProjectileDIS=proj, PolarizationDIS=0.0))
        tm = {m: cards.run(cards.theory(TMC=m, **base),
                           cards.obs({NAMES[k]: [dict(x=x, Q2=Q2)] for k in kinds}, xgrid=xg, deg=3, prDIS=proc, ProjectileDIS=proj))
              for m in sorted({o["mode"] for o in obls})}
        err = None
    except Exception as ex:
        err = ("Reject_" if isinstance(ex, (ValueError, NotImplementedError)) else "Crash_") + type(ex).__name__ + " " + str(ex)[:100]
    w_h2 = weights(xi, lambda u: 1.0 / u**2) if not err else None
    w_g2 = weights(xi, lambda u: (u - xi) / u**2) if not err else None
    atoms = {"one": 1.0, "ln_xi": math.log(xi)}
    for o in obls:
        ln = dict(oid=o["oid"], what="formula", kind=o["kind"], mode=o["mode"], p=o["p"], xi=o["xi"], mu=o["mu"], terms=o["terms"],
                  outcome=(err.split(" ")[0] if err else "OK"), nkeys=0, resid_milli=0, note=err or "")
        if not err:
            tres = tm[o["mode"]][NAMES[o["kind"]]][0]
            keys = sorted(tres.orders)
            ln["nkeys"] = len(keys)
            worst = 0
            for k in keys:
                def term_op(name):
                    if name == "SF@xi":
                        return bare[NAMES[o["kind"]]][0].orders[k][0]
                    if name == "F2@xi":
                        return bare[NAMES["F2"]][0].orders[k][0]
                    src, w = {"h2": ("F2", w_h2), "g2": ("F2", w_g2), "h3": ("F3", w_h2)}[name]
                    return sum(wj * bare[NAMES[src]][1 + j].orders[k][0] for j, wj in enumerate(w) if wj != 0.0)
                oracle = sum(float(common.frac(c)) * atoms[a] * term_op(t) for t, c, a in o["terms"])
                code = tres.orders[k][0]
                scale = max(float(np.abs(code).max()), float(np.abs(oracle).max()))
                res = float(np.abs(code - oracle).max())
                mm = common.milli(res, 2e-7 * scale) if scale > 0 else 0
                if mm > worst:
                    worst, ln["note"] = mm, f"key {k}: |code-oracle|={res:.3e} scale={scale:.3e}"
            ln["resid_milli"] = worst
        lines.append(ln)
    return lines


def continuity(job):
    cards.silence()
    kind, mode, proc = job
    xg = grid()
    proj = "neutrino" if proc == "CC" else "electron"
    name = kind + "_total"
    ob = cards.obs({name: [dict(x=0.3, Q2=Q2)]}, xgrid=xg, deg=3, prDIS=proc, ProjectileDIS=proj, PolarizationDIS=0.0)
    base = dict(PTO=1, PTODIS=1, FNS="ZM-VFNS", mc=2.0, mb=5.0, mt=170.0, Q0=1.0)
    ln = dict(oid=f"C10-cont-{kind}-{mode}-{proc}", what="continuity", kind=kind, mode=mode, outcome="OK", resid_milli=0, note="")
    try:
        ref = cards.run(cards.theory(TMC=0, MP=0.938, **base), ob)[name][0]
        seq = []
        for mp in (1e-2, 1e-3, 0.0):
            r = cards.run(cards.theory(TMC=mode, MP=mp, **base), ob)[name][0]
            d = max(float(np.abs(r.orders[k][0] - ref.orders[k][0]).max()) for k in ref.orders)
            s = max(float(np.abs(ref.orders[k][0]).max()) for k in ref.orders)
            seq.append(d / s if np.isfinite(d) else float("nan"))
        # the deviation scales like M^2: 1e-2 -> <= 1e-3 relative, 1e-3 -> <= 1e-5, 0 -> exactly the bare result (to rounding)
        ln["resid_milli"] = max(common.milli(seq[0], 1e-3), common.milli(seq[1], 1e-5), common.milli(seq[2], 1e-12))
        ln["note"] = f"relative deviations at MP=1e-2,1e-3,0: {seq}"
    except Exception as ex:
        ln["outcome"] = ("Reject_" if isinstance(ex, (ValueError, NotImplementedError)) else "Crash_") + type(ex).__name__
        ln["note"] = str(ex)[:200]
    return ln


def rejection(job):
    cards.silence()
    kind, mode, margin = job
    xg = grid()
    from fractions import Fraction
    if margin == "far":
        x, rho, rhoj = xg[0] * 1.0001, 2.0, [2, 1]
    else:
        # ON the lowest grid point with a correction of one part in a million: xi = x (1 - 1e-6) is outside by a hair
        x, rho, rhoj = xg[0], 1.000002, [500001, 500000]
    mu = (rho**2 - 1) / (4 * x**2)
    ln = dict(oid=f"C10-rej-{kind}-{mode}-{margin}", what="rejection", kind=kind, mode=mode, xmin=common.ratj(Fraction(xg[0]).limit_denominator(10**6)),
              p=dict(x=common.ratj(Fraction(x).limit_denominator(10**6)), rho=rhoj), outcome="OK", note="")
    try:
        cards.run(cards.theory(PTO=1, PTODIS=1, TMC=mode, MP=math.sqrt(mu * Q2), mc=2.0, mb=5.0, mt=170.0, Q0=1.0),
                  cards.obs({kind + "_total": [dict(x=x, Q2=Q2)]}, xgrid=xg, deg=3, prDIS="NC"))
    except Exception as ex:
        ln["outcome"] = ("Reject_" if isinstance(ex, (ValueError, NotImplementedError)) else "Crash_") + type(ex).__name__
        ln["note"] = str(ex)[:200]
    return ln


def run(ctx):
    q = ctx.quick
    ctx.cov["rule"] = ("formula obligations = kind x mode x lattice point (x, rational rho) enumerated by TLC, x process; plus continuity "
                       "and rejection probes; non-trivial = every formula obligation (rho > 1)")
    ctx.cov["trusted_base"] = ["TLC", "scipy.quad", "eko basis functions", "numpy"]
    ctx.assumptions.append("g1: the normalisation convention of the reference could not be settled from the repository; only the "
                           "convention-free part (continuity at M -> 0, rejection) is checked for g1")
    ctx.tlc_check("MC_TMC", common.cfg_text({}, invariants=["Inv_Zero", "Inv_Apfel", "Inv_FL", "Inv_XiBelowX"]), coverage=False,
                  min_states=200, min_depth=2)
    obls = ctx.tlc_emit("Emit_C10", common.cfg_text(dict(DEEP=not q), spec=None))
    groups = {}
    for o in obls:
        for proc in (("CC",) if q else ("CC", "NC")):
            oo = dict(o)
            oo["oid"] = common.oid_of("C10", dict(kind=o["kind"], mode=o["mode"], p=o["p"], proc=proc))
            groups.setdefault((repr(o["p"]), proc), dict(proc=proc, obls=[]))["obls"].append(oo)
    res = ctx.pmap(run_point, list(groups.values()))
    lines = [ln for r in res for ln in r]
    lines += ctx.pmap(continuity, [(k, m, "CC" if k != "g1" else "NC") for k in ("F2", "FL", "F3", "g1") for m in (1, 2, 3)])
    lines += ctx.pmap(rejection, [(k, m, mg) for k in ("F2", "FL", "F3", "g1") for m in (1, 2, 3) for mg in ("far", "near")])
    for ln in lines:
        ctx.count(1, nontrivial_key=ln["oid"])
    for ln in lines[:: max(1, len(lines) // 3)][:3]:
        ctx.sample({k: v for k, v in ln.items() if k not in ("oid",)})
    bad = ctx.tlc_validate("Trace_C10", "Trace.cfg", [{k: v for k, v in ln.items() if k != "note"} for ln in lines])
    ctx.selftest("Trace_C10", "Trace.cfg", [{k: v for k, v in ln.items() if k not in ('note',)} for ln in lines if ln["oid"] not in bad and (True)], [
        ("resid", lambda l: dict(l, resid_milli=2000) if l["what"] in ("formula", "continuity") else None),
        ("terms", lambda l: dict(l, terms=l["terms"][:-1]) if l["what"] == "formula" else None),
        ("accepted", lambda l: dict(l, outcome="OK") if l["what"] == "rejection" else None),
        ("crash", lambda l: dict(l, outcome="Crash_IndexError"))])
    by = {ln["oid"]: ln for ln in lines}
    for oid, clause in bad.items():
        ln = by[oid]
        if ln["what"] == "formula":
            key = f"formula:{ln['kind']}:mode{ln['mode']}:x{ln['p']['x'][0]}/{ln['p']['x'][1]}:rho{ln['p']['rho'][0]}/{ln['p']['rho'][1]}:{clause}"
        else:
            key = f"{ln['what']}:{ln['kind']}:mode{ln['mode']}{':near' if ln['oid'].endswith('near') else ''}:{clause}"
        ctx.violation(key, f"TMC {ln['what']} {ln['kind']} mode {ln['mode']}: {clause} {ln['note']}", dict(kind="C10", line_oid=oid))


def replay(ctx, obj):
    print("re-run ./vcheck C10 quick: the obligations of a lattice point share their runs (oid", obj.get("line_oid"), ")")
    return 1
