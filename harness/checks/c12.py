"""C12 - a nuclear target is an isospin rotation of up and down.

Spec |= P : IsospinIsPdfRotation, NeutronIsUDSwap and InPlaceSound (the in-place loop equals the intended
            rotation iff no u/d-asymmetric weight dict is shared) on exact kernel bags; named-target table.
Code ~ Spec: (target, proton) pairs of real runs: Op_target = Mix(Z,A) Op_proton row-wise for every order key;
            runs with a target NAME equal runs with the documented (Z,A).
"""
from .. import relcheck

INVS = ["Inv_C12_Rot", "Inv_C12_Neutron", "Inv_C12_InPlace"]
NAMED = ["proton", "neutron", "isoscalar", "iron", "lead", "neon", "marble"]


def run(ctx):
    ctx.cov["rule"] = ("(target, proton) relation instances enumerated by TLC over kinds x processes x schemes x orders x "
                       "targets (incl. Z/A not in {0,1/2,1}); non-trivial = some non-zero operator entry")
    ctx.cov["trusted_base"] = ["TLC", "numpy"]
    q = ctx.quick
    relcheck.mc(ctx, INVS, consts=dict(KINDS={"F2", "F3", "g1"} if q else {"F2", "FL", "F3", "g1", "gL", "g4"},
                                       PROCS={"EM", "NC", "CC"}, NFZM={3, 5} if q else {3, 4, 5, 6},
                                       NFFF={3, 4}, FLAVS={"light", "total", "charm"},
                                       TARGETS={"neutron", "third", "z25"} if q else {"neutron", "third", "z25", "isoscalar"}),
                subst=dict(ORDERS="ORD_few" if q else "ORD_all"))
    insts = []
    insts += relcheck.emit(ctx, ["IsospinRotation"], PROCS={"NC", "CC"}, PROJS={"e-", "nubar"}, KINDS={"F2", "F3", "g1"},
                           FLAVS={"total", "light"} if q else {"total", "light", "charm"},
                           SCHEMES={"ZM4", "FFNS3", "FFN03", "FONLL03"} if q else {"ZM3", "ZM4", "ZM6", "FFNS3", "FFNS4", "FFN03", "FFN04", "FONLLS3", "FONLL03", "FONLL04"},
                           ORDERS={"11"}, TARGETS={"neutron", "third"} if q else {"neutron", "third", "z25", "isoscalar"})
    # PTO != PTODIS and NNLO: the asymptotic towers (one kernel per log) are where a shared weight dict would bite
    insts += relcheck.emit(ctx, ["IsospinRotation"], PROCS={"NC"}, PROJS={"e-"}, KINDS={"F2"} if q else {"F2", "FL", "F3", "g1"},
                           FLAVS={"light"} if q else {"light", "total"},
                           SCHEMES={"FFN03", "FONLL03", "FFNS3"} if q else {"FFN03", "FFN04", "FONLL03", "FONLL04", "FFNS3", "ZM5"},
                           ORDERS={"21", "22"} if q else {"21", "22", "23", "12"},
                           TARGETS={"neutron", "third"} if q else {"neutron", "third", "z25"})
    insts += relcheck.emit(ctx, ["Named_" + n for n in NAMED], PROCS={"NC"}, PROJS={"e-"}, KINDS={"F2"}, FLAVS={"total"},
                           SCHEMES={"ZM4"}, ORDERS={"11"}, TARGETS=set(NAMED))
    relcheck.drive_and_validate(ctx, "C12", insts)


replay = relcheck.replay
