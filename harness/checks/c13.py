"""C13 - symmetry and decoupling relations between processes and beams.

Spec |= P : NCReducesToEM, PositronFlip, ChargeConjugation, EqualChargeExchange on exact kernel bags over the
            rational EW lattice and two CKM matrices (MC_Lattice).
Code ~ Spec: TLC-emitted pairs of real runs compared row-wise for every order key (Trace_Rel).
"""
from .. import relcheck

INVS = ["Inv_C13_NCEM", "Inv_C13_Flip", "Inv_C13_Conj", "Inv_C13_Exch", "Inv_C13_Tagged"]
RELS = ["NCReducesToEM", "PositronFlip", "ChargeConjugation", "LeptonAsNeutrino", "EqualCharge", "TaggedSpectators"]


def run(ctx):
    ctx.cov["rule"] = ("paired-run relation instances enumerated by TLC over kinds x heavyness x schemes x orders x EW points; "
                       "non-trivial = some non-zero operator entry")
    ctx.cov["trusted_base"] = ["TLC", "numpy"]
    q = ctx.quick
    # weight-level theorems on the full EW lattice (massless cells), then kernel-level over schemes
    relcheck.mc(ctx, INVS, consts=dict(KINDS={"F2", "F3"}, PROCS={"EM", "NC", "CC"}, NFZM={5}, NFFF=set(),
                                       FLAVS={"light"}, CKMS={"generic", "unitary"}),
                subst=dict(S2W="S2W_full", RR="RR_full", OMD="OMD_one" if q else "OMD_full", POL="POL_full", ORDERS="ORD_lo"))
    relcheck.mc(ctx, INVS, consts=dict(KINDS={"F2", "FL", "F3", "g1"} if q else {"F2", "FL", "F3", "g1", "gL", "g4"},
                                       PROCS={"EM", "NC", "CC"}, NFZM={3, 5} if q else {3, 4, 5, 6}, NFFF={3, 4},
                                       FLAVS={"light", "total", "charm"}, CKMS={"generic"},
                                       TARGETS={"proton", "third"}),
                subst=dict(ORDERS="ORD_few" if q else "ORD_all"))
    insts = []
    insts += relcheck.emit(ctx, RELS, PROCS={"NC", "CC"}, PROJS={"e-", "nu"}, KINDS={"F2", "FL", "F3", "g1"},
                           FLAVS={"light", "total", "charm"} if not q else {"total", "charm"},
                           SCHEMES={"ZM5", "FFNS3", "FFNS4"} if q else {"ZM3", "ZM4", "ZM5", "ZM6", "FFNS3", "FFNS4", "FFN03", "FONLLS4"},
                           ORDERS={"11"}, EWS={"g1"} if q else {"g1", "g2"}, CKMS={"generic"} if q else {"generic", "unitary"})
    insts += relcheck.emit(ctx, RELS, PROCS={"NC", "CC"}, PROJS={"e-", "nu"}, KINDS={"F2", "F3"} if q else {"F2", "FL", "F3", "g1", "g4"},
                           FLAVS={"total"}, SCHEMES={"ZM5"} if q else {"ZM5", "FFNS3", "FFN03"}, ORDERS={"22"})
    # charged currents on the asymptotic path (FFN0 / FONLL-FFN0 build their heavy kernels in a module of their own: the beam sign
    # of the gluon and singlet weights has to arrive there as well)
    insts += relcheck.emit(ctx, ["ChargeConjugation", "LeptonAsNeutrino"], PROCS={"CC"}, PROJS={"e-", "nu"}, KINDS={"F2", "F3"} if q else {"F2", "FL", "F3"},
                           FLAVS={"charm", "total"}, SCHEMES={"FFN03", "FONLL04"} if q else {"FFN03", "FFN04", "FONLL03", "FONLL04"}, ORDERS={"11"},
                           CKMS={"generic"})
    # the symmetries on a nuclear target (the isospin rotation acts on quark AND antiquark weights of every kernel)
    insts += relcheck.emit(ctx, ["ChargeConjugation", "LeptonAsNeutrino", "PositronFlip"], PROCS={"NC", "CC"}, PROJS={"e-", "nu"},
                           KINDS={"F2", "F3"}, FLAVS={"charm", "total"} if q else {"light", "charm", "bottom", "total"},
                           SCHEMES={"FFNS3"} if q else {"ZM5", "FFNS3", "FFNS4", "FFN03", "FONLLS4"}, ORDERS={"11"}, TARGETS={"third"})
    # flavour-tagged observables on the massless path above the NEXT threshold (the pure-singlet channel opens at a_s^2)
    insts += relcheck.emit(ctx, ["TaggedSpectators", "PositronFlip", "NCReducesToEM"], PROCS={"NC"} if q else {"EM", "NC"}, PROJS={"e-"},
                           KINDS={"F2"} if q else {"F2", "FL", "F3"}, FLAVS={"charm"} if q else {"charm", "bottom"},
                           SCHEMES={"ZM5"} if q else {"ZM5", "ZM6"}, ORDERS={"22"})
    if not q:
        insts += relcheck.emit(ctx, RELS, PROCS={"NC", "CC"}, PROJS={"e-", "nu"}, KINDS={"F2", "F3"}, FLAVS={"total"},
                               SCHEMES={"ZM4"}, ORDERS={"33"}, TARGETS={"proton", "third"})
    relcheck.drive_and_validate(ctx, "C13", insts)
    n3 = relcheck.emit(ctx, RELS, PROCS={"NC", "CC"}, PROJS={"e-", "nu"}, KINDS={"F2"} if q else {"F2", "FL", "F3"}, FLAVS={"total"},
                       SCHEMES={"ZM5"}, ORDERS={"33"})
    relcheck.drive_and_validate(ctx, "C13", n3, extra=dict(xs=[0.23]))
    if not q:
        tm = relcheck.emit(ctx, RELS, PROCS={"NC", "CC"}, PROJS={"e-", "nu"}, KINDS={"F2", "F3"}, FLAVS={"total"},
                           SCHEMES={"ZM5"}, ORDERS={"11"})
        relcheck.drive_and_validate(ctx, "C13", tm, extra=dict(tmc=1))


replay = relcheck.replay
