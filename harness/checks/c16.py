"""C16 - every documented configuration yields a finite result or a clear rejection.

Spec |= P : OutcomeTotal on the configuration lattice (MC_Lattice: every class the assembly names exists or the
            cell is an explicit rejection; no zero denominators), outcome alphabet incl. TMC, cross sections and the
            kinematic domain (Theorems.Outcome*, KinOutcome).
Code ~ Spec: TLC enumerates the lattice with the predicted class; every cell is run for real; TLC accepts a recorded
            line iff the run ended OK with all values and errors finite, or with an explicit rejection
            (ValueError / NotImplementedError / ImportError of the documented dynamic dispatch); internal errors
            (KeyError, IndexError, AttributeError, TypeError, ZeroDivisionError, ...) and NaN/inf are violations.
"""
import hashlib

import numpy as np

from .. import cards, cells, common

SF_KINDS = ["F2", "FL", "F3", "g1", "gL", "g4"]
XS_KINDS = ["XSHERANC", "XSHERANCAVG", "XSHERACC", "XSCHORUSCC", "XSNUTEVCC", "XSNUTEVNU", "FW", "F1", "g5", "XSFPFCC"]
XVAL = {"in": None, "zero": 0.0, "negative": -0.1, "above1": 1.2, "belowgrid": 1e-4, "one": 1.0,
        "justbelow": "first node times (1 - 5e-6)",
        "tiny": 1e-7}      # the first node of a grid reaching 1e-7, at a virtuality of 3e4 (the massive library at eta ~ 1e10)
QVAL = {"pos": None, "zero": 0.0, "negative": -1.0}


def execute(ob):
    pt = dict(ob["pt"])
    pt["tmc"] = ob["tmc"]
    pt["ren"], pt["fact"] = ob.get("sv", "both") in ("both", "ren"), ob.get("sv", "both") in ("both", "fact")
    name = f"{ob['name']}_{pt['flav']}"
    line = dict(oid=ob["oid"], pt=ob["pt"], name=ob["name"], tmc=ob["tmc"], xc=ob["xc"], qc=ob["qc"], sv=ob.get("sv", "both"),
                predicted=ob["predicted"], cls="OK", etype="", finite=True, msg="")
    if ob["xc"] == "tiny":
        pt["x_min"], pt["Q2"] = 1e-7, [30000, 1]
    h = int(hashlib.sha1(ob["oid"].encode()).hexdigest(), 16)
    if pt["flav"] == "total" and h % 2 == 0:
        name = ob["name"]          # the same observable in its short spelling (no heavyness suffix)
    th, o = cells.build(pt, [name])
    # representation of optional card entries: explicit / None (a YAML null) / absent - documented to mean the same
    if pt["pto"] == pt["ptoEvol"] and (h // 2) % 3:
        if (h // 2) % 3 == 1:
            th["PTODIS"] = None
        else:
            th.pop("PTODIS")
    if pt.get("parts", "full") == "full" and (h // 6) % 3:
        if (h // 6) % 3 == 1:
            th["FONLLParts"] = None
        else:
            th.pop("FONLLParts", None)
    kins = o["observables"][name]
    if XVAL[ob["xc"]] is not None:
        for k in kins:
            k["x"] = XVAL[ob["xc"]] if ob["xc"] != "justbelow" else min(o["interpolation_xgrid"]) * (1 - 5e-6)
    if ob["xc"] == "above1":
        # low virtuality: the Nachtmann variable xi(x) of an unphysical x > 1 falls back below 1
        for k in kins:
            k["Q2"] = 1.0
    if QVAL[ob["qc"]] is not None:
        for k in kins:
            k["Q2"] = QVAL[ob["qc"]]
    if ob["name"] in XS_KINDS:
        for k in kins:
            k["y"] = 0.4
    try:
        out = cards.run(th, o)
    except Exception as ex:
        c = cells.classify_exception(ex)
        line["cls"], line["etype"] = c.split("_", 1)
        line["msg"] = str(ex)[:160]
        return line
    if name not in out or out[name] is None or len(out[name]) != len(kins):
        # the run returned normally but the requested observable is not in the result (or not with its points)
        line["cls"], line["etype"], line["msg"] = "Crash", "RequestedObservableMissingFromResult", f"{name} not in the output"
        return line
    fin = True
    for r in out[name]:
        for v, e in r.orders.values():
            fin = fin and bool(np.all(np.isfinite(v)) and np.all(np.isfinite(e)))
    line["finite"] = fin
    return line


def pick(ob, seed, tier):
    """Deterministic covering sample of the expensive orders (rotates with VERIF_SEED)."""
    pto = ob["pt"]["pto"]
    if ob.get("sv", "both") != "both" or ob["xc"] == "tiny":
        return True
    if tier == "quick" and ob["xc"] == "in" and ((ob["pt"]["proc"] == "CC") != (abs(ob["pt"]["proj"]) == 12)):
        return False  # quick: electrons for EM/NC, neutrinos for CC
    if tier != "quick":
        return True if pto < 3 else (int(hashlib.sha1(ob["oid"].encode()).hexdigest(), 16) + seed) % 2 == 0
    if pto <= 1:
        return True
    h = int(hashlib.sha1(ob["oid"].encode()).hexdigest(), 16) + seed
    return h % (3 if pto == 2 else 5) == 0


def run(ctx):
    q = ctx.quick
    ctx.cov["rule"] = ("cells of kinds x heavyness x process x projectile x scheme x NfFF x PTO x TMC (+ cross sections, "
                       "out-of-domain kinematics) enumerated by TLC; all LO/NLO cells and a seed-rotated share of NNLO/N3LO "
                       "cells are run; non-trivial = distinct cell that executed (OK or explicit rejection)")
    ctx.cov["trusted_base"] = ["TLC", "numpy.isfinite"]
    ctx.tlc_check("MC_Lattice", common.cfg_text(
        dict(NFZM={3, 4, 5, 6}, NFFF={3, 4, 5}, TARGETS={"proton"}, KINDS=set(SF_KINDS), PROCS={"EM", "NC", "CC"},
             FLAVS={"light", "total", "charm", "bottom", "top"}, POSS={0}, CKMS={"generic"}),
        dict(S2W="S2W_one", RR="RR_one", OMD="OMD_one", POL="POL_one", ORDERS="ORD_few" if q else "ORD_all"),
        invariants=["Inv_C16"]), coverage=False, min_states=1000, min_depth=3)
    schemes = (["ZM4", "ZM6", "FFNS3", "FFNS4", "FFN03", "FONLLS4", "FONLL03"] if q else
               ["ZM3", "ZM4", "ZM5", "ZM6", "FFNS3", "FFNS4", "FFNS5", "FFN03", "FFN04", "FONLLS3", "FONLLS4", "FONLL03", "FONLL04"])
    base = dict(PROCS={"EM", "NC", "CC"}, PROJS={"e-", "nu"} if q else {"e-", "e+", "nu", "nubar"},
                FLAVS={"light", "total", "charm", "bottom", "top"}, SCHEMES=set(schemes),
                ORDERS={"00", "11", "22", "33"} if q else {"00", "11", "22", "33", "23", "32", "12"},
                TMCS={0, 1} if q else {0, 1, 2, 3}, XCS={"in"}, QCS={"pos"}, PARTS={"full"}, SVS={"both"})
    cfgs = [common.cfg_text(dict(base, KINDS={k}), spec=None) for k in SF_KINDS]
    # FONLL parts, cross sections, out-of-domain kinematics
    cfgs.append(common.cfg_text(dict(base, KINDS={"F2", "F3"}, SCHEMES={"FONLLS4", "FONLL03"}, PARTS={"massless", "massive"},
                                     ORDERS={"11", "22"}, PROJS={"e-"}), spec=None))
    cfgs.append(common.cfg_text(dict(base, KINDS=set(XS_KINDS), SCHEMES={"ZM4", "FFNS3"} if q else {"ZM4", "FFNS3", "FFN03", "FONLLS4"},
                                     ORDERS={"11"} if q else {"11", "22"}, PROJS={"e-", "nu"}, FLAVS={"total", "charm"}), spec=None))
    cfgs.append(common.cfg_text(dict(base, KINDS={"F2", "FL", "F3", "g1", "XSHERANC"}, SCHEMES={"ZM4"}, ORDERS={"11"}, PROJS={"e-"},
                                     FLAVS={"total"}, PROCS={"NC"}, TMCS={0, 1, 2, 3},
                                     XCS={"in", "zero", "negative", "above1", "belowgrid", "justbelow", "one"},
                                     QCS={"pos", "zero", "negative"}), spec=None))
    cfgs.append(common.cfg_text(dict(base, KINDS={"XSFPFCC", "XSCHORUSCC", "FW", "XSNUTEVCC"}, SCHEMES={"ZM4"}, ORDERS={"11"}, PROJS={"nu"},
                                     FLAVS={"total"}, PROCS={"CC"}, TMCS={0, 1}, XCS={"in", "zero", "negative", "above1", "belowgrid", "justbelow", "one"},
                                     QCS={"pos", "zero", "negative"}), spec=None))
    # in-domain corner: the smallest x of a standard grid at a high virtuality, every kind, massive and massless
    cfgs.append(common.cfg_text(dict(base, KINDS=set(SF_KINDS), SCHEMES={"ZM4", "FFNS3"} if q else {"ZM4", "FFNS3", "FFNS4", "FFN03", "FONLLS4"},
                                     ORDERS={"22"} if q else {"11", "22"}, PROJS={"e-"} if q else {"e-", "nu"}, FLAVS={"light", "total"} if q else {"light", "total", "charm"},
                                     PROCS={"NC"} if q else {"EM", "NC", "CC"}, TMCS={0}, XCS={"tiny"}), spec=None))
    # the scale-variation switches in every combination
    cfgs.append(common.cfg_text(dict(base, KINDS={"F2", "F3", "XSHERANC"} if q else {"F2", "FL", "F3", "g1", "XSHERANC", "XSCHORUSCC"},
                                     SCHEMES={"ZM4", "FFNS3"} if q else {"ZM4", "FFNS3", "FFN03", "FONLLS4"},
                                     ORDERS={"11", "22"} if q else {"00", "11", "22", "33"}, PROJS={"e-", "nu"}, FLAVS={"total"} if q else {"total", "charm"},
                                     TMCS={0, 1}, SVS={"ren", "fact", "none"}), spec=None))
    obs = ctx.tlc_emit_many("Emit_C16", cfgs)
    seen, todo = set(), []
    for o in obs:
        o["oid"] = common.oid_of("C16", {k: o[k] for k in ("pt", "name", "tmc", "xc", "qc")} | ({"sv": o["sv"]} if o["sv"] != "both" else {}))
        if o["oid"] in seen:
            continue
        seen.add(o["oid"])
        if pick(o, ctx.seed, ctx.tier):
            todo.append(o)
    ctx.cov["cells_enumerated"] = len(seen)
    ctx.cov["cells_run"] = len(todo)
    todo.sort(key=lambda o: -o["pt"]["pto"])
    lines = ctx.pmap(execute, todo, chunksize=4)
    stats = {}
    for ln in lines:
        k = f"predicted={ln['predicted']} observed={ln['cls']}{('_' + ln['etype']) if ln['etype'] else ''}{'' if ln['finite'] else ' NONFINITE'}"
        stats[k] = stats.get(k, 0) + 1
        ctx.count(1, nontrivial_key=ln["oid"] if ln["cls"] in ("OK", "Reject") else None)
    ctx.cov["outcome_table"] = stats
    for ln in lines[:: max(1, len(lines) // 4)][:4]:
        ctx.sample({k: ln[k] for k in ("pt", "name", "tmc", "xc", "qc", "predicted", "cls", "etype", "finite")})
    bad = ctx.tlc_validate_sharded("Trace_C16", "Trace.cfg", [{k: v for k, v in ln.items() if k != "msg"} for ln in lines])
    byoid = {ln["oid"]: (o, ln) for o, ln in zip(todo, lines)}
    good = [{k: v for k, v in ln.items() if k != "msg"} for ln in lines if ln["oid"] not in bad and ln["cls"] == "OK"]
    ctx.selftest("Trace_C16", "Trace.cfg", good, [("finite", lambda l: dict(l, finite=False)),
                                                   ("class", lambda l: dict(l, cls="Crash", etype="KeyError")),
                                                   ("predicted", lambda l: dict(l, predicted="Reject:tmc"))])
    for oid, clause in bad.items():
        o, ln = byoid[oid]
        pt = o["pt"]
        key = (f"{pt['proc']}:{o['name']}_{pt['flav']}:{pt['fns']}{pt['nfff']}:nfzm{pt['nfzm']}:pto{pt['pto']}.{pt['ptoEvol']}:"
               f"tmc{o['tmc']}{'' if o['sv'] == 'both' else '.sv_' + o['sv']}:{o['xc']}/{o['qc']}:{clause}")
        ctx.violation(key, f"{o['name']}_{pt['flav']} {pt['proc']} {pt['fns']}(NfFF={pt['nfff']}) PTODIS={pt['pto']} PTO={pt['ptoEvol']} "
                      f"TMC={o['tmc']} x:{o['xc']} Q2:{o['qc']}: {clause} {ln['msg']}", dict(kind="C16", obligation=o, observed=ln))
    # the grammar of observable names (Names.tla): which names are a documented configuration at all
    from .. import names
    names.run(ctx, "C16")


def replay(ctx, obj):
    if obj.get("kind") == "names":
        from .. import names
        return names.replay(ctx, obj)
    o = obj["obligation"]
    ln = execute(o)
    bad = ctx.tlc_validate("Trace_C16", "Trace.cfg", [{k: v for k, v in ln.items() if k != "msg"}])
    print("cell:", o, "\nobserved:", ln["cls"], ln["etype"], "finite" if ln["finite"] else "NON-FINITE", ln["msg"],
          "\nverdict:", bad.get(ln["oid"], "ok"))
    return 1 if bad else 0
