"""C01 - operator entries are x times (coefficient function (x) basis function).

Spec |= P : Convolution.tla - the case analysis of conv.convolution as a decision table, proved total and sound against
            the mathematical convolution (MC_Convolution); Registry.tla enumerates the kernels (completeness in C03).
Code ~ Spec: every registry element is obtained through the real assembly at several positions of the convolution point
            (interior, on a grid node, large x); (a) kernel level: the REAL convolve_vector(rsl, interpolator, x_c) against
            an independent quadrature of the definition written in the PDF variable u = x/z (own breakpoints, plus
            prescription by subtraction); (b) assembly level: the operator tensor of the real element against
            sum_k partons_k (x) x_c,k vec_k with x_c the convolution point of each kernel.  The same process first serves a
            request on ANOTHER grid (results must not depend on it).  Trace_C01 takes the verdict.
"""
import math

import numpy as np

from .. import cards, common, rsl as rslmod


def oracle_vector(r, interp, xg, xc):
    """(c (x) p_j)(xc) for every basis function, by quadrature in u = xc/z; returns values and error estimates."""
    import scipy.integrate as si

    vals, errs = [], []
    nodes = [u for u in xg if xc < u < 1.0]
    # massive kernels vanish identically above the pair threshold z_max < 1: the edge of the support is a break point of the
    # integrand (QUADPACK under-estimated its error by seven orders of magnitude when it was not told; thorough tier, false alarm)
    def nonzero(f, a, z):
        try:
            return float(f(z, r.args[a])) != 0.0
        except ZeroDivisionError:   # exactly on the threshold (beta = 0), a null set
            return False

    for f, a in ((r.reg, "reg"), (r.sing, "sing")):
        if f is None or xc >= 1.0 or nonzero(f, a, 1.0 - 1e-9):
            continue
        lo, hi = xc, 1.0 - 1e-9
        if not nonzero(f, a, 0.5 * (lo + hi)) and not nonzero(f, a, lo * (1 + 1e-9)):
            continue   # nowhere supported
        for _ in range(70):
            mid = 0.5 * (lo + hi)
            if nonzero(f, a, mid):
                lo = mid
            else:
                hi = mid
        if xc < xc / lo < 1.0:
            nodes = sorted(set(nodes) | {xc / lo})
    loc = float(r.loc(xc, r.args["loc"])) if r.loc is not None else 0.0
    for pj in interp:
        if xc >= 1.0 or pj.is_below_x(xc):
            vals.append(0.0)
            errs.append(0.0)
            continue
        fx = float(pj(xc))
        tot = err = 0.0
        if r.reg is not None:
            v, e = si.quad(lambda u: 0.0 if xc / u >= 1.0 else float(r.reg(xc / u, r.args["reg"])) * float(pj(u)) / u, xc, 1.0,
                           points=nodes or None, epsabs=1e-13, epsrel=1e-11, limit=400)
            tot, err = tot + v, err + e
        if r.sing is not None:
            # (after many bisections towards the end point u can round to xc: the integrand has a finite limit there, a null set)
            v, e = si.quad(lambda u: 0.0 if xc / u >= 1.0 else xc / u**2 * float(r.sing(xc / u, r.args["sing"])) * (u / xc * float(pj(u)) - fx),
                           xc, 1.0, points=nodes or None, epsabs=1e-13, epsrel=1e-11, limit=400)
            tot, err = tot + v, err + e
        vals.append(tot + fx * loc)
        errs.append(err)
    return np.array(vals), np.array(errs)


def cell_job(job):
    cards.silence()
    cell, xs = job[0], job[1]
    decoys = (cards.make_grid(5, 6, x_min=1e-3), cards.make_grid(3, 5, x_min=0.1))   # one reaching lower, one less low in x
    if len(job) > 2 and job[2] == "high_first":
        decoys = decoys[::-1]
    from yadism import coefficient_functions as cf
    from yadism.esf import conv

    lines = []
    # history: requests on other grids of the same log mode first, in this process
    for decoy in decoys:
        try:
            rslmod.make_element(dict(cell, x=0.3), xgrid=decoy)[1].get_result()
        except Exception:
            pass
    xg = cards.make_grid(4, 4, x_min=cell.get("xmin", 1e-2))
    for x in xs:
        c = dict(cell, x=x)
        try:
            r, e = rslmod.make_element(c, xgrid=xg)
            interp = r.configs.managers["interpolator"]
            comb = cf.Combiner(e)
            kers = comb.collect_elems()
        except Exception as ex:
            lines.append(dict(what="cell_error", note=f"{cell['kind']} {cell['proc']} {cell['fns']}: {type(ex).__name__}"))
            continue
        pids = None
        expected = {}
        # a nuclear target: the parton a coefficient function is assigned to is the PROTON's assignment with u and d mixed in the
        # ratio Z : A-Z (antiquarks alike), whatever way the card spells the target - taken from the proton twin of the cell, not
        # from the kernels under test
        rotated = None
        if cell.get("target"):
            try:
                e0 = rslmod.make_element(dict(c, target=None), xgrid=xg)[1]
                k0 = cf.Combiner(e0).collect_elems()
                Z, A = cell["ZA"]
                if len(k0) == len(kers) and all(type(a.coeff) is type(b.coeff) for a, b in zip(k0, kers)):
                    rotated = []
                    for kk in k0:
                        w = dict(kk.partons)
                        for u, d in ((2, 1), (-2, -1)):
                            wu, wd = kk.partons.get(u, 0.0), kk.partons.get(d, 0.0)
                            w[u], w[d] = (Z * wu + (A - Z) * wd) / A, (Z * wd + (A - Z) * wu) / A
                        rotated.append(w)
            except Exception:
                rotated = None
            if rotated is None:
                lines.append(dict(what="cell_error", note=f"{cell['kind']} {cell['proc']} {cell['fns']}: no proton twin for target {cell['target']}"))
                continue
        for ik, ker in enumerate(kers):
            co = ker.coeff
            mod = type(co).__module__.split(".")
            key = (cell["kind"], "cc" if cell["proc"] == "CC" else "nc", f"{mod[-2]}/{type(co).__name__}")
            xc = co.convolution_point()
            for o in range(cell["pto"] + 1):
                if not ker.has_order(o):
                    continue
                rs = co[o]()
                if rs is None:
                    continue
                code, cerr = conv.convolve_vector(rs, interp, xc)
                if rs.reg is None and rs.sing is None and rs.loc is None:
                    # the empty distribution (below the pair threshold every order answers with it): contributes exactly nothing
                    if np.any(code != 0.0):
                        lines.append(dict(what="vector", kind=key[0], pc=key[1], cls=key[2], order=o, nf=int(comb.nf), fns=cell["fns"], x=x,
                                          ratio=cell.get("ratio", 0), has_reg=False, has_sing=False, has_loc=False, finite=True, zeros_ok=False,
                                          quad_calls=0, dev_milli=0, note="empty distribution gives a non-zero vector"))
                    continue
                ora, oerr = oracle_vector(rs, interp, xg, xc)
                scale = max(float(np.abs(code).max()), float(np.abs(ora).max()), 1e-300)
                tol = 10 * (cerr + oerr) + (5e-5 if o == 3 else 5e-6) * scale + 1e-12
                dev = float(np.max(np.abs(code - ora) / tol)) if np.all(np.isfinite(code)) and np.all(np.isfinite(ora)) else float("inf")
                below = np.array([bool(pj.is_below_x(xc)) for pj in interp])
                lines.append(dict(what="vector", kind=key[0], pc=key[1], cls=key[2], order=o, nf=int(comb.nf), fns=cell["fns"], x=x,
                                  hist=cell.get("hist", ""), ratio=cell.get("ratio", 0), has_reg=rs.reg is not None, has_sing=rs.sing is not None, has_loc=rs.loc is not None,
                                  finite=bool(np.all(np.isfinite(code))), zeros_ok=bool(np.all(code[below] == 0.0)), quad_calls=0,
                                  dev_milli=common.milli(dev, 1.0),
                                  note=f"xc={xc:.6g} max|code-oracle|={float(np.max(np.abs(code - ora))):.3e} scale={scale:.3e}"))
                from eko import basis_rotation as br
                partons = np.array([(rotated[ik] if rotated is not None else ker.partons).get(pid, 0.0) for pid in br.flavor_basis_pids])
                expected[o] = expected.get(o, 0) + np.outer(partons, xc * ora)
        # which masses the massive classes were built with (per class: one kernel set per massive quark)
        if cell["fns"] == "FFNS" and x == xs[0]:
            th_m2 = [4.0, 25.0, 144.0]          # make_element: mc=2, mb=5, mt=12
            bycls = {}
            for ker in kers:
                m2 = getattr(ker.coeff, "m2hq", None)
                if m2 is not None and type(ker.coeff).__module__.split(".")[-2] == "heavy":
                    bycls.setdefault(type(ker.coeff).__name__, set()).add(float(m2))
            for cname, ms in sorted(bycls.items()):
                lines.append(dict(what="masses", hist=cell.get("hist", ""), kind=cell["kind"], proc=cell["proc"], fns=cell["fns"], pto=cell["pto"], x=x,
                                  ratio=cell.get("ratio", 0), nf=cell["nf"], nfff=cell["nfff"], flav=cell["flav"], cls=cname, order=0, distinct=len(ms),
                                  all_theory_masses=all(any(abs(m - t) <= 1e-12 * t for t in th_m2) for m in ms),
                                  note=f"class {cname}: masses^2 {sorted(ms)}"))
        # (b) assembly
        try:
            res = e.get_result()
            worst, note = 0.0, ""
            nonfinite = sorted(o for o, ten in expected.items() if not np.all(np.isfinite(res.orders[(o, 0, 0, 0)][0])))
            lines.append(dict(what="finite", hist=cell.get("hist", ""), kind=cell["kind"], proc=cell["proc"], fns=cell["fns"], pto=cell["pto"], x=x, ratio=cell.get("ratio", 0),
                              nf=cell["nf"], finite=not nonfinite, note=f"orders with non-finite entries: {nonfinite}"))
            for o, ten in expected.items():
                if o in nonfinite:
                    continue   # judged by the `finite` line; the other orders of the element are still compared
                got = res.orders[(o, 0, 0, 0)][0]
                s = max(float(np.abs(got).max()), float(np.abs(ten).max()), 1e-300)
                d = float(np.abs(got - ten).max()) / s
                if not (d <= worst):
                    worst, note = (d if d == d else float("inf")), f"order {o}: max relative difference {d:.3e}"
            lines.append(dict(what="assembly", hist=cell.get("hist", ""), kind=cell["kind"], proc=cell["proc"], fns=cell["fns"], pto=cell["pto"], x=x, ratio=cell.get("ratio", 0),
                              nf=cell["nf"], outcome="OK", dev_milli=common.milli(worst, 2e-4 if cell["pto"] == 3 else 2e-5), note=note))
        except Exception as ex:
            lines.append(dict(what="assembly", hist=cell.get("hist", ""), kind=cell["kind"], proc=cell["proc"], fns=cell["fns"], pto=cell["pto"], x=x, ratio=cell.get("ratio", 0),
                              nf=cell["nf"], outcome="Crash_" + type(ex).__name__, dev_milli=0, note=str(ex)[:150]))
    return lines


def run(ctx):
    q = ctx.quick
    ctx.cov["rule"] = ("vector lines = registry element x nf x scheme x position of the convolution point (interior / on a node / large x); "
                       "assembly lines = cell x position; non-trivial = vector with a non-zero entry")
    ctx.cov["trusted_base"] = ["TLC", "scipy.quad", "eko basis functions", "LeProHQ / adani values inside kernels"]
    ctx.assumptions.append("the continuum in (x, Q2) is sampled per position class, not covered; N3LO massive NC kernels are non-finite "
                           "(known data defect) and are judged by C03/C16")
    ctx.tlc_check("MC_Convolution", common.cfg_text({}, invariants=["Inv_Total", "Inv_Sound", "Inv_Case"]), coverage=False, min_states=24)
    xg = cards.make_grid(4, 4, x_min=1e-2)
    xs = (0.05, xg[2], 0.75) if not q else (0.05, xg[5])
    cells = rslmod.coverage_cells(q)
    if q:   # quick: orders up to NNLO everywhere, N3LO on the massless NC/CC F2 cells only
        cells = [dict(c, pto=min(c["pto"], 2), ptoEvol=min(c["ptoEvol"], 2)) if not (c["fns"] == "ZM-VFNS" and c["kind"] == "F2") else c for c in cells]
    # the order of the EVOLUTION (card key PTO) below the order of the coefficient functions (PTODIS): every order up to PTODIS
    # is still there (Kernels.tla: the active orders are 0..pto, ptoEvol only selects the asymptotic towers)
    evol = [dict(c, ptoEvol=0, hist="evol0") for c in cells if c["fns"] == "ZM-VFNS" and c["kind"] in ("F2", "FL") and c["proc"] == "NC"][:2 if q else 4]
    evol += [dict(c, ptoEvol=1, hist="evol1") for c in cells if c["fns"] == "FFNS" and c["kind"] == "F2" and c["proc"] == "NC" and c["pto"] >= 2][:1 if q else 3]
    cells = cells + evol
    jobs = [(c, xs) for c in cells]
    # nuclear targets in every spelling a card may carry (mapping with Z first, with A first - a YAML dump sorts the keys -, floats,
    # a name): the assignment of coefficient functions to partons is the proton's, rotated
    def pick(kind, proc, fns):
        return next(c for c in cells if c["kind"] == kind and c["proc"] == proc and c["fns"] == fns and c.get("hist", "") == "")
    tcells = [dict(pick("F2", "NC", "ZM-VFNS"), target={"A": 208, "Z": 82}, ZA=[82, 208], hist="tgtAZ"),
              dict(pick("F3", "CC", "FFNS"), target={"A": 56.0, "Z": 26.0}, ZA=[26, 56], hist="tgtAZf"),
              dict(pick("F2", "NC", "FFN0"), target={"Z": 82, "A": 208}, ZA=[82, 208], hist="tgtZA"),
              dict(pick("FL", "NC", "ZM-VFNS"), target="lead", ZA=[82, 208], hist="tgtname")]
    jobs += [(dict(c, pto=min(c["pto"], 1), ptoEvol=min(c["ptoEvol"], 1)), xs[:1]) for c in (tcells if not q else tcells[:3])]
    # very small x, a hair above the first nodes of a grid reaching 1e-7 (an absolute tolerance of 1e-8 is 10 % of x there)
    xg7 = cards.make_grid(4, 4, x_min=1e-7)
    tiny = [dict(c, pto=min(c["pto"], 2), ptoEvol=min(c["ptoEvol"], 2), xmin=1e-7, hist="tinyx") for c in cells
            if c["fns"] == "ZM-VFNS" and c["kind"] in ("F2", "F3") and c.get("hist", "") == ""][:2 if q else 6]
    jobs += [(c, (xg7[0] * 1.05, xg7[1] * (1 + 2e-3))) for c in tiny]
    res = ctx.pmap(cell_job, jobs, chunksize=1)
    # history in FRESH processes: the very first grid a process sees is coarser / finer than the one under test
    hist = [c for c in cells if c["fns"] == "ZM-VFNS" and c["kind"] in ("F2", "F3") and c["nf"] == 3][:2 if q else 4]
    res += ctx.pmap(cell_job, [(dict(c, pto=min(c["pto"], 2), ptoEvol=min(c["ptoEvol"], 2), hist=h), xs, h) for c in hist for h in ("high_first", "low_first")],
                    fresh=True)
    lines = []
    for rows in res:
        for ln in rows:
            if ln["what"] == "cell_error":
                ctx.cov.setdefault("cells_not_served", []).append(ln["note"])
                continue
            ln["oid"] = common.oid_of("C01", {k: ln.get(k) for k in ("what", "kind", "pc", "proc", "cls", "order", "nf", "fns", "x", "ratio", "pto", "hist")})
            lines.append(ln)
    uniq = {ln["oid"]: ln for ln in lines}
    lines = list(uniq.values())
    for ln in lines:
        ctx.count(1, nontrivial_key=ln["oid"])
    for ln in lines[:: max(1, len(lines) // 3)][:3]:
        ctx.sample({k: v for k, v in ln.items() if k != "oid"})
    bad = ctx.tlc_validate_sharded("Trace_C01", "Trace.cfg", [{k: v for k, v in ln.items() if k != "note"} for ln in lines])
    ctx.selftest("Trace_C01", "Trace.cfg", [{k: v for k, v in ln.items() if k not in ('note',)} for ln in lines if ln["oid"] not in bad and (True)], [
        ("dev", lambda l: dict(l, dev_milli=2500)),
        ("finite", lambda l: dict(l, finite=False) if l["what"] in ("vector", "finite") else None),
        ("zeros", lambda l: dict(l, zeros_ok=False) if l["what"] == "vector" else None),
        ("element", lambda l: dict(l, order=7) if l["what"] == "vector" else None),
        ("outcome", lambda l: dict(l, outcome="Crash_KeyError") if l["what"] == "assembly" else None),
        ("masses", lambda l: dict(l, distinct=l["distinct"] - 1) if l["what"] == "masses" and l["proc"] == "NC" and l["flav"] == "total" else None)])
    for oid, clause in bad.items():
        ln = uniq[oid]
        if ln["what"] == "vector":
            key = f"vector:{ln['kind']}_{ln['pc']}:{ln['cls']}:order{ln['order']}:{clause}"
            what = f"{ln['cls']} ({ln['kind']}_{ln['pc']}) order {ln['order']} nf={ln['nf']} {ln['fns']} x={ln['x']}: {clause} [{ln['note']}]"
        elif ln["what"] == "masses":
            key = f"masses:{ln['kind']}:{ln['proc']}:{ln['fns']}{ln['nfff']}:{ln['cls']}:{clause}"
            what = f"element {ln['kind']} {ln['proc']} {ln['fns']} NfFF={ln['nfff']} pto={ln['pto']}: {clause} [{ln['note']}]"
        elif ln["what"] == "finite":
            key = f"finite:{ln['kind']}:{ln['proc']}:{ln['fns']}:pto{ln['pto']}:{clause}"
            what = f"element {ln['kind']} {ln['proc']} {ln['fns']} pto={ln['pto']} nf={ln['nf']} x={ln['x']}: {clause} [{ln['note']}]"
        else:
            key = f"assembly:{ln['kind']}:{ln['proc']}:{ln['fns']}:pto{ln['pto']}:{clause}"
            what = f"element {ln['kind']} {ln['proc']} {ln['fns']} pto={ln['pto']} x={ln['x']}: {clause} [{ln['note']}]"
        ctx.violation(key, what, dict(kind="C01", line={k: v for k, v in ln.items() if k != "oid"}))


def replay(ctx, obj):
    print("re-run ./vcheck C01 quick; offending line:", obj.get("line"))
    return 1
