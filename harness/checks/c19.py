"""C19 - predictions are stable under refinement of the interpolation grid.

Spec |= P : Refinement.tla - the grid family (size, degree, spacing), the reference, and the relations a recorded set of
            predictions must satisfy: absolute caps per family member from the interpolation order, "finer is not worse"
            (Rel_Refine), node continuity.  TLC enumerates the family and judges every recorded line.
Code ~ Spec: real runs that differ ONLY in interpolation_* settings (all members of the family in ONE process, including two
            grids of equal size and different spacing), several observables and orders, x from 1e-3 to 0.93, contracted with a
            smooth toy PDF at xiF = 1 and 2; plus a request exactly on a grid node against the same request displaced by 1e-9.
"""
import numpy as np

from .. import cards, common

Q2 = 20.0
XS = (2e-3, 0.01, 0.1, 0.5, 0.93)


class Toy:
    def hasFlavor(self, pid):
        return pid != 22

    def xfxQ2(self, pid, x, Q2):
        w = {21: 3.0, 1: 1.0, 2: 2.0, -1: 0.4, -2: 0.3, 3: 0.25, -3: 0.25, 4: 0.1, -4: 0.1}.get(pid, 0.02)
        return w * x**0.5 * (1 - x) ** 3 * (1 + 0.05 * np.log(Q2 / 20.0))


def grid_of(member):
    return cards.make_grid(member["low"], member["mid"], x_min=1e-4)


def job_run(job):
    cards.silence()
    case, family = job
    name, th_kw, ob_kw = case["name"], case["th"], case["ob"]
    preds = {}
    for member in family:     # all members in this one process, in the order the specification lists them
        xg = grid_of(member)
        out = cards.run(cards.theory(mc=2.0, mb=5.0, mt=170.0, Q0=1.0, **th_kw),
                        cards.obs({name: [dict(x=x, Q2=Q2) for x in XS]}, xgrid=xg, deg=member["deg"], **ob_kw))
        for xir, xif in ((1.0, 1.0), (1.0, 2.0)):
            p = out.apply_pdf_alphas_alphaqed_xir_xif(Toy(), lambda mu: 0.25, lambda mu: 1 / 137, xir, xif)[name]
            preds[(member["name"], xif)] = [float(e["result"]) for e in p]
    lines = []
    ref = family[-1]["name"]
    for xif in (1.0, 2.0):
        for i, x in enumerate(XS):
            r = preds[(ref, xif)][i]
            e = {m["name"]: (int(min(round(abs(preds[(m["name"], xif)][i] - r) / abs(r) * 1e9), 2**30)) if r != 0 else 2**30) for m in family[:-1]}
            lines.append(dict(what="refine", case=case["id"], x=x, xq=int(round(x * 1e6)), xif=xif, errs=[[k, v] for k, v in e.items()], finite=bool(np.isfinite(r)),
                              note=f"reference {r!r}; relative deviations (1e-9): {e}"))
    # the coarse member's node set listed in other orders (descending; odd-indexed nodes appended after the even-indexed ones)
    m0 = family[0]
    xg0 = list(grid_of(m0))
    worst = {}
    for order in (xg0[::-1], xg0[::2] + xg0[1::2]):
        out = cards.run(cards.theory(mc=2.0, mb=5.0, mt=170.0, Q0=1.0, **th_kw),
                        cards.obs({name: [dict(x=x, Q2=Q2) for x in XS]}, xgrid=order, deg=m0["deg"], **ob_kw))
        p = [float(e["result"]) for e in out.apply_pdf_alphas_alphaqed_xir_xif(Toy(), lambda mu: 0.25, lambda mu: 1 / 137, 1.0, 2.0)[name]]
        for i, x in enumerate(XS):
            r = preds[(m0["name"], 2.0)][i]
            d = abs(p[i] - r) / abs(r) if r != 0 else float("inf")
            worst[i] = max(worst.get(i, 0.0), d)
    for i, x in enumerate(XS):
        lines.append(dict(what="listing", case=case["id"], x=x, xq=int(round(x * 1e6)), xif=2.0,
                          errs=[["listing", int(min(round(worst[i] * 1e9), 2**30)) if np.isfinite(worst[i]) else 2**30]], finite=bool(np.isfinite(worst[i])),
                          note=f"largest relative change under re-listing of the nodes: {worst[i]:.3e}"))
    # node continuity on the coarse member
    m0 = family[0]
    xg = grid_of(m0)
    node = xg[len(xg) // 2]
    out = cards.run(cards.theory(mc=2.0, mb=5.0, mt=170.0, Q0=1.0, **th_kw),
                    cards.obs({name: [dict(x=node, Q2=Q2), dict(x=node * (1 - 1e-9), Q2=Q2), dict(x=node * (1 + 1e-9), Q2=Q2)]}, xgrid=xg,
                              deg=m0["deg"], **ob_kw))
    p = [float(e["result"]) for e in out.apply_pdf_alphas_alphaqed_xir_xif(Toy(), lambda mu: 0.25, lambda mu: 1 / 137, 1.0, 2.0)[name]]
    d = max(abs(p[1] - p[0]), abs(p[2] - p[0])) / abs(p[0])
    lines.append(dict(what="node", case=case["id"], x=node, xq=int(round(node * 1e6)), xif=2.0, errs=[["node", int(min(round(d * 1e9), 2**30))]], finite=bool(np.isfinite(d)),
                      note=f"on node {p[0]!r}, displaced {p[1]!r} {p[2]!r}"))
    return lines


def tiny_job(case):
    """Two grids reaching 1e-7 at very small x, the requests a few 1e-9 away from nodes of the first grid only."""
    cards.silence()
    A, B = cards.make_grid(30, 15, x_min=1e-7), cards.make_grid(45, 20, x_min=1e-7)
    xs = [A[2] + 5e-9, A[5] + 8e-9, A[9] * (1 + 8e-6), 3.3e-6, 4.4e-5]
    name, th_kw, ob_kw = case["name"], case["th"], case["ob"]
    res = {}
    for lab, g in (("A", A), ("B", B)):
        out = cards.run(cards.theory(mc=2.0, mb=5.0, mt=170.0, Q0=1.0, **th_kw), cards.obs({name: [dict(x=x, Q2=Q2) for x in xs]}, xgrid=g, deg=4, **ob_kw))
        res[lab] = [float(e["result"]) for e in out.apply_pdf_alphas_alphaqed_xir_xif(Toy(), lambda mu: 0.25, lambda mu: 1 / 137, 1.0, 2.0)[name]]
    lines = []
    for x, a, b in zip(xs, res["A"], res["B"]):
        d = abs(a - b) / abs(b) if b != 0 and np.isfinite(a) and np.isfinite(b) else float("inf")
        lines.append(dict(what="tiny", case=case["id"], x=x, xq=int(round(x * 1e6)), xif=2.0, errs=[["tiny", int(min(round(d * 1e9), 2**30)) if np.isfinite(d) else 2**30]],
                          finite=bool(np.isfinite(d)), note=f"grid A {a!r}, grid B {b!r}"))
    # below the lowest node there is nothing to interpolate: both grids (log interpolation) refuse the request
    for lab, g, xb in (("A", A, A[0] * 0.5), ("A", A, A[0] * (1 - 1e-3)), ("C", cards.make_grid(10, 10, x_min=1e-3), 5e-4)):
        try:
            cards.run(cards.theory(mc=2.0, mb=5.0, mt=170.0, Q0=1.0, **th_kw), cards.obs({name: [dict(x=xb, Q2=Q2)]}, xgrid=g, deg=4, **ob_kw))
            answered, note = 2**30, "answered"
        except (ValueError, NotImplementedError) as ex:
            answered, note = 0, f"refused: {str(ex)[:80]}"
        except Exception as ex:      # not an answer either, but not a refusal: reported through the same clause
            answered, note = 2**30, f"died with {type(ex).__name__}: {str(ex)[:60]}"
        lines.append(dict(what="below", case=case["id"] + "_" + lab, x=xb, xq=int(round(xb * 1e6)), xif=1.0, errs=[["below", answered]], finite=True, note=note))
    return lines


def run(ctx):
    q = ctx.quick
    ctx.cov["rule"] = ("cases (observable, process, order) x family member x x x xiF; all members of a case in one process; non-trivial = "
                       "line whose coarse-grid deviation is above 1e-7")
    ctx.cov["trusted_base"] = ["TLC", "eko interpolation", "numpy"]
    ctx.assumptions.append("convergence is a property of analysis; the specification supplies the family, the relations and the verdict; caps "
                           "are >= 5 x the deviations measured on the pinned tree")
    fam = ctx.tlc_emit("Emit_C19", common.cfg_text({}, spec=None))[0]["family"]
    cases = [dict(id="F2_NC_NNLO", name="F2_total", th=dict(PTO=2, PTODIS=2), ob=dict(prDIS="NC")),
             dict(id="F3_CC_NLO", name="F3_total", th=dict(PTO=1, PTODIS=1), ob=dict(prDIS="CC", ProjectileDIS="neutrino")),
             dict(id="FL_EM_NLO", name="FL_total", th=dict(PTO=1, PTODIS=1), ob=dict(prDIS="EM"))]
    if not q:
        cases += [dict(id="g1_NC_NNLO", name="g1_total", th=dict(PTO=2, PTODIS=2), ob=dict(prDIS="NC")),
                  dict(id="F2_FFNS_NLO", name="F2_total", th=dict(PTO=1, PTODIS=1, FNS="FFNS", NfFF=3), ob=dict(prDIS="NC")),
                  dict(id="F2_NC_N3LO", name="F2_light", th=dict(PTO=3, PTODIS=3), ob=dict(prDIS="NC"))]
    res = ctx.pmap(job_run, [(c, fam) for c in cases], chunksize=1)
    res += ctx.pmap(tiny_job, [dict(id="F2_NC_NLO_tiny", name="F2_total", th=dict(PTO=1, PTODIS=1), ob=dict(prDIS="NC")),
                               dict(id="FL_EM_NLO_tiny", name="FL_total", th=dict(PTO=1, PTODIS=1), ob=dict(prDIS="EM"))], chunksize=1)
    lines = [ln for rows in res for ln in rows]
    for ln in lines:
        ln["oid"] = common.oid_of("C19", {k: ln[k] for k in ("what", "case", "x", "xif")})
        ctx.count(1, nontrivial_key=ln["oid"] if max(v for _, v in ln["errs"]) > 100 else None)
    for ln in lines[:: max(1, len(lines) // 3)][:3]:
        ctx.sample({k: v for k, v in ln.items() if k != "oid"})
    bad = ctx.tlc_validate("Trace_C19", "Trace.cfg", [{k: v for k, v in ln.items() if k != "note"} for ln in lines])
    ctx.selftest("Trace_C19", "Trace.cfg", [{k: v for k, v in ln.items() if k not in ('note',)} for ln in lines if ln["oid"] not in bad and (True)], [
        ("errs", lambda l: dict(l, errs=[[e[0], 2 * 10 ** 8] for e in l["errs"]])),
        ("finite", lambda l: dict(l, finite=False))])
    by = {ln["oid"]: ln for ln in lines}
    for oid, clause in bad.items():
        ln = by[oid]
        key = f"{ln['what']}:{ln['case']}:x{ln['x']:.4g}:xiF{ln['xif']}:{clause}"
        ctx.violation(key, f"{ln['case']} at x={ln['x']:.4g}, xiF={ln['xif']}: {clause} [{ln['note']}]", dict(kind="C19", case=ln["case"]))


def replay(ctx, obj):
    print("re-run ./vcheck C19 quick (all family members of a case share one process); case:", obj.get("case"))
    return 1
