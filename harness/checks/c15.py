"""C15 - serialised output round-trips losslessly.

Spec |= P : OutputIO.tla - dump/load as operations on abstract outputs whose loaders change container representations;
            RoundTripIdentity over every shape (SF / XS / None / empty observables, 1-2 points, key lists incl. unsorted
            ones, value classes, list vs ndarray metadata) x every operation sequence up to depth 3 (MC_OutputIO).
Code ~ Spec: every TLC-enumerated (shape, operation sequence) is executed on a real Output with the real dump/load;
            after EVERY cycle the loaded object is compared with the ORIGINAL: kinematics, key order, value and error
            BYTES, grid, metadata, cards, and predictions for a toy PDF at three (xiR, xiF).  Real runner outputs
            (NNLO with scale variations, TMC, cross sections) go through the same sequences.  Trace_C15 takes the verdict.
"""
import copy
import hashlib
import io
import json
import os
import tempfile

import numpy as np

from .. import cards, common

NAMES = ["F2_total", "XSHERANC_total", "FL_light", "F3_charm"]
XS_NAMES = ["F1_total", "XSHERANC_total", "FW_light", "XSFPFCC_charm"]   # (cross-section kinds need not start with "XS")


class ToyPdf:
    def hasFlavor(self, pid):
        return pid != 22

    def xfxQ2(self, pid, x, Q2):
        return x ** 0.5 * (1 - x) ** 3 * (1 + 0.1 * abs(pid) % 7) * (1 + 0.01 * np.log(Q2))


def special(shape, salt):
    base = np.array([0.0, -0.0, 5e-324, 0.1 + 0.2, 1e308, -1e-310, 1.0 / 3.0, -2.5e-7])
    a = np.resize(np.roll(base, salt), shape).astype(float)
    return a


def build(ob):
    """A real Output object for the shape."""
    from yadism.esf.result import ESFResult, EXSResult
    from yadism.output import Output

    n = 5
    out = Output()
    grid = [0.05, 0.1, 0.3, 0.6, 1.0]
    pids = [22, -6, -5, -4, -3, -2, -1, 21, 1, 2, 3, 4, 5, 6]
    nd = ob["rep"] == "ndarray"
    out.update(dict(xgrid=dict(grid=np.array(grid) if nd else list(grid), log=True), polynomial_degree=3, is_log=True))
    out["pids"] = np.array(pids) if nd else tuple(pids)
    out["projectilePID"] = 11
    out.theory = cards.theory(PTO=2, extra_none=None, flag=True, nested=[1, 2.5, "a"])
    obsd = {}
    sf_i = xs_i = 0
    for j, kind in enumerate(ob["kinds"]):
        if kind == "XS":
            name = XS_NAMES[xs_i % len(XS_NAMES)]
            xs_i += 1
        else:
            name = NAMES[sf_i % len(NAMES)] if kind != "SF" else ["F2_total", "F2", "FL_light", "F3_charm"][sf_i % 4]      # (both spellings of one observable are separate entries)
            sf_i += 1
        if name in obsd or name in out:
            name = name.split("_")[0] + "_" + ["total", "light", "charm", "bottom"][(j + 1) % 4]
        if kind == "None":
            out[name] = None
            obsd[name] = []
            continue
        res = []
        for i in range(ob["npts"] if kind != "Empty" else 0):
            x, q2 = 0.1 * (i + 1), 10.0 * (i + 1) + 1 / 3
            nf = (None, 3, 5, 4)[(i + j) % 4]      # (the number of flavours of a point is part of the content: None or an int)
            r = EXSResult(x, q2, 0.4 + 0.1 * i, nf) if kind == "XS" else ESFResult(x, q2, nf)
            for m, key in enumerate(ob["keys"]):
                rng = np.random.default_rng(1000 * j + 10 * i + m)
                if ob["vcls"] == "special":
                    v, e = special((14, n), m + i), special((14, n), m + i + 3)
                else:
                    v, e = rng.normal(size=(14, n)), rng.normal(size=(14, n)) * 1e-9
                if m == 0 and i % 2 == 1 and ob["vcls"] != "special":
                    v, e = np.zeros((14, n)), np.zeros((14, n))        # an order that vanishes identically is still an order
                r.orders[tuple(key)] = (v, e)
            res.append(r)
        out[name] = res
        obsd[name] = [dict(x=r.x, Q2=r.Q2, **({"y": r.y} if kind == "XS" else {})) for r in res]
    out.observables = cards.obs(obsd, xgrid=grid, deg=3)
    return out


def project(out):
    """The content a user can observe (representation-free); arrays as bytes so that -0.0 / subnormals count."""
    from yadism import observable_name as on

    d = dict(grid=[float(v) for v in out["xgrid"]["grid"]], log=bool(out["xgrid"]["log"]), degree=int(out["polynomial_degree"]),
             is_log=bool(out.get("is_log")), pids=[int(p) for p in out["pids"]], projectile=int(out["projectilePID"]),
             theory=out.theory, observables=out.observables, obs={})
    for name in out:
        if not on.ObservableName.is_valid(name):
            continue
        if out[name] is None:
            d["obs"][name] = None
            continue
        rows = []
        for r in out[name]:
            kin = (float(r.x), float(r.Q2), getattr(r, "y", None), r.nf)
            rows.append((kin, [(tuple(int(c) for c in k), np.asarray(v, dtype=float).tobytes(), np.asarray(e, dtype=float).tobytes(),
                                np.asarray(v).shape) for k, (v, e) in r.orders.items()]))
        d["obs"][name] = rows
    return d


def predictions(out):
    res = []
    for xir, xif in ((1.0, 1.0), (2.0, 0.5), (0.5, 2.0)):
        try:
            p = out.apply_pdf_alphas_alphaqed_xir_xif(ToyPdf(), lambda mu: 0.2 / (1 + 0.01 * mu), lambda mu: 1 / 137, xir, xif)
            res.append(sorted((k, [(float(e["result"]), float(e["error"])) for e in v]) for k, v in p.items()))
        except Exception as ex:  # special floats may overflow to nan: still must be identical
            res.append("ERR_" + type(ex).__name__)
    return repr(res)


def run_sequence(out, fmts, with_predictions=True):
    p0 = project(out)
    pr0 = predictions(out) if with_predictions else None
    cur = out
    steps = []
    from yadism.output import Output

    with tempfile.TemporaryDirectory(prefix="c15_") as td:
        for i, fmt in enumerate(fmts):
            st = dict(fmt=fmt, dump="ok", load="ok", same_content=True, same_predictions=True, note="")
            path = os.path.join(td, f"o{i}.tar")
            try:
                if fmt == "tar":
                    cur.dump_tar(path)
                else:
                    text = cur.dump_yaml()
            except Exception as ex:
                st["dump"] = "raise_" + type(ex).__name__
                st["note"] = str(ex)[:160]
                steps.append(st)
                break
            try:
                cur = Output.load_tar(path) if fmt == "tar" else Output.load_yaml(io.StringIO(text))
            except Exception as ex:
                st["load"] = "raise_" + type(ex).__name__
                st["note"] = str(ex)[:160]
                steps.append(st)
                break
            p1 = project(cur)
            if p1 != p0:
                st["same_content"] = False
                diffs = [k for k in p0 if k != "obs" and p0[k] != p1.get(k)]
                for nme in p0["obs"]:
                    if p0["obs"][nme] != p1["obs"].get(nme, "missing"):
                        diffs.append("obs:" + nme)
                st["note"] = "differs in " + ",".join(diffs)
            # (with the special value class - huge, subnormal, signed zeros - sums overflow and depend on the memory layout
            #  numpy chooses, so predictions are compared for ordinary values only; the bytes are compared in any case)
            st["same_predictions"] = (predictions(cur) == pr0) if with_predictions else True
            steps.append(st)
    return steps


# ---------------------------------------------------------------- FileStore.tla: objects, paths written again and again, in-place edits
def fs_canon(v):
    """Value-level canonical form (what == compares): numpy scalars as Python numbers, tuples as lists, bytes as hex."""
    if isinstance(v, dict):
        return {str(k): fs_canon(x) for k, x in sorted(v.items(), key=lambda kv: str(kv[0]))}
    if isinstance(v, (list, tuple)):
        return [fs_canon(x) for x in v]
    if isinstance(v, np.ndarray):
        return fs_canon(v.tolist())
    if isinstance(v, bytes):
        return v.hex()
    if isinstance(v, (bool, np.bool_)):
        return bool(v)
    if isinstance(v, (int, np.integer)):
        return int(v)
    if isinstance(v, (float, np.floating)):
        return float(v).hex()
    return v if v is None or isinstance(v, str) else repr(v)


def fs_digest(out):
    return hashlib.sha1(json.dumps(fs_canon(project(out))).encode()).hexdigest()


def fs_sessions(jobs):
    """Behaviours of FileStore on REAL Output objects, many per process (the path strings repeat from session to session)."""
    cards.silence()
    import shutil
    from yadism.output import Output

    res = []
    base = os.path.join(tempfile.gettempdir(), f"c15fs_{os.getpid()}")
    for sid, events in jobs:
        shutil.rmtree(base, ignore_errors=True)
        os.makedirs(base)
        # the caller's outputs: distinct contents (origin i), version = number of in-place edits (Q2 of the first point doubled)
        objs = [build(dict(rep="list", kinds=["SF", "XS"], npts=1 + i, keys=[[0, 0, 0, 0], [1, 0, 0, 0]], vcls="normal")) for i in range(2)]
        fmt_of = {}
        lines = [dict(sid=sid, ev="Begin")]
        for e in events:
            ln = dict(sid=sid, ev=e[0])
            if e[0] == "dump":
                _ev, h, pth, f = e
                ln.update(h=h, p=pth, f=f, outcome="ok")
                try:
                    (objs[h - 1].dump_tar if f == "tar" else objs[h - 1].dump_yaml_to_file)(os.path.join(base, pth + ".tar"))
                    fmt_of[pth] = f
                except Exception as ex:
                    ln["outcome"] = "raised_" + type(ex).__name__
            elif e[0] == "load":
                pth = e[1]
                ln.update(p=pth, outcome="ok")
                try:
                    fn = Output.load_tar if fmt_of[pth] == "tar" else Output.load_yaml_from_file
                    objs.append(fn(os.path.join(base, pth + ".tar")))
                except Exception as ex:
                    ln["outcome"] = "raised_" + type(ex).__name__
            else:
                h = e[1]
                ln.update(h=h)
                o = objs[h - 1]
                first = min(n for n in o if isinstance(o[n], list) and o[n] and hasattr(o[n][0], "Q2"))   # (a name, not a position: loaders may reorder entries)
                o[first][0].Q2 = float(o[first][0].Q2) * 2.0
            ln["digests"] = [fs_digest(o) for o in objs]
            lines.append(ln)
        res.append(lines)
    shutil.rmtree(base, ignore_errors=True)
    return res


def fs_cfg(mode="fresh", **kw):
    c = dict(NOuts=2, Paths={"p1", "p2"}, Fmts={"tar", "yaml"}, MaxEvents=5, MaxLoads=2, LoadMode=mode)
    c.update(kw)
    return c


def fs_validate(ctx, sessions, name):
    import re
    dig = {}
    rows = []
    for s_ in sessions:
        for e in s_:
            e = dict(e)
            if "digests" in e:
                e["digests"] = [dig.setdefault(d, len(dig) + 1) for d in e["digests"]]
            rows.append(e)
    rows.append(dict(ev="EOF", sid=-2))
    tf = ctx.dir / f"{name}.trace.ndjson"
    common.write_ndjson(tf, rows)
    r = common.run_tlc("Trace_FileStore", common.cfg_text(fs_cfg(MaxEvents=64, MaxLoads=64), invariants=["LoadIsCurrent"], spec="TraceSpec"),
                       workdir=ctx.dir / f"tlc_{name}", env=dict(TRACE_FILE=tf), workers=1)
    if not r["ok"]:
        raise common.MachineryError(f"Trace_FileStore did not complete: {r['out'][-1500:]}")
    m = re.search(r'<<\s*"CONSUMED",\s*(\d+)\s*>>', r["out"])
    if not m or int(m.group(1)) != len(rows) - 1:
        raise common.MachineryError(f"Trace_FileStore consumed {m.group(1) if m else '?'} of {len(rows) - 1} lines")
    bad = {}
    for m in re.finditer(r'<<\s*"VERDICT",\s*"(-?\d+)",\s*"([^"]+)"\s*>>', r["out"]):
        bad.setdefault(int(m.group(1)), m.group(2))
    ctx.cov["tlc_runs"].append(dict(module="Trace_FileStore", cfg=name, states=r["distinct"], wall_s=round(r["wall"], 1), role="validate",
                                    lines=len(rows), rejected=len(bad)))
    return bad


def fs_run(ctx):
    q = ctx.quick
    ctx.tlc_check("FileStore", common.cfg_text(fs_cfg(MaxEvents=5 if q else 6), invariants=["LoadIsCurrent"], properties=["Independent"]),
                  coverage=False, min_states=10000, min_depth=5)
    r = common.run_tlc("FileStore", common.cfg_text(fs_cfg("memo_by_path"), invariants=["LoadIsCurrent"]), workdir=ctx.dir / "tlc_fs_memo")
    if r["ok"] or r["invariant_violated"] != "LoadIsCurrent":
        raise common.MachineryError("FileStore model lost its sensitivity: a loader memoised on the path must violate LoadIsCurrent")
    ctx.cov["filestore_negative_control"] = "LoadMode=memo_by_path violates LoadIsCurrent (TLC counterexample found)"
    beh = []
    for c in ([dict(MaxEvents=4, Paths={"p1"})] if q else [dict(MaxEvents=4, Paths={"p1"}), dict(MaxEvents=5, Paths={"p1", "p2"}, Fmts={"tar"}), dict(MaxEvents=5, Paths={"p1"}, Fmts={"yaml"})]):
        beh += ctx.tlc_emit("Emit_FileStore", common.cfg_text(fs_cfg(**c), invariants=["Collect"], postcondition="Written"), workers=1)
    sessions = list(enumerate(beh))
    nproc = 8
    res = ctx.pmap(fs_sessions, [sessions[i::nproc] for i in range(nproc)])
    recorded = sorted((s_ for part in res for s_ in part), key=lambda s_: s_[0]["sid"])
    ctx.cov["filestore_behaviours"] = len(recorded)
    for s_ in recorded:
        ctx.count(1, nontrivial_key=("fs", s_[0]["sid"]))
    bad = fs_validate(ctx, recorded, "filestore")
    ctx.cov["traces_validated_against_impl"] += len(recorded)
    for sid, clause in sorted(bad.items()):
        ctx.violation(f"filestore:{common.oid_of('C15', dict(events=beh[sid]))}:{clause}", f"{clause} in the recorded history {json.dumps(beh[sid])}",
                      dict(kind="C15-filestore", events=beh[sid], clause=clause))
    good = [s_ for s_ in recorded if s_[0]["sid"] not in bad and len(s_) >= 4][:2]
    cor, names = [], {}
    for k, nm in enumerate(("loaded_digest", "outcome", "object_count")):
        for s_ in good:
            c = copy.deepcopy(s_)
            for e in c:
                e["sid"] += 10 ** 5 * (k + 1)
            lastl = [e for e in c if e["ev"] == "load"][-1]
            if nm == "loaded_digest":
                lastl["digests"][-1] = "corrupted"
            elif nm == "outcome":
                lastl["outcome"] = "raised_Corrupted"
            else:
                lastl["digests"] = lastl["digests"][:-1]
            names[c[0]["sid"]] = nm
            cor.append(c)
    badc = fs_validate(ctx, recorded[:20] + cor, "selftest_filestore")
    ctx.cov["tlc_runs"] = [r_ for r_ in ctx.cov["tlc_runs"] if r_.get("cfg") != "selftest_filestore"]
    st = ctx.cov.setdefault("binding_selftest", {}).setdefault("Trace_FileStore", dict(corrupted_lines=len(cor), rejected=0, fields=sorted(set(names.values()))))
    st["rejected"] = len([s_ for s_ in names if s_ in badc])
    missed = sorted({nm for sid, nm in names.items() if sid not in badc})
    if missed:
        raise common.MachineryError(f"binding self-test: Trace_FileStore accepted histories corrupted in {missed}")


def execute(ob):
    cards.silence()
    out = build(ob)
    steps = run_sequence(out, ob["fmts"], with_predictions=ob["vcls"] != "special")
    return dict(oid=ob["oid"], kinds=ob["kinds"], npts=ob["npts"], keys=ob["keys"], vcls=ob["vcls"], rep=ob["rep"],
                fmts=ob["fmts"], steps=[{k: v for k, v in s.items() if k != "note"} for s in steps],
                note="; ".join(f"{s['fmt']}:{s['dump']}/{s['load']} {s['note']}" for s in steps if s["note"]))


def real_outputs(job):
    """Real runner outputs through every operation sequence of depth <= 2 (3 for tar/yaml mixes)."""
    name, th_kw, ob_kw, obsd = job
    out = cards.run(cards.theory(**th_kw), cards.obs(obsd, xgrid=cards.make_grid(4, 4, x_min=1e-2), deg=3, **ob_kw))
    res = []
    for fmts in (["tar"], ["yaml"], ["tar", "tar"], ["yaml", "yaml"], ["tar", "yaml"], ["yaml", "tar"], ["yaml", "tar", "yaml"]):
        steps = run_sequence(copy.deepcopy(out), fmts)
        ok = len(steps) == len(fmts) and all(s["dump"] == "ok" and s["load"] == "ok" and s["same_content"] and s["same_predictions"]
                                             for s in steps)
        res.append(dict(name=name, fmts=fmts, ok=ok, note="; ".join(f"{s['fmt']}:{s['dump']}/{s['load']} {s['note']}" for s in steps)))
    return res


def run(ctx):
    q = ctx.quick
    ctx.cov["rule"] = ("(shape, operation sequence) pairs enumerated by TLC: observable mixes of SF/XS/None/empty entries x points x "
                       "key lists x value classes x metadata representation x dump/load sequences; non-trivial = sequence of depth "
                       ">= 2 or an output with a None/empty/XS entry")
    ctx.cov["trusted_base"] = ["TLC", "numpy tobytes (bitwise comparison)", "python == on cards"]
    ctx.tlc_check("MC_OutputIO", common.cfg_text(dict(MaxDepth=3 if q else 4, MaxObs=2), invariants=["Inv_RoundTrip", "Inv_Cycles"]),
                  coverage=True, must_cover=("Next",), min_states=1000)
    obls = ctx.tlc_emit("Emit_C15", common.cfg_text(dict(MaxDepth=2 if q else 3, MaxObs=2), spec=None))
    if q:   # plus the depth-3 sequences on the two-entry shapes that contain an empty or None entry
        deep = ctx.tlc_emit("Emit_C15", common.cfg_text(dict(MaxDepth=3, MaxObs=1), spec=None))
        obls += [o for o in deep if len(o["fmts"]) == 3]
    seen = set()
    todo = []
    for o in obls:
        o["oid"] = common.oid_of("C15", {k: o[k] for k in ("kinds", "npts", "keys", "vcls", "rep", "fmts")})
        if o["oid"] not in seen:
            seen.add(o["oid"])
            todo.append(o)
    lines = ctx.pmap(execute, todo, chunksize=16)
    for ln in lines:
        nt = len(ln["fmts"]) >= 2 or any(k != "SF" for k in ln["kinds"])
        ctx.count(1, nontrivial_key=ln["oid"] if nt else None)
    for ln in lines[:: max(1, len(lines) // 3)][:3]:
        ctx.sample({k: ln[k] for k in ("kinds", "npts", "keys", "vcls", "rep", "fmts", "steps")})
    bad = ctx.tlc_validate_sharded("Trace_C15", "Trace.cfg", [{k: v for k, v in ln.items() if k != "note"} for ln in lines])
    by = {ln["oid"]: ln for ln in lines}
    good = [{k: v for k, v in ln.items() if k != "note"} for ln in lines if ln["oid"] not in bad and len(ln["fmts"]) >= 2]
    ctx.selftest("Trace_C15", "Trace.cfg", good, [
        ("content", lambda l: dict(l, steps=[dict(l["steps"][0], same_content=False)] + l["steps"][1:])),
        ("truncated", lambda l: dict(l, steps=l["steps"][:-1])),
        ("load", lambda l: dict(l, steps=l["steps"][:-1] + [dict(l["steps"][-1], load="raise_IndexError")]))])
    for oid, clause in bad.items():
        ln = by[oid]
        key = f"synthetic:{'+'.join(ln['kinds'])}:n{ln['npts']}:k{len(ln['keys'])}:{ln['vcls']}:{ln['rep']}:{'>'.join(ln['fmts'])}:{clause}"
        ctx.violation(key, f"output with entries {ln['kinds']} ({ln['rep']} metadata, {ln['vcls']} values), sequence {ln['fmts']}: "
                      f"{clause} [{ln['note']}]", dict(kind="C15", obligation={k: ln[k] for k in ("oid", "kinds", "npts", "keys", "vcls", "rep", "fmts")}))
    # real runner outputs
    jobs = [("nnlo_sv", dict(PTO=2, PTODIS=2), dict(prDIS="NC"), {"F2_total": [dict(x=0.1, Q2=20.0), dict(x=0.3, Q2=5.0)],
                                                                    "F2": [dict(x=0.2, Q2=20.0)], "F2_charm": [dict(x=0.2, Q2=3.0), dict(x=0.2, Q2=20.0)]}),
            ("tmc_xs", dict(PTO=1, PTODIS=1, TMC=1), dict(prDIS="NC", ProjectileDIS="positron"),
             {"XSHERANC_total": [dict(x=0.2, Q2=10.0, y=0.5)], "FL_light": [dict(x=0.2, Q2=10.0)], "F3_charm": [],
              "F1_total": [dict(x=0.2, Q2=10.0, y=0.3), dict(x=0.2, Q2=10.0, y=0.6)]})]
    if not q:
        jobs.append(("cc_nnlo", dict(PTO=2, PTODIS=2, FNS="FFNS", NfFF=3), dict(prDIS="CC", ProjectileDIS="neutrino"),
                     {"F3_total": [dict(x=0.1, Q2=20.0)], "XSCHORUSCC_total": [dict(x=0.1, Q2=20.0, y=0.3)]}))
    for rows in ctx.pmap(real_outputs, jobs):
        for r in rows:
            ctx.count(1, nontrivial_key=("real", r["name"], tuple(r["fmts"])))
            if not r["ok"]:
                ctx.violation(f"runner:{r['name']}:{'>'.join(r['fmts'])}", f"real runner output {r['name']} through {r['fmts']}: {r['note']}",
                              dict(kind="C15-real", name=r["name"]))
    # objects, paths that are written again and again, in-place edits of loaded objects (FileStore.tla)
    fs_run(ctx)


def replay(ctx, obj):
    if obj.get("kind") == "C15-filestore":
        rec = fs_sessions([(0, obj["events"])])
        bad = fs_validate(ctx, rec, "replay_filestore")
        print("history:", obj["events"], "verdicts:", bad or "ok")
        return 1 if bad else 0
    if obj["kind"] == "C15":
        ln = execute(obj["obligation"])
        bad = ctx.tlc_validate("Trace_C15", "Trace.cfg", [{k: v for k, v in ln.items() if k != "note"}])
        print(ln["steps"], ln["note"], "verdict:", bad.get(ln["oid"], "ok"))
        return 1 if bad else 0
    print("re-run ./vcheck C15 quick for the real-output sequences")
    return 1
