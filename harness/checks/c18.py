"""C18 - compiled numerical kernels agree with their Python semantics.

Spec |= P : Registry.tla enumerates the call sites (kind, process, class, order); Trace_C18 states ArityCovered
            (max index read < length of the argument vector passed) and the differential contract.
Code ~ Spec (translation validation by differential execution): every njit dispatcher discovered by import is compared
            with its interpreted function (py_func) on arguments of its own signature; every production call site
            (real assembly, real argument vectors) is checked for arity (AST of the kernel vs the vector passed; the
            interpreter raises where compiled code would read out of bounds) and value; full runs with compilation on and
            off are compared end to end.
"""
import ast
import inspect
import json
import math
import os
import subprocess
import sys
import textwrap

import numpy as np

from .. import common, rsl as rslmod

# both end regions on ladders (series expansions / fast paths switch on at 1e-2 .. 5e-2 from an end point), dense in the bulk
ZS = (1e-6, 1e-4, 1e-3, 0.01, 0.03, 0.049, 0.051, 0.1, 0.2, 0.35, 0.5, 0.65, 0.77, 0.9, 0.949, 0.951, 0.97, 0.99, 1 - 1e-3, 1 - 1e-4, 1 - 1e-6)
TOL = 1e-11


def discover():
    """every numba dispatcher defined in the package, by import"""
    import importlib
    import pkgutil

    import numba
    import yadism

    found = {}
    for m in pkgutil.walk_packages(yadism.__path__, "yadism."):
        try:
            mod = importlib.import_module(m.name)
        except Exception:
            continue
        for n, o in vars(mod).items():
            if isinstance(o, numba.core.dispatcher.Dispatcher) and getattr(o.py_func, "__module__", "") == mod.__name__:
                found[f"{mod.__name__}.{n}"] = o
    return found


def max_index_read(disp, _seen=None):
    """largest constant index the kernel reads from its SECOND parameter (the argument vector), including what the kernels it
    hands that vector on to read (transitively, through the module globals)"""
    import numba

    _seen = _seen or set()
    if id(disp) in _seen:
        return -1
    _seen.add(id(disp))
    try:
        src = textwrap.dedent(inspect.getsource(disp.py_func))
        fn = ast.parse(src).body[0]
        if len(fn.args.args) < 2:
            return -1
        name = fn.args.args[1].arg
        mx = -1
        for node in ast.walk(fn):
            if isinstance(node, ast.Subscript) and isinstance(node.value, ast.Name) and node.value.id == name:
                s = node.slice
                if isinstance(s, ast.Constant) and isinstance(s.value, int):
                    mx = max(mx, s.value)
            if isinstance(node, ast.Call) and len(node.args) >= 2 and isinstance(node.args[1], ast.Name) and node.args[1].id == name:
                callee = None
                if isinstance(node.func, ast.Name):
                    callee = disp.py_func.__globals__.get(node.func.id)
                elif isinstance(node.func, ast.Attribute):
                    obj, path = node.func, []
                    while isinstance(obj, ast.Attribute):
                        path.append(obj.attr)
                        obj = obj.value
                    if isinstance(obj, ast.Name):
                        callee = disp.py_func.__globals__.get(obj.id)
                        for a in reversed(path):
                            callee = getattr(callee, a, None)
                if isinstance(callee, numba.core.dispatcher.Dispatcher):
                    mx = max(mx, max_index_read(callee, _seen))
        return mx
    except Exception:
        return -1


def rel(a, b):
    a, b = complex(a), complex(b)
    if a == b:
        return 0.0
    if not (math.isfinite(a.real) and math.isfinite(b.real)):
        return 0.0 if (math.isnan(a.real) and math.isnan(b.real)) else float("inf")
    return abs(a - b) / max(abs(a), abs(b), 1e-300)


def compare(disp, arglists):
    worst, raised, note = 0.0, False, ""
    for args in arglists:
        try:
            ref = disp.py_func(*args)
        except IndexError as ex:
            return float("inf"), True, f"interpreter: IndexError on args {args!r}"[:200]
        except Exception as ex:
            raised, note = True, f"interpreter: {type(ex).__name__} on {args!r}"[:200]
            continue
        got = disp(*args)
        d = rel(got, ref)
        # in units of TOL + the conditioning of (1 - z) and log z in double precision next to an end point: compiled and interpreted
        # code may associate a cancelling sum differently (measured 1.1e-11 at z = 1 - 1e-6), a different function they may not compute
        z = next((float(a) for a in args if isinstance(a, float) and 0.0 < a < 1.0), None)
        if z is not None:
            d = d * TOL / (TOL + 2e-15 / min(z, 1.0 - z))
        if d > worst:
            worst, note = d, f"args {args!r}: compiled {got!r}, interpreted {ref!r}"[:240]
    return worst, raised, note


def kernels_job(_):
    import numba

    lines = []
    for name, d in sorted(discover().items()):
        sigs = d.nopython_signatures
        mx = max_index_read(d)
        if not sigs:
            lines.append(dict(what="kernel", name=name, sig="none", interp_raised=False, dev_milli=0, note="no compiled signature"))
            continue
        a = sigs[0].args
        ts = [str(t) for t in a]
        if len(ts) == 2 and ts[1].startswith("array(float64, 1d"):
            # (z, args): driven with a FLOAT z whatever the compiled signature says - every call site passes one, and a signature
            # that coerces it is exactly what the interpreted function does not do
            vec = np.array([4.0, 2.5, 3.0, 0.7, 1.3, 0.2][: max(mx + 1, 1)] + [0.0] * max(0, mx - 5))
            arglists = [(z, vec) for z in ZS]
        elif ts == ["float64"]:
            arglists = [(z,) for z in ZS]
        elif ts == ["int64", "int64", "float64"]:
            arglists = [(n, m, x) for n in (1, 2, 3) for m in (1, 2, 3)
                        for x in (-0.99, -0.9, -0.51, -0.49, -0.3, -0.051, -0.049, -0.01, -1e-4, 0.0, 1e-4, 0.01, 0.049, 0.051, 0.2, 0.3, 0.49, 0.51, 0.8,
                                  0.95, 0.999) if n + m <= 5]
        elif all(t == "float64" for t in ts):
            arglists = [tuple(0.1 + 0.13 * (i + 1) * z for i in range(len(ts))) for z in ZS]
        else:
            lines.append(dict(what="kernel", name=name, sig=",".join(ts), interp_raised=False, dev_milli=0, note="signature not driven"))
            continue
        w, raised, note = compare(d, arglists)
        lines.append(dict(what="kernel", name=name, sig=",".join(ts), interp_raised=raised, dev_milli=common.milli(w, TOL), note=note))
    return lines


def sites_job(cell):
    import numba

    lines = []
    try:
        items, _r, _e = rslmod.collect(cell)
    except Exception as ex:
        return [dict(what="cell_error", note=f"{cell['kind']} {cell['proc']} {cell['fns']}: {type(ex).__name__}")]
    for key, order, nf, r, _k in items:
        for part in ("reg", "sing", "loc"):
            f = getattr(r, part)
            if not isinstance(f, numba.core.dispatcher.Dispatcher):
                continue
            vec = r.args[part]
            mx = max_index_read(f)
            w, raised, note = compare(f, [(z, vec) for z in ZS])
            lines.append(dict(what="site", kind=key[0], pc=key[1], cls=key[2], order=order, part=part, nf=nf, fns=cell["fns"],
                              kernel=f"{f.py_func.__module__}.{f.py_func.__name__}", maxidx=mx, nargs=int(len(vec)), interp_raised=raised,
                              dev_milli=common.milli(w, TOL) if math.isfinite(w) else 2**30, note=note))
    return lines


RUN_CODE = r'''
import json, sys, warnings
warnings.filterwarnings("ignore")
sys.path.insert(0, "/verif")
from harness import cards
import numpy as np
job = json.loads(sys.argv[1])
out = cards.run(cards.theory(**job["th"]), cards.obs(job["obs"], xgrid=cards.make_grid(3, 4, x_min=1e-2), deg=2, **job["ob"]))
res = {n: [{repr(k): np.asarray(v[0]).tolist() for k, v in r.orders.items()} for r in out[n]] for n in job["obs"]}
print("RESULT" + json.dumps(res))
'''


CLOSURE_CODE = r'''
import json, sys, warnings, math
warnings.filterwarnings("ignore")
sys.path.insert(0, "/verif")
from harness import rsl as rslmod
import numba
cells, ZS = json.loads(sys.argv[1]), json.loads(sys.argv[2])
out = {}
for cell in cells:
    try:
        items, _r, _e = rslmod.collect(cell)
    except Exception as ex:
        continue
    for key, order, nf, r, _k in items:
        for part in ("reg", "sing", "loc"):
            f = getattr(r, part)
            if f is None or isinstance(f, numba.core.dispatcher.Dispatcher):
                continue
            vals = []
            for z in ZS:
                try:
                    v = float(f(z, r.args[part]))
                    vals.append(v if math.isfinite(v) else repr(v))
                except Exception as ex:
                    vals.append("raised:" + type(ex).__name__)
            out["|".join([key[0], key[1], key[2], str(order), part, str(nf), cell["fns"]])] = vals
print("RESULT" + json.dumps(out))
'''
CZS = (1e-4, 0.03, 0.2, 0.5, 0.77, 0.949, 1 - 1e-4)


def closures_job(cells):
    """Parts of registry elements that are Python functions calling compiled kernels: values with compilation on vs off."""
    outs = {}
    for mode in ("jit", "nojit"):
        env = dict(os.environ)
        if mode == "nojit":
            env["NUMBA_DISABLE_JIT"] = "1"
        p = subprocess.run([sys.executable, "-c", CLOSURE_CODE, json.dumps(cells), json.dumps(CZS)], env=env, capture_output=True, text=True, timeout=3000)
        line = [l for l in p.stdout.splitlines() if l.startswith("RESULT")]
        if p.returncode != 0 or not line:
            raise common.MachineryError(f"closure driver failed ({mode}): " + (p.stderr.strip().splitlines() or ["?"])[-1][:200])
        outs[mode] = json.loads(line[0][6:])
    lines = []
    for k, jv in outs["jit"].items():
        nv = outs["nojit"].get(k)
        kind, pc, cls, order, part, nf, fns = k.split("|")
        ln = dict(what="closure", kind=kind, pc=pc, cls=cls, order=int(order), part=part, nf=int(nf), fns=fns, outcome="OK", dev_milli=0, note="")
        if nv is None:
            ln["outcome"] = "part_absent_without_compilation"
        else:
            worst = 0.0
            scale = max([abs(v) for v in jv + nv if not isinstance(v, str)] or [0.0])
            for z, a, b in zip(CZS, jv, nv):
                if isinstance(a, str) or isinstance(b, str):
                    if a != b:
                        ln["outcome"] = f"at_z_{z}_compiled_{a}_interpreted_{b}".replace(":", "_").replace(".", "p")
                        ln["note"] = f"z={z}: compiled {a}, interpreted {b}"
                        break
                    continue
                # in units of the tolerance: relative 1e-9 (with the conditioning of (1 - z) in double precision, as for the kernels),
                # plus 1e-11 of the largest value of the part on the lattice and 1e-13 absolute (sums of O(1) terms cancelling to ~0)
                tol = 1e-9 * max(abs(a), abs(b)) * (1.0 + 1e-11 / max(1.0 - z, 1e-16)) + 1e-11 * scale + 1e-13
                d = abs(a - b) / tol
                if d > worst:
                    worst, ln["note"] = d, f"z={z}: compiled {a!r}, interpreted {b!r}"
            ln["dev_milli"] = common.milli(worst, 1.0)
        lines.append(ln)
    return lines


def run_job(job):
    outs = {}
    for mode in ("jit", "nojit"):
        env = dict(os.environ)
        if mode == "nojit":
            env["NUMBA_DISABLE_JIT"] = "1"
        p = subprocess.run([sys.executable, "-c", RUN_CODE, json.dumps(job)], env=env, capture_output=True, text=True, timeout=3000)
        line = [l for l in p.stdout.splitlines() if l.startswith("RESULT")]
        if p.returncode != 0 or not line:
            err = (p.stderr.strip().splitlines() or ["?"])[-1][:160]
            return dict(what="run", name=job["name"], outcome=f"{mode}_failed", dev_milli=0, note=err)
        outs[mode] = json.loads(line[0][6:])
    worst, note = 0.0, ""
    for n in outs["jit"]:
        for a, b in zip(outs["jit"][n], outs["nojit"][n]):
            for k in a:
                x, y = np.array(a[k]), np.array(b[k])
                s = max(float(np.abs(x).max()), float(np.abs(y).max()), 1e-300)
                d = float(np.abs(x - y).max()) / s
                if not (d <= worst):
                    worst, note = (d if d == d else float("inf")), f"{n} key {k}: max relative difference {d:.3e}"
    return dict(what="run", name=job["name"], outcome="OK", dev_milli=common.milli(worst, 1e-7), note=note)


def run(ctx):
    q = ctx.quick
    ctx.cov["trusted_base"] = ["TLC", "numba py_func (the interpreted semantics)", "python ast (arity of constant indices)"]
    reg = ctx.tlc_emit("Emit_Registry", common.cfg_text({}, spec=None))
    cells = rslmod.coverage_cells(q)
    res = ctx.pmap(kernels_job, [0]) + ctx.pmap(sites_job, cells)
    jobs = [dict(name="F2_NC_NLO", th=dict(PTO=1, PTODIS=1), ob=dict(prDIS="NC"), obs={"F2_total": [dict(x=0.1, Q2=10.0)]}),
            dict(name="g1_FFN0_NNLO", th=dict(PTO=1, PTODIS=2, FNS="FFN0", NfFF=3, mc=2.0, mb=5.0, mt=12.0), ob=dict(prDIS="NC"),
                 obs={"g1_total": [dict(x=0.1, Q2=40.0)]})]
    if not q:
        # the whole N3LO light sector, interpreted (slow): every argument vector is bounds-checked by the interpreter
        jobs += [dict(name="FL_CC_N3LO", th=dict(PTO=3, PTODIS=3), ob=dict(prDIS="CC", ProjectileDIS="neutrino"), obs={"FL_total": [dict(x=0.2, Q2=20.0)]}),dict(name="F3_CC_NNLO", th=dict(PTO=2, PTODIS=2), ob=dict(prDIS="CC", ProjectileDIS="neutrino"), obs={"F3_total": [dict(x=0.2, Q2=20.0)]}),
                 dict(name="FL_FFNS_TMC", th=dict(PTO=1, PTODIS=1, FNS="FFNS", NfFF=3, TMC=1, mc=2.0, mb=5.0, mt=12.0), ob=dict(prDIS="NC"),
                      obs={"FL_total": [dict(x=0.2, Q2=30.0)]})]
    res += [[r] for r in ctx.pmap(run_job, jobs)]
    nchunk = 8
    res += ctx.pmap(closures_job, [cells[i::nchunk] for i in range(nchunk)])
    lines = []
    for rows in res:
        for ln in rows:
            if ln["what"] == "cell_error":
                ctx.cov.setdefault("cells_not_served", []).append(ln["note"])
                continue
            ln["oid"] = common.oid_of("C18", {k: ln.get(k) for k in ("what", "name", "kind", "pc", "cls", "order", "part", "nf", "fns", "kernel")})
            lines.append(ln)
    uniq = {ln["oid"]: ln for ln in lines}
    lines = list(uniq.values())
    kern = [ln for ln in lines if ln["what"] == "kernel"]
    sites = [ln for ln in lines if ln["what"] == "site"]
    ctx.cov["programs"] = len(kern)
    ctx.cov["call_sites"] = len(sites)
    ctx.cov["kernels_reached_through_call_sites"] = len({ln["kernel"] for ln in sites})
    ctx.cov["kernels_with_signature_not_driven"] = [ln["name"] for ln in kern if ln["note"] in ("signature not driven", "no compiled signature")]
    ctx.cov["disagreements_checked"] = len(lines)
    ctx.cov["evaluations"] = len(lines)
    ctx.cov["distinct_nontrivial"] = len(lines)
    ctx.cov["rule"] = ("one line per discovered dispatcher (own-signature arguments), per production call site (registry element x part, "
                       "real argument vector) and per end-to-end run pair")
    for ln in kern[:2] + sites[:2] + [ln for ln in lines if ln["what"] == "run"][:1]:
        ctx.sample({k: v for k, v in ln.items() if k != "oid"})
    if len(kern) < 100:
        raise common.MachineryError(f"discovery found only {len(kern)} dispatchers")
    bad = ctx.tlc_validate_sharded("Trace_C18", "Trace.cfg", [{k: v for k, v in ln.items() if k != "note"} for ln in lines])
    ctx.selftest("Trace_C18", "Trace.cfg", [{k: v for k, v in ln.items() if k not in ('note',)} for ln in lines if ln["oid"] not in bad and (True)], [
        ("dev", lambda l: dict(l, dev_milli=4000)),
        ("raised", lambda l: dict(l, interp_raised=True) if l["what"] in ("site", "kernel") else None),
        ("element", lambda l: dict(l, order=8) if l["what"] == "site" else None),
        ("arity", lambda l: dict(l, maxidx=l["nargs"]) if l["what"] == "site" else None),
        ("outcome", lambda l: dict(l, outcome="Crash_TypingError") if l["what"] in ("run", "closure") else None)])
    for oid, clause in bad.items():
        ln = uniq[oid]
        if ln["what"] == "site":
            key = f"site:{ln['kind']}_{ln['pc']}:{ln['cls']}:order{ln['order']}:{ln['part']}:{clause}"
            what = f"{ln['cls']} ({ln['kind']}_{ln['pc']}) order {ln['order']} {ln['part']} -> {ln['kernel']} (reads up to index {ln['maxidx']}, gets {ln['nargs']} values): {clause} {ln['note']}"
        elif ln["what"] == "closure":
            key = f"closure:{ln['kind']}_{ln['pc']}:{ln['cls']}:order{ln['order']}:{ln['part']}:{clause[:60]}"
            what = f"{ln['cls']} ({ln['kind']}_{ln['pc']}) order {ln['order']} {ln['part']} (python part calling compiled kernels): {clause} {ln['note']}"
        elif ln["what"] == "kernel":
            key, what = f"kernel:{ln['name']}:{clause}", f"{ln['name']} [{ln['sig']}]: {clause} {ln['note']}"
        else:
            key, what = f"run:{ln['name']}:{clause}", f"end-to-end {ln['name']}: {clause} {ln['note']}"
        ctx.violation(key, what, dict(kind="C18", line={k: v for k, v in ln.items() if k not in ("oid",)}))


def replay(ctx, obj):
    print("re-run ./vcheck C18 quick; offending line:", obj.get("line"))
    return 1
