"""C11 - cross sections are the documented combinations of structure functions.

Spec |= P : XS.tla - (a, b, c) per kind as exact rational functions of (x, y, Q2, M, MW2) times named atoms (pi, G_F,
            unit conversions), transcribed from docs/source/theory/intro.rst; the F3 sign rule, HERA CC = y+/4 HERA NC and
            the equivalence with the documented N(F2 - yL/y+ FL +- y-/y+ xF3) form are checked by TLC on the rational
            lattice (which contains a point where the CHORUS/NuTeV y+ is negative).
Code ~ Spec: real runs that request each cross-section kind together with F2, FL, F3 (g4, gL for 2xg5) of the same
            heavyness; XS - (a F2 + b FL + c xF3) must vanish entry-wise for every order key, with and without TMC,
            for all projectiles (Trace_C11 recomputes the coefficients).
"""
import math

import numpy as np

from .. import cards, common

GEV_CM2 = 3.893793e10    # GeV^-2 -> 1e-38 cm^2 (the documented unit conversion)
GF = 1.1663787e-05
ATOMS = {"one": 1.0, "GF2_CM2/pi": GF**2 * GEV_CM2 / math.pi, "GF2_PB/pi": GF**2 * (GEV_CM2 / 100.0) / math.pi}
NC_KINDS = {"XSHERANC", "XSHERANCAVG", "F1", "g5"}


class Toy:
    def hasFlavor(self, pid):
        return pid != 22

    def xfxQ2(self, pid, x, Q2):
        w = {21: 3.0, 1: 1.0, 2: 2.0, -1: 0.4, -2: 0.3, 3: 0.25, -3: 0.2, 4: 0.1, -4: 0.08}.get(pid, 0.02)
        return w * x**0.5 * (1 - x) ** 3 * (1 + 0.05 * math.log(Q2 / 20.0))


def execute(ob):
    pt = ob["pt"]
    x, y, q2 = (float(common.frac(pt[k])) for k in ("x", "y", "Q2"))
    M, mw2 = float(common.frac(pt["M"])), float(common.frac(pt["MW2"]))
    flav, tmc, fns = ob["flav"], ob["tmc"], ob["fns"]
    proc = "NC" if ob["kind"] in NC_KINDS else "CC"
    names = [f"{b}_{flav}" for b in ob["basis"]]
    xs = f"{ob['kind']}_{flav}"
    line = dict(oid=ob["oid"], kind=ob["kind"], proj=ob["proj"], pt=pt, coeffs=ob["coeffs"], coeffs2=ob["coeffs2"], atom=ob["atom"], outcome="OK",
                keyset_ok=True, nkeys=0, resid_milli=0, resid2_milli=0, pred_milli=0, kinematics_ok=True, note="", doc_resid_milli=0)
    th = cards.theory(PTO=ob.get("pto", 1), PTODIS=ob.get("pto", 1), FNS=fns, NfFF=3, mc=1.4, mb=4.5, mt=170.0, MP=M, MW=math.sqrt(mw2), GF=GF, TMC=tmc, Q0=1.0)
    kin = dict(x=x, Q2=q2, y=y)
    obsd = {xs: [dict(kin), dict(kin, y=y / 2)]}      # two inelasticities at one (x, Q2) in one card
    coeffs = [float(common.frac(c)) * ATOMS[ob["atom"]] for c in ob["coeffs"]]
    dcoeffs = [float(common.frac(c)) * ATOMS[ob["atom"]] for c in ob["doc_coeffs"]]
    need = [n for n, c in zip(names, coeffs) if c != 0.0]
    for n in need:
        obsd[n] = [dict(x=x, Q2=q2)]
    ob_ = cards.obs(obsd, xgrid=cards.make_grid(4, 5, x_min=1e-2), deg=3, prDIS=proc, ProjectileDIS=cards.PROJ_NAME[ob["proj"]],
                    PolarizationDIS=0.3 if proc == "NC" else 0.0)
    try:
        out = cards.run(th, ob_)
    except Exception as ex:
        line["outcome"] = ("Reject_" if isinstance(ex, (ValueError, NotImplementedError, ImportError)) else "Crash_") + type(ex).__name__
        line["note"] = str(ex)[:200]
        return line
    r = out[xs][0]
    r2 = out[xs][1]
    coeffs2 = [float(common.frac(c)) * ATOMS[ob["atom"]] for c in ob["coeffs2"]]
    line["kinematics_ok"] = (r.x == x and r.Q2 == q2 and r.y == y and r2.x == x and r2.Q2 == q2 and r2.y == y / 2)
    keys = set(r.orders)
    for n in need:
        if set(out[n][0].orders) != keys:
            line["keyset_ok"] = False
            return line
    line["nkeys"] = len(keys)
    worst = wdoc = 0
    for k in keys:
        comb = sum(c * out[n][0].orders[k][0] for n, c in zip(names, coeffs) if c != 0.0)
        dcomb = sum(c * out[n][0].orders[k][0] for n, c in zip(names, dcoeffs) if c != 0.0)
        scale = max(float(np.abs(r.orders[k][0]).max()), max(abs(c) * float(np.abs(out[n][0].orders[k][0]).max())
                                                              for n, c in zip(names, coeffs) if c != 0.0))
        res = float(np.abs(r.orders[k][0] - comb).max())
        mm = common.milli(res, 1e-12 * scale) if scale > 0 else (0 if res == 0 else 2**30)
        if mm > worst:
            worst, line["note"] = mm, f"key {k}: resid {res:.3e} scale {scale:.3e}"
        dres = float(np.abs(r.orders[k][0] - dcomb).max())
        wdoc = max(wdoc, common.milli(dres, 1e-12 * scale) if scale > 0 else 0)
    line["resid_milli"], line["doc_resid_milli"] = worst, wdoc
    w2 = 0
    if set(r2.orders) != keys:
        line["keyset_ok"] = False
        return line
    for k in keys:
        terms = [(n, c) for n, c in zip(names, coeffs2) if c != 0.0 and n in out]
        if any(c != 0.0 and n not in out for n, c in zip(names, coeffs2)):
            continue      # (a structure function the first inelasticity did not need: not requested in this card)
        comb = sum(c * out[n][0].orders[k][0] for n, c in terms)
        scale = max([float(np.abs(r2.orders[k][0]).max())] + [abs(c) * float(np.abs(out[n][0].orders[k][0]).max()) for n, c in terms])
        res = float(np.abs(r2.orders[k][0] - comb).max())
        w2 = max(w2, common.milli(res, 1e-12 * scale) if scale > 0 else (0 if res == 0 else 2**30))
    line["resid2_milli"] = w2
    # the same combination on PREDICTIONS (the output applied to a PDF), at the central scales and at xiR != xiF
    wp = 0
    for xir, xif in ((1.0, 1.0), (0.5, 2.0), (2.0, 1.0)):
        pr = out.apply_pdf_alphas_alphaqed_xir_xif(Toy(), lambda mu: 0.2 / (1 + 0.02 * mu), lambda mu: 1 / 137, xir, xif)
        sig = float(pr[xs][0]["result"])
        parts = [c * float(pr[n][0]["result"]) for n, c in zip(names, coeffs) if c != 0.0]
        scale = max([abs(sig)] + [abs(v) for v in parts])
        dev = abs(sig - sum(parts))
        wp = max(wp, common.milli(dev, 1e-11 * scale) if scale > 0 else (0 if dev == 0 else 2**30))
    line["pred_milli"] = wp
    return line


def run(ctx):
    q = ctx.quick
    ctx.cov["rule"] = ("(kind, projectile, kinematic point) enumerated by TLC x heavyness x TMC x scheme; non-trivial = run in which the "
                       "cross section has a non-zero entry")
    ctx.cov["trusted_base"] = ["TLC", "numpy", "values of pi, G_F and the GeV^-2 -> cm^2 constant (atoms)"]
    kinds = {"XSHERANC", "XSHERANCAVG", "XSHERACC", "XSCHORUSCC", "XSNUTEVCC", "XSNUTEVNU", "FW", "F1", "g5", "XSFPFCC"}
    ctx.tlc_check("MC_XS", common.cfg_text({}, invariants=["Inv_Sign", "Inv_Related", "Inv_DocForm", "Inv_NeedsF3", "Inv_F1"]),
                  coverage=False, min_states=1000, min_depth=2)
    obls = ctx.tlc_emit("Emit_C11", common.cfg_text(dict(KINDS=kinds, PROJS={"e-", "e+", "nu", "nubar"}), spec=None))
    todo = []
    combos = [("total", 0, "ZM-VFNS"), ("total", 1, "ZM-VFNS"), ("charm", 1, "FFNS")] if q else \
        [("total", 0, "ZM-VFNS"), ("total", 1, "ZM-VFNS"), ("total", 2, "ZM-VFNS"), ("total", 3, "ZM-VFNS"), ("charm", 1, "FFNS"),
         ("light", 0, "FFNS"), ("bottom", 1, "ZM-VFNS"), ("total", 1, "FONLL-FFNS")]
    for o in obls:
        if q and o["kind"] in NC_KINDS and abs(o["proj"]) == 12:
            continue
        if q and o["kind"] not in NC_KINDS and abs(o["proj"]) == 11 and o["kind"] != "XSHERACC":
            continue
        for flav, tmc, fns in combos:
            if o["kind"] == "g5" and tmc != 0:
                continue     # no target-mass corrections for g4, gL (explicit rejection, see C16)
            oo = dict(o, flav=flav, tmc=tmc, fns=fns)
            oo["oid"] = common.oid_of("C11", dict(kind=o["kind"], proj=o["proj"], pt=o["pt"], flav=flav, tmc=tmc, fns=fns))
            todo.append(oo)
        # leading order: the longitudinal structure function is NOT zero there with massive quarks or target-mass corrections
        for flav, tmc, fns in ([("total", 1, "ZM-VFNS"), ("total", 0, "FFNS")] if q else
                               [("total", 1, "ZM-VFNS"), ("total", 3, "ZM-VFNS"), ("total", 0, "FFNS"), ("charm", 0, "FFNS"), ("total", 0, "ZM-VFNS")]):
            if o["kind"] == "g5" and tmc != 0:
                continue
            oo = dict(o, flav=flav, tmc=tmc, fns=fns, pto=0)
            oo["oid"] = common.oid_of("C11", dict(kind=o["kind"], proj=o["proj"], pt=o["pt"], flav=flav, tmc=tmc, fns=fns, pto=0))
            todo.append(oo)
    lines = ctx.pmap(execute, todo, chunksize=2)
    for ln in lines:
        ctx.count(1, nontrivial_key=ln["oid"] if ln["nkeys"] else None)
    for ln in lines[:: max(1, len(lines) // 3)][:3]:
        ctx.sample({k: ln[k] for k in ("kind", "proj", "pt", "coeffs", "atom", "resid_milli", "nkeys", "outcome")})
    bad = ctx.tlc_validate("Trace_C11", "Trace.cfg", [{k: v for k, v in ln.items() if k not in ("note", "doc_resid_milli")} for ln in lines])
    ctx.selftest("Trace_C11", "Trace.cfg", [{k: v for k, v in ln.items() if k not in ('note', 'doc_resid_milli')} for ln in lines if ln["oid"] not in bad and (ln["outcome"] == "OK")], [
        ("resid", lambda l: dict(l, resid_milli=2000)),
        ("resid2", lambda l: dict(l, resid2_milli=2000)),
        ("pred", lambda l: dict(l, pred_milli=2000)),
        ("coeffs", lambda l: dict(l, coeffs=l["coeffs"][:-1])),
        ("keys", lambda l: dict(l, keyset_ok=False)),
        ("kinematics", lambda l: dict(l, kinematics_ok=False))])
    by = {ln["oid"]: (o, ln) for o, ln in zip(todo, lines)}
    for oid, clause in bad.items():
        o, ln = by[oid]
        key = f"{o['kind']}:{o['proj']}:{o['flav']}:tmc{o['tmc']}:{o['fns']}{':LO' if o.get('pto') == 0 else ''}:x{o['pt']['x'][0]}/{o['pt']['x'][1]}:{clause}"
        ctx.violation(key, f"{o['kind']}_{o['flav']} (projectile {o['proj']}, TMC={o['tmc']}, {o['fns']}): {clause} {ln['note']}",
                      dict(kind="C11", obligation=o))
    # the arithmetic the combination is carried out with (Result.tla)
    from .. import algebra
    algebra.run(ctx, "C11")


def replay(ctx, obj):
    if obj.get("kind") == "algebra":
        from .. import algebra
        return algebra.replay(ctx, obj)
    ln = execute(obj["obligation"])
    bad = ctx.tlc_validate("Trace_C11", "Trace.cfg", [{k: v for k, v in ln.items() if k not in ("note", "doc_resid_milli")}])
    print({k: ln[k] for k in ("outcome", "nkeys", "resid_milli", "doc_resid_milli", "note")}, "verdict:", bad.get(ln["oid"], "ok"))
    return 1 if bad else 0
