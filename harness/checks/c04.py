"""C04 - massless coefficient functions obey sum rules and NLO closed forms.

Spec |= P : Numerics.tla - the NLO quark/gluon coefficient functions of F2, FL, F3, g1 as monomial tables with exact
            rational coefficients (from the literature) and the Adler / GLS / Bjorken coefficients per order and nf
            (zeta atoms at a_s^3); TLC proves by exact term-wise Mellin integration over Q[zeta2] that the NLO tables
            obey Adler, GLS and Bjorken (this validates the transcription before it is used as an oracle).
Code ~ Spec: first moments of the REAL non-singlet / valence coefficient functions (orders 1..3, nf 3..6 requested in ONE
            process, NC and CC even/odd classes) by quadrature including plus and delta parts, against the constants TLC
            emits; the real NLO kernels pointwise on a z lattice against the instantiated tables, and their D0, D1, delta
            coefficients.  Trace_C04 takes the verdict.
"""
import math

import numpy as np

from .. import common

Z2, Z3, Z5 = math.pi**2 / 6, 1.2020569031595942, 1.0369277551433699
REL_PARAM = 1e-3     # authors' stated accuracy of the NNLO/N3LO parametrisations on low moments: per mille (measured: <= 1.7e-4)
ABS_SCALE = 3e-5     # times int|c|: absolute floor for rules whose constant is 0 (Adler; measured <= 6e-6)


class Stub:   # minimal ESF: the light classes only read x and Q2
    x, Q2 = 0.1, 10.0


def first_moment(r, x0=0.0):
    """First moment of the distribution as it is USED at the reference point x0: the local part the convolution reads there plus
    the integral of the singular part below it (x0 = 0: the textbook delta coefficient)."""
    import scipy.integrate as si

    if r is None:
        return 0.0, 0.0
    tot = scale = 0.0
    if r.reg is not None:
        f = lambda z: float(r.reg(z, r.args["reg"]))
        tot += si.quad(f, 0, 1, epsabs=1e-11, epsrel=1e-11, limit=600)[0]
        scale += si.quad(lambda z: abs(f(z)), 0, 1, epsabs=1e-9, epsrel=1e-9, limit=600)[0]
    if r.loc is not None:
        tot += float(r.loc(x0, r.args["loc"]))
        scale += abs(float(r.loc(x0, r.args["loc"])))
    if r.sing is not None and x0 > 0.0:
        tot += si.quad(lambda z: float(r.sing(z, r.args["sing"])), 0, x0, epsabs=1e-11, epsrel=1e-11, limit=600)[0]
    return tot, scale    # the plus distribution has no first moment


def rules_job(rules):
    """all rules in one process, nf ascending then descending, so that a kernel that remembers nf is exposed"""
    from yadism.coefficient_functions.light import f2_cc, f3_cc, f3_nc, g1_nc

    src = {"Adler": [("F2cc.NonSingletOdd", f2_cc.NonSingletOdd)],
           "GLS": [("F3cc.NonSingletOdd", f3_cc.NonSingletOdd), ("F3nc.NonSinglet", f3_nc.NonSinglet)],
           "Bjorken": [("g1nc.NonSinglet", g1_nc.NonSinglet)],
           "LightByLight": [("F3cc.Valence", f3_cc.Valence), ("F3nc.Valence", f3_nc.Valence)]}
    lines = []
    for r in sorted(rules, key=lambda r: (r["order"], r["nf"])) + sorted(rules, key=lambda r: (r["order"], -r["nf"])):
        const = sum(float(common.frac(c)) * a for c, a in zip(r["value"], (1.0, Z3, Z5)))
        for label, cls in src[r["rule"]]:
            # the sum rule is a statement about the distribution: it holds at whatever point x0 the local part is read
            for x0 in (0.0, 0.5, 0.9):
                try:
                    m, scale = first_moment(cls(Stub(), r["nf"])[r["order"]](), x0)
                except Exception as ex:
                    m, scale = float("nan"), 1.0
                tol = REL_PARAM * abs(const) + ABS_SCALE * scale + 1e-12
                lines.append(dict(what="rule", rule=r["rule"], order=r["order"], nf=r["nf"], value=r["value"], cls=label,
                                  finite=bool(math.isfinite(m)), dev_milli=common.milli(abs(m - const), tol),
                                  note=f"first moment {m!r} (local part read at x0={x0}), constant {const!r}, tol {tol:.2e}"))
    return lines


def forms_job(job):
    tabs, nfs = job[:2]
    deep = len(job) > 2 and job[2]
    from yadism.coefficient_functions.light import f2_cc, f2_nc, f3_cc, f3_nc, fl_cc, fl_nc, g1_nc

    where = {"C2q": [("f2_nc.NonSinglet", f2_nc.NonSinglet), ("f2_cc.NonSingletEven", f2_cc.NonSingletEven), ("f2_cc.NonSingletOdd", f2_cc.NonSingletOdd)],
             "C3q": [("f3_nc.NonSinglet", f3_nc.NonSinglet), ("f3_cc.NonSingletEven", f3_cc.NonSingletEven), ("f3_cc.NonSingletOdd", f3_cc.NonSingletOdd)],
             "G1q": [("g1_nc.NonSinglet", g1_nc.NonSinglet)],
             "CLq": [("fl_nc.NonSinglet", fl_nc.NonSinglet), ("fl_cc.NonSingletEven", fl_cc.NonSingletEven)],
             "C2g": [("f2_nc.Gluon", f2_nc.Gluon), ("f2_cc.Gluon", f2_cc.Gluon)],
             "CLg": [("fl_nc.Gluon", fl_nc.Gluon)], "G1g": [("g1_nc.Gluon", g1_nc.Gluon)]}
    zs = np.concatenate([0.5 * (1 - np.cos(np.pi * (np.arange(60) + 0.5) / 60)), [1e-6, 1e-3, 1 - 1e-3, 1 - 1e-6]])
    if deep:   # thorough: 1500 Chebyshev nodes and both end regions on logarithmic ladders down to 1e-9
        lad = np.logspace(-9, -1.5, 60)
        zs = np.concatenate([0.5 * (1 - np.cos(np.pi * (np.arange(1500) + 0.5) / 1500)), lad, 1 - lad])
    d0, d1 = float(common.frac(tabs["d0"])), float(common.frac(tabs["d1"]))
    delta = float(common.frac(tabs["delta"][0])) + float(common.frac(tabs["delta"][1])) * Z2
    lines = []
    for nf in nfs:
        for t in tabs["tables"]:
            def lit(z):
                return sum(float(common.frac(m["coef"])) * z ** m["a"] * math.log(z) ** m["b"] * math.log(1 - z) ** m["c"] / (1 - z) ** m["d"]
                           for m in t["tab"]) * (nf if t["name"].endswith("g") else 1.0)
            for label, cls in where[t["name"]]:
                r = cls(Stub(), nf)[1]()
                worst, note = 0.0, ""
                for z in zs:
                    a, b = float(r.reg(z, r.args["reg"])), lit(float(z))
                    # in units of the tolerance 1e-10 + the conditioning of (1 - z), z in double precision (z - z^2 and the like
                    # lose eps / min(z, 1-z) whichever way they are written)
                    d = abs(a - b) / (abs(b) + 1e-9) * 1e-10 / (1e-10 + 2e-15 / min(z, 1 - z))
                    if not (d <= worst):
                        worst, note = d if d == d else float("inf"), f"z={z}: code {a!r}, closed form {b!r}"
                if t["name"] in ("C2q", "C3q", "G1q"):
                    for z in (0.2, 0.7, 0.99):
                        s = float(r.sing(z, r.args["sing"])) * (1 - z)
                        e = d0 + d1 * math.log(1 - z)
                        if abs(s - e) / abs(e) > worst:
                            worst, note = abs(s - e) / abs(e), f"plus distributions at z={z}: code {s!r}, published {e!r}"
                    l0 = float(r.loc(0.0, r.args["loc"]))
                    if abs(l0 - delta) / abs(delta) > worst:
                        worst, note = abs(l0 - delta) / abs(delta), f"delta coefficient: code {l0!r}, published {delta!r}"
                elif r.sing is not None or r.loc is not None:
                    worst, note = float("inf"), "unexpected singular/local part"
                lines.append(dict(what="form", name=t["name"], cls=label, nf=nf, dev_milli=common.milli(worst, 1e-10), note=note))
    return lines


def run(ctx):
    q = ctx.quick
    ctx.cov["rule"] = ("rule lines = (sum rule, order, nf, class), every nf requested twice in one process; form lines = (NLO closed "
                       "form, class, nf) on a 64-point z lattice incl. plus/delta parts; non-trivial = every distinct line")
    ctx.cov["trusted_base"] = ["TLC", "scipy.quad", "values of zeta2, zeta3, zeta5"]
    ctx.assumptions.append("'all z' is a lattice; a change below the parametrisations' own accuracy in a region the first moment does "
                           "not weight is invisible")
    out2 = ctx.dir / "rules.ndjson"
    tabs = ctx.tlc_emit("Emit_C04", common.cfg_text({}, spec=None), env=dict(OUT2=str(out2)))[0]
    ctx.cov["spec_theorems"] = "NLO_Adler, NLO_GLS, NLO_Bjorken, NLO_G1g proved by TLC on the tables (exact Mellin integration over Q[zeta2])"
    rules = common.read_ndjson(out2)
    nfs = (3, 5, 4) if q else (3, 4, 5, 6)
    rules = [r for r in rules if r["nf"] in nfs]
    res = ctx.pmap(rules_job, [rules]) + ctx.pmap(forms_job, [(tabs, nfs, not q), (tabs, tuple(reversed(nfs)), not q)])
    lines = [ln for rows in res for ln in rows]
    uniq = {}
    for ln in lines:
        ln["oid"] = common.oid_of("C04", {k: ln.get(k) for k in ("what", "rule", "order", "nf", "cls", "name")})
        # keep the WORST of the repeated evaluations (repetition is the history dimension)
        if ln["oid"] not in uniq or ln["dev_milli"] > uniq[ln["oid"]]["dev_milli"] or not ln.get("finite", True):
            uniq[ln["oid"]] = ln
    lines = list(uniq.values())
    for ln in lines:
        ctx.count(1, nontrivial_key=ln["oid"])
    for ln in lines[:: max(1, len(lines) // 3)][:3]:
        ctx.sample({k: v for k, v in ln.items() if k != "oid"})
    bad = ctx.tlc_validate("Trace_C04", "Trace.cfg", [{k: v for k, v in ln.items() if k != "note"} for ln in lines])
    ctx.selftest("Trace_C04", "Trace.cfg", [{k: v for k, v in ln.items() if k not in ('note',)} for ln in lines if ln["oid"] not in bad and (True)], [
        ("dev", lambda l: dict(l, dev_milli=1500)),
        ("constant", lambda l: dict(l, value=[[l["value"][0][0] + 1, l["value"][0][1]]] + l["value"][1:]) if l["what"] == "rule" else None),
        ("finite", lambda l: dict(l, finite=False) if l["what"] == "rule" else None)])
    for oid, clause in bad.items():
        ln = uniq[oid]
        if ln["what"] == "rule":
            key = f"rule:{ln['rule']}:order{ln['order']}:{ln['cls']}:{clause}"
            what = f"{ln['rule']} at order {ln['order']}, nf={ln['nf']}, {ln['cls']}: {clause} ({ln['note']})"
        else:
            key = f"form:{ln['name']}:{ln['cls']}:{clause}"
            what = f"NLO closed form {ln['name']} vs {ln['cls']} (nf={ln['nf']}): {clause} ({ln['note']})"
        ctx.violation(key, what, dict(kind="C04", line={k: ln.get(k) for k in ("what", "rule", "order", "nf", "cls", "name")}))
    ctx.cov["states"] = max(ctx.cov["states"], 0)


def replay(ctx, obj):
    print("re-run ./vcheck C04 quick (all lines are evaluated in shared processes):", obj.get("line"))
    return 1
