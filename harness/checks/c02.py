"""C02 - LO parton model and electroweak/CKM coupling weights.

Spec |= P : MC_Lattice (Inv_C02 and the weight-level symmetry theorems) proves on the rational lattice that the
            LO weight the assembly produces equals the textbook chiral-amplitude / CKM-pair parton model.
Code ~ Spec: TLC emits, per lattice cell, the exact textbook row; the driver runs the real run_yadism at a grid
            node and records the observed LO row; Trace_C02 (TLC) accepts a line iff the row equals the
            parton-model row it recomputes from the cell parameters.
"""
import math

import numpy as np

from .. import cards, common

PIDSEQ = [-6, -5, -4, -3, -2, -1, 21, 1, 2, 3, 4, 5, 6]
MASSES = {3: (20.0, 30.0, 200.0), 4: (2.0, 30.0, 200.0), 5: (2.0, 5.0, 200.0), 6: (2.0, 5.0, 8.0)}
Q2 = 100.0


def build_cards(pt, ckm2):
    s2w = float(common.frac(pt["s2w"]))
    r = common.frac(pt["r"]) / 2 ** pt.get("rexp", 0)
    mz = math.inf if r == 0 else math.sqrt(Q2 * float((1 - r) / r))
    mc, mb, mt = MASSES[pt["nf"]]
    ckm = [math.sqrt(float(common.frac(e))) for row in ckm2 for e in row]
    th = cards.theory(PTO=0, PTODIS=0, FNS="ZM-VFNS", NfFF=4, mc=mc, mb=mb, mt=mt, SIN2TW=s2w, MZ=mz,
                      CKM=" ".join(repr(c) for c in ckm), Q0=1.0, TMC=0)
    xg = cards.make_grid(4, 4, x_min=1e-2)
    x = xg[4]
    name = f"{pt['kind']}_{pt['flav']}"
    # One card, eight points, as a user would write it: the judged node point sits third, between decoys at other virtualities
    # whose Q2 order is not a self-inverse permutation, followed by four points OFF the nodes at the judged virtuality (first,
    # a bulk, the second-to-last and the last interval of the grid).
    off = [0.5 * (xg[0] + xg[1]), 0.5 * (xg[3] + xg[4]), 0.5 * (xg[-3] + xg[-2]), 0.3 * xg[-2] + 0.7 * xg[-1]]
    kins = [dict(x=x, Q2=2 * Q2), dict(x=x, Q2=4 * Q2), dict(x=x, Q2=Q2), dict(x=x, Q2=8 * Q2)] + [dict(x=xo, Q2=Q2) for xo in off]
    ob = cards.obs({name: kins}, xgrid=xg, deg=3, prDIS=pt["proc"],
                   ProjectileDIS=cards.PROJ_NAME[pt["proj"]], PolarizationDIS=float(common.frac(pt["pol"])),
                   PropagatorCorrection=float(1 - common.frac(pt["omd"])),
                   **({} if pt.get("tza", 1) == 1 else dict(TargetDIS=dict(A=pt["tza"], Z=1))))       # (A before Z, integers: a YAML card)
    return th, ob, name, x, 4, off


def xg_of():
    return cards.make_grid(4, 4, x_min=1e-2)


def execute(ob):
    """Run the real code for one obligation; return the recorded trace line."""
    pt = ob["pt"]
    th, o, name, x, j0, off = build_cards(pt, ob["ckm2"])
    line = dict(oid=ob["oid"], pt=pt, outcome="OK", nf=pt["nf"], row=[[0, 1]] * 13, offnode_milli=0, shape_milli=0, raw=[])
    try:
        from yadism.coefficient_functions import Combiner  # noqa: F401
        out = cards.run(th, o)
    except (ValueError, NotImplementedError, ImportError) as ex:
        line["outcome"] = "Reject_" + type(ex).__name__
        return line
    except Exception as ex:
        line["outcome"] = "Crash_" + type(ex).__name__
        return line
    res = out[name][2]
    val = res.orders[(0, 0, 0, 0)][0]
    if (res.x, res.Q2) != (x, Q2):
        line["outcome"] = "SlotHoldsAnotherPoint"
        return line
    # off the nodes: operator[p][j] = x * weight_p * p_j(x) with eko's basis functions and the EXPECTED weight
    from eko.interpolation import InterpolatorDispatcher, XGrid

    interp = InterpolatorDispatcher(XGrid(xg_of(), True), 3, mode_N=False)
    scale = max(abs(float(common.frac(e))) for e in ob["expect"]) or 1.0
    worst = 0.0
    for i, xo in enumerate(off):
        r = out[name][4 + i]
        pj = np.array([float(b(xo)) for b in interp])
        v = r.orders[(0, 0, 0, 0)][0]
        for p, e in zip(PIDSEQ, ob["expect"]):
            want = xo * float(common.frac(e)) * pj
            got = np.asarray(v[list(out["pids"]).index(p)]) * 4.0 ** pt.get("rexp", 0)
            worst = max(worst, float(np.max(np.abs(got - want))) / (scale * xo))
    line["shape_milli"] = common.milli(worst, 1e-11)
    pids = list(out["pids"])
    row, raw, off = [], [], 0.0
    for p, e in zip(PIDSEQ, ob["expect"]):
        v = val[pids.index(p)]
        w = float(v[j0]) / x * 4.0 ** pt.get("rexp", 0)    # (exact in binary floating point)
        raw.append(repr(w))
        row.append(common.snap(w, common.frac(e), rel=1e-12, abs_=1e-14))
        for j in range(len(v)):
            if j != j0:
                off = max(off, abs(float(v[j])) * 4.0 ** pt.get("rexp", 0))
    # photon row must be empty as well
    off = max(off, float(abs(val[pids.index(22)]).max()))
    line["row"], line["raw"], line["offnode_milli"] = row, raw, common.milli(off, 1e-13)
    # number of flavours the run used (from the assembly of the very same element)
    import yadism
    from yadism import runner as yr

    r = yr.Runner(th, o)
    from yadism import coefficient_functions as cf

    line["nf"] = int(cf.Combiner(r.observables[name].elements[0]).nf)
    return line


def run(ctx):
    ctx.cov["rule"] = ("obligations = lattice cells enumerated by TLC (process x projectile x kind x heavyness x nf x EW "
                       "point x CKM); non-trivial = in the textbook domain with at least one non-zero expected weight")
    ctx.cov["trusted_base"] = ["TLC", "eko interpolation basis (Kronecker delta at nodes)", "numpy"]
    ctx.assumptions += ["neutrino NC beams are compared at zero polarisation only (undocumented flip convention)",
                        "massive intrinsic LO rows are outside the textbook comparison"]
    # 1. Spec |= P
    for part in ("nc", "cc"):
        ctx.tlc_check("MC_Lattice", f"MC_C02_{part}_{ctx.tier}.cfg", coverage=False, min_states=500, min_depth=3)
    # 2. obligations from the spec
    if ctx.quick:
        obs = ctx.tlc_emit("Emit_C02", "Emit_C02_quick.cfg")
    else:
        # one emission per (kind, heavyness): constant-level evaluation is single threaded in TLC, 24 processes share the lattice
        sub = dict(S2W="S2W_full", RR="RR_full", OMD="OMD_full", POL="POL_full")
        obs = ctx.tlc_emit_many("Emit_C02", [common.cfg_text(dict(NFZM={3, 4, 5, 6}, KINDS={k}, PROCS={"EM", "NC", "CC"}, FLAVS={fl},
                                                                  CKMS={"generic", "unitary"}), sub, spec=None)
                                             for k in ("F2", "FL", "F3", "g1", "gL", "g4") for fl in ("light", "total", "charm", "bottom")])
    for o in obs:
        o["oid"] = common.oid_of("C02", o["pt"])
    todo = [o for o in obs if o["indomain"]]
    ctx.cov["obligations_emitted"] = len(obs)
    ctx.cov["obligations_in_domain"] = len(todo)
    # 3. drive the real code
    lines = ctx.pmap(execute, todo, chunksize=8)
    for o, ln in zip(todo, lines):
        nz = any(e[0] != 0 for e in o["expect"])
        ctx.count(1, nontrivial_key=o["oid"] if nz else None)
    for ln in lines[:: max(1, len(lines) // 4)][:4]:
        ctx.sample(dict(cell=ln["pt"], observed_row=ln["raw"], outcome=ln["outcome"]))
    # 4. trace validation by TLC
    bad = ctx.tlc_validate("Trace_C02", "Trace.cfg", [{k: v for k, v in ln.items() if k != "raw"} for ln in lines])
    byoid = {ln["oid"]: (o, ln) for o, ln in zip(todo, lines)}
    good = [{k: v for k, v in ln.items() if k != "raw"} for ln in lines if ln["oid"] not in bad and any(r[0] != 0 for r in ln["row"])]
    ctx.selftest("Trace_C02", "Trace.cfg", good, [
        ("row", lambda l: dict(l, row=[[r[0] + (1 if r[0] != 0 else 0), r[1]] for r in l["row"]])),
        ("offnode", lambda l: dict(l, offnode_milli=5000)),
        ("shape", lambda l: dict(l, shape_milli=5000)),
        ("nf", lambda l: dict(l, nf=l["nf"] - 1)),
        ("outcome", lambda l: dict(l, outcome="Crash_KeyError"))])
    for oid, clause in bad.items():
        o, ln = byoid[oid]
        pt = o["pt"]
        key = f"{pt['proc']}:{pt['proj']}:{pt['kind']}_{pt['flav']}:nf{pt['nf']}{'' if pt.get('tza', 1) == 1 else ':A' + str(pt['tza'])}:{clause}"
        ctx.violation(key, f"LO row of {pt['kind']}_{pt['flav']} ({pt['proc']}, projectile {pt['proj']}) is not the "
                      f"parton-model row: {clause}", dict(kind="C02", obligation=o, observed=ln))
    # 5. conformance of the assembly model itself (all orders, schemes, heavynesses, a nuclear target): Kernels.Assemble(cell)
    #    against the real Combiner.collect_elems() - class keys, summed weights, number of flavours (notes, see Trace_Asm)
    from .. import assembly
    assembly.run(ctx, "C02", ctx.quick)


def replay(ctx, obj):
    o = obj["obligation"]
    ln = execute(o)
    bad = ctx.tlc_validate("Trace_C02", "Trace.cfg", [{k: v for k, v in ln.items() if k != "raw"}])
    print("observed:", ln["raw"], "expected:", o["expect"], "verdict:", bad.get(ln["oid"], "ok"))
    return 1 if bad else 0
