"""C20 - the runner leaves its inputs untouched and echoes them in the output.

Spec |= P : CardsHeap.tla - caller cards as a heap of objects with identity; compatibility.update as heap actions;
            CallerHeapUnchanged, UpdateIdempotent, EchoExact for every card shape (FNS x NfFF x optional keys
            absent/None/set x target spelling), MC_C20.
Code ~ Spec: every TLC-enumerated shape is instantiated as real dicts; the projection of the updated cards must equal
            the one the heap model computes (Trace_C20 recomputes it), the caller's dicts must be unchanged in content
            AND nested-object identity after update, after Runner construction and two get_result calls and after a
            second construction from the same objects, the upgrade must be idempotent and the output must echo the
            given cards, grid, pids and projectile.
"""
import copy
import hashlib
import math

from .. import cards, common

TARGET_DICT = {"Z": 2.0, "A": 5.0}


def build(shape):
    th = cards.theory(PTO=1, FNS=shape["fns"], NfFF=shape["nfff"], mc=2.0, mb=5.0, mt=170.0, Q0=1.0)
    for k in ("PTODIS", "FONLLParts", "RenScaleVar", "FactScaleVar", "QED", "alphaqed"):
        th.pop(k, None)
    if shape["ptodis"] != "absent":
        th["PTODIS"] = None if shape["ptodis"] == "None" else 0
    if shape["parts"] != "absent":
        th["FONLLParts"] = None if shape["parts"] == "None" else "massless"
    if shape["sv"] == "present":
        th["RenScaleVar"] = False
        th["FactScaleVar"] = False
    if shape["qed"] != "absent":
        th["QED"] = 0 if shape["qed"] == "zero" else 1
    if shape["aqed"] == "present":
        th["alphaqed"] = 0.007496
    if shape["sv"] != "present":
        # optional electroweak keys left out as well (the defaults are the runner's business, not the caller's dict's)
        th.pop("MZ", None)
        th.pop("SIN2TW", None)
    if shape["ptodis"] != "absent":
        th["TMC"] = 1       # target-mass corrections shift the kinematics internally: the caller's points stay what they were
    xg = list(cards.make_grid(3, 3, x_min=1e-2))
    if shape["qed"] != "absent":
        xg = xg[::-1]      # (the card may list the nodes in any order; the output records the grid actually USED, which is ascending)
    tgt = dict(TARGET_DICT) if shape["target"] == "dict" else shape["target"]
    # (an observable without kinematic points is a legitimate card entry: it comes back as an empty list)
    ob = cards.obs({"F2_total": [dict(x=0.3, Q2=30.0), dict(x=0.1, Q2=5.0), dict(x=0.2, Q2=12.0)], "F3_charm": [],
                    "FL": [dict(x=0.25, Q2=9.0)]}, xgrid=xg, deg=2,      # (FL: an observable in its short spelling)
                   prDIS="EM", TargetDIS=tgt, ProjectileDIS="positron")
    return th, ob


def build_scrub(shape):
    """The same card shape with results that really contain non-finite numbers (LeProHQ at very large eta, the documented case
    of Runner.replace_nans_with_0), under the bare kind name the scrubbing step looks at."""
    th, ob = build(shape)
    th["PTO"] = 2
    if "PTODIS" in th and th["PTODIS"] is not None:
        th["PTODIS"] = 2
    ob["interpolation_xgrid"] = cards.make_grid(4, 3, x_min=1e-9)
    ob["observables"] = {"F2_total": [dict(x=0.3, Q2=30.0)], "FL": [dict(x=1e-9, Q2=20.0)], "F3_charm": []}
    return th, ob


def nested_ids(ob):
    ids = [id(ob["observables"]), id(ob["interpolation_xgrid"])]
    for lst in ob["observables"].values():
        ids.append(id(lst))
        ids += [id(k) for k in lst]
    if isinstance(ob["TargetDIS"], dict):
        ids.append(id(ob["TargetDIS"]))
    return ids


def ext(v):
    return "zero" if v == 0 else "inf" if v == math.inf else "other"


def project(nt, no, th, ob):
    za = no["TargetDIS"]
    from fractions import Fraction

    def rat(v):
        return common.ratj(Fraction(v).limit_denominator(10**4))
    return dict(
        kc=ext(nt["kcThr"]), kb=ext(nt["kbThr"]), kt=ext(nt["ktThr"]),
        zm=[bool(nt["ZMc"]), bool(nt["ZMb"]), bool(nt["ZMt"])],
        ptodis="None" if nt["PTODIS"] is None else ("1" if nt["PTODIS"] == nt["PTO"] else "2"),
        parts="None" if nt["FONLLParts"] is None else nt["FONLLParts"],
        ren=bool(nt["RenScaleVar"]), fact=bool(nt["FactScaleVar"]),
        has_alphaqed="alphaqed" in nt, has_alphaem="alphaem" in nt, has_qed="QED" in nt,
        order=(["PTO+1", int(nt["order"][1])] if "order" in nt and nt["order"][0] == nt["PTO"] + 1 else
               (["none", -1] if "order" not in nt else ["wrong", int(nt["order"][1])])),
        target=[rat(za["Z"]), rat(za["A"])],
        target_id=no.get("TargetDISid", "none"),
        same_observables=no["observables"] is ob["observables"], same_xgrid=no["interpolation_xgrid"] is ob["interpolation_xgrid"],
        target_is_callers=no["TargetDIS"] is ob["TargetDIS"],
    )


def digest_out(out):
    from .. import recorder

    return hashlib.sha1("".join(recorder.digest_result(r) for r in out["F2_total"]).encode()).hexdigest()


def execute(ob_):
    shape = ob_["shape"]
    line = dict(oid=ob_["oid"], shape=shape, outcome="OK", proj={}, caller_unchanged_by_update=True, idempotent=True,
                runner_checked=ob_["with_runner"], caller_unchanged_by_runner=True, nested_identity_kept=True, echo_cards=True,
                echo_meta=True, second_construction_same=True, note="")
    cards.silence()
    from yadism.input import compatibility

    th, ob = build_scrub(shape) if ob_.get("scrub") else build(shape)
    line["scrubbed"] = False
    snap_t, snap_o = copy.deepcopy(th), copy.deepcopy(ob)
    ids0 = nested_ids(ob)
    try:
        nt, no = compatibility.update(th, ob)
        line["proj"] = project(nt, no, th, ob)
        line["caller_unchanged_by_update"] = (th == snap_t and ob == snap_o and nested_ids(ob) == ids0)
        nt2, no2 = compatibility.update(nt, no)
        line["idempotent"] = (nt2 == nt and no2 == no)
        if ob_["with_runner"]:
            from eko import basis_rotation as br
            from yadism import runner as yr

            r = yr.Runner(th, ob)
            out = r.get_result()
            out_b = r.get_result()
            if ob_.get("scrub"):
                import numpy as np
                raw = r._output["FL"][0]    # pylint: disable=protected-access
                line["scrubbed"] = bool(any(not np.all(np.isfinite(v)) for v, _e in raw.orders.values())
                                        and all(np.all(np.isfinite(v)) for v, _e in out["FL"][0].orders.values()))
            line["caller_unchanged_by_runner"] = (th == snap_t and ob == snap_o)
            line["nested_identity_kept"] = nested_ids(ob) == ids0
            line["echo_cards"] = (out.theory == snap_t and out.observables == snap_o and out_b.theory == snap_t)
            line["echo_meta"] = (list(out["xgrid"]["grid"]) == sorted(snap_o["interpolation_xgrid"])
                                 and "FL" in out and len(out["FL"]) == len(snap_o["observables"].get("FL", []))
                                 and bool(out["xgrid"]["log"]) == bool(snap_o["interpolation_is_log"])
                                 and int(out["polynomial_degree"]) == snap_o["interpolation_polynomial_degree"]
                                 and list(out["pids"]) == list(br.flavor_basis_pids) and out["projectilePID"] == -11
                                 and [(p.x, p.Q2) for p in out["F2_total"]] == [(k["x"], k["Q2"]) for k in snap_o["observables"]["F2_total"]]
                                 and out["F3_charm"] == [] and out_b["F3_charm"] == [])
            r2 = yr.Runner(th, ob)
            out2 = r2.get_result()
            line["second_construction_same"] = (digest_out(out2) == digest_out(out) == digest_out(out_b)
                                                and th == snap_t and ob == snap_o and nested_ids(ob) == ids0)
    except Exception as ex:
        line["outcome"] = ("Reject_" if isinstance(ex, (ValueError, NotImplementedError)) else "Crash_") + type(ex).__name__
        line["note"] = str(ex)[:200]
    return line


def run(ctx):
    q = ctx.quick
    ctx.cov["rule"] = ("card shapes enumerated by TLC (FNS x NfFF x PTODIS/FONLLParts absent|None|set x scale-variation keys x "
                       "QED x alphaqed x target spelling); every shape goes through compatibility.update twice, a seed-rotated "
                       "subset through Runner + 2 get_result + a second construction; non-trivial = every distinct shape")
    ctx.cov["trusted_base"] = ["TLC", "python == on dicts, id() for object identity"]
    ctx.tlc_check("MC_C20", common.cfg_text({}, invariants=["Inv_Caller", "Inv_Idem", "Inv_Echo"]), coverage=False,
                  min_states=10000, min_depth=2)
    em = dict(FNSS={"ZM-VFNS", "FFNS", "FFN0", "FONLL-FFNS", "FONLL-FFN0"}, NFFFS={3, 4} if q else {3, 4, 5},
              TARGETS={"proton", "iron", "marble", "dict"} if q else
              {"proton", "neutron", "isoscalar", "iron", "lead", "neon", "marble", "dict"})
    obls = ctx.tlc_emit("Emit_C20", common.cfg_text(em, spec=None))
    nrun = 0
    for o in obls:
        o["oid"] = common.oid_of("C20", o["shape"])
        h = int(hashlib.sha1(o["oid"].encode()).hexdigest(), 16) + ctx.seed
        o["with_runner"] = h % (40 if q else 12) == 0
        nrun += o["with_runner"]
    ctx.cov["shapes"] = len(obls)
    ctx.cov["shapes_with_runner"] = nrun
    # the scrubbing path of get_result (non-finite results under a bare kind name): massive schemes, first suitable shapes
    sc = [o for o in obls if o["shape"]["fns"] == "FFNS" and o["shape"]["nfff"] == 3 and o["shape"]["ptodis"] in ("absent", "None")
          and o["shape"]["target"] in ("proton", "dict")][: 2 if q else 6]
    for o in sc:
        o2 = dict(o, with_runner=True, scrub=True)
        o2["oid"] = o["oid"] + "-scrub"
        obls.append(o2)
    obls.sort(key=lambda o: not o["with_runner"])
    lines = ctx.pmap(execute, obls, chunksize=16)
    for ln in lines:
        ctx.count(1, nontrivial_key=ln["oid"])
    for ln in [l for l in lines if l["runner_checked"]][:2] + lines[-2:]:
        ctx.sample({k: ln[k] for k in ("shape", "proj", "runner_checked", "outcome")})
    bad = ctx.tlc_validate_sharded("Trace_C20", "Trace.cfg", [{k: v for k, v in ln.items() if k not in ("note", "scrubbed")} for ln in lines])
    by = {ln["oid"]: ln for ln in lines}
    good = [{k: v for k, v in ln.items() if k not in ("note", "scrubbed")} for ln in lines if ln["oid"] not in bad]
    ctx.selftest("Trace_C20", "Trace.cfg", good, [
        ("proj", lambda l: dict(l, proj=dict(l["proj"], ptodis="2" if l["proj"]["ptodis"] != "2" else "1"))),
        ("caller", lambda l: dict(l, caller_unchanged_by_update=False)),
        ("idempotent", lambda l: dict(l, idempotent=False)),
        ("echo", lambda l: dict(l, echo_cards=False) if l["runner_checked"] else None)])
    for oid, clause in bad.items():
        ln = by[oid]
        s = ln["shape"]
        key = f"{s['fns']}{s['nfff']}:{s['ptodis']}:{s['parts']}:{s['sv']}:{s['qed']}:{s['aqed']}:{s['target']}:{clause}"
        if oid.endswith("-scrub"):
            key = "scrub:" + key
        ctx.violation(key, f"card shape {s}{' (results with non-finite entries)' if oid.endswith('-scrub') else ''}: {clause} {ln['note']}",
                      dict(kind="C20", obligation=dict(shape=s, oid=oid, with_runner=True, scrub=oid.endswith("-scrub"))))
    ctx.cov["scrub_probes"] = len(sc)
    ctx.cov["scrub_probes_with_nonfinite_raw_results"] = sum(1 for ln in lines if ln.get("scrubbed"))
    if sc and not ctx.cov["scrub_probes_with_nonfinite_raw_results"]:
        ctx.assumptions.append("the scrub probes produced no non-finite raw result on this tree: the scrubbing path was not exercised")


def replay(ctx, obj):
    ln = execute(obj["obligation"])
    bad = ctx.tlc_validate("Trace_C20", "Trace.cfg", [{k: v for k, v in ln.items() if k not in ("note", "scrubbed")}])
    print({k: v for k, v in ln.items() if k not in ("proj",)}, "\nproj:", ln["proj"], "\nverdict:", bad.get(ln["oid"], "ok"))
    return 1 if bad else 0
