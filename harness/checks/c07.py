"""C07 - heavyness, FONLL parts and coupling-restricted results add up.

Spec |= P : four partition theorems on exact kernel bags over the lattice (MC_Lattice).
Code ~ Spec: TLC emits the relation instances (which runs, which coefficients); the real runs are performed and
            Trace_Rel (TLC) accepts a line iff the spec asserts the relation there and the operators satisfy it
            entry-wise for every order key.
"""
from .. import relcheck

RELS = ["FFNSPartition", "ZMTotalIsLight", "FONLLParts", "PositivitySum"]
INVS = ["Inv_C07_FFNS", "Inv_C07_ZM", "Inv_C07_FONLL", "Inv_C07_Pos", "Inv_C07_Tagged"]


def run(ctx):
    ctx.cov["rule"] = ("relation instances enumerated by TLC over kinds x processes x schemes x orders; non-trivial = at "
                       "least one order key with a non-zero operator entry")
    ctx.cov["trusted_base"] = ["TLC", "numpy"]
    q = ctx.quick
    relcheck.mc(ctx, INVS, consts=dict(KINDS={"F2", "FL", "F3", "g1"} if q else {"F2", "FL", "F3", "g1", "gL", "g4"},
                                       PROCS={"EM", "NC", "CC"}, NFZM={3, 4, 5} if q else {3, 4, 5, 6},
                                       NFFF={3, 4} if q else {3, 4, 5}, FLAVS={"total", "charm", "bottom"}, POSS={0},
                                       TARGETS={"proton", "third"}),
                subst=dict(ORDERS="ORD_few" if q else "ORD_all"))
    insts = []
    # NLO everywhere
    insts += relcheck.emit(ctx, RELS, PROCS={"NC", "CC"}, PROJS={"e-", "nu"}, KINDS={"F2", "FL", "F3", "g1"},
                           SCHEMES={"ZM4", "FFNS3", "FFNS4", "FFN03", "FONLLS4", "FONLL03"}, ORDERS={"11"})
    # NNLO on a covering subset
    insts += relcheck.emit(ctx, RELS, PROCS={"NC"}, PROJS={"e-"}, KINDS={"F2", "F3"} if q else {"F2", "FL", "F3", "g1"},
                           SCHEMES={"ZM5", "FFNS3", "FONLL03"} if q else {"ZM5", "FFNS3", "FFNS4", "FFN03", "FONLLS3", "FONLL03", "FONLL04"},
                           ORDERS={"22"} if q else {"22", "23"})
    # a nuclear target (Z/A = 1/3): the isospin rotation acts per kernel, all heavynesses of an instance are computed in ONE run
    insts += relcheck.emit(ctx, ["FFNSPartition", "ZMTotalIsLight", "PositivitySum"], PROCS={"NC"}, PROJS={"e-"}, KINDS={"F2", "F3"},
                           SCHEMES={"ZM4", "FFNS3"}, ORDERS={"11"}, TARGETS={"third"})
    if not q:
        insts += relcheck.emit(ctx, RELS, PROCS={"EM", "CC"}, PROJS={"e+", "nubar"}, KINDS={"F2", "FL", "F3", "gL", "g4"},
                               SCHEMES={"ZM3", "ZM6", "FFNS5", "FFN04", "FONLLS3", "FONLL04"}, ORDERS={"11", "21"},
                               TARGETS={"third"})
        insts += relcheck.emit(ctx, RELS, PROCS={"NC"}, PROJS={"e-"}, KINDS={"F2", "FL", "F3"},
                               SCHEMES={"ZM4", "FFNS4"}, ORDERS={"33"})
    relcheck.drive_and_validate(ctx, "C07", insts)
    # the partitions carry over to every LINEAR combination of structure functions of one heavyness: the reduced cross sections
    # (instances of the F2 cell, executed on the cross-section observable - XSHERANC needs F2, FL and F3 of that heavyness)
    xsi = relcheck.emit(ctx, ["FFNSPartition", "ZMTotalIsLight", "FONLLParts"], PROCS={"NC"} if q else {"NC", "CC"}, PROJS={"e-"} if q else {"e-", "nu"},
                        KINDS={"F2"}, SCHEMES={"ZM4", "FFNS3", "FONLLS4"} if q else {"ZM4", "ZM5", "FFNS3", "FFNS4", "FFN03", "FONLLS4", "FONLL03"},
                        ORDERS={"11"} if q else {"11", "22"})
    for kind in (("XSHERANC",) if q else ("XSHERANC", "XSHERANCAVG", "XSCHORUSCC", "FW")):
        sel = [i for i in xsi if (i["pt"]["proc"] == "CC") == (kind in ("XSCHORUSCC", "FW"))
               and (i["pt"]["proc"] != "CC" or abs(i["pt"]["proj"]) == 12) and (i["pt"]["proc"] == "CC" or abs(i["pt"]["proj"]) == 11)]
        relcheck.drive_and_validate(ctx, "C07", sel, extra=dict(xs_kind=kind))
    # N3LO (fl11 flavour class, a_s^3 heavy): one kinematic point per run keeps it affordable in the quick tier
    n3 = relcheck.emit(ctx, ["PositivitySum", "ZMTotalIsLight", "FFNSPartition"], PROCS={"NC"} if q else {"EM", "NC"}, PROJS={"e-"},
                       KINDS={"F2"} if q else {"F2", "FL"}, SCHEMES={"ZM4"} if q else {"ZM4", "ZM5", "FFNS4"}, ORDERS={"33"})
    # a flavour-tagged observable on the massless path = the total restricted to the tagged quark's couplings (all orders)
    n3 += relcheck.emit(ctx, ["TaggedIsRestricted"], PROCS={"NC"} if q else {"EM", "NC"}, PROJS={"e-"}, KINDS={"F2"} if q else {"F2", "FL", "F3"},
                        FLAVS={"charm"} if q else {"charm", "bottom"}, SCHEMES={"ZM5"} if q else {"ZM4", "ZM5", "ZM6"},
                        ORDERS={"22", "33"})
    relcheck.drive_and_validate(ctx, "C07", n3, extra=dict(xs=[0.23]))
    if not q:
        # with target-mass corrections switched on the partitions still hold (TMC is linear)
        tm = relcheck.emit(ctx, ["FFNSPartition", "ZMTotalIsLight"], PROCS={"NC"}, PROJS={"e-"}, KINDS={"F2", "FL"},
                           SCHEMES={"ZM4", "FFNS3"}, ORDERS={"11"})
        relcheck.drive_and_validate(ctx, "C07", tm, extra=dict(tmc=1))


replay = relcheck.replay
