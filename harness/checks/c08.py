"""C08 - FFN0 is the high-virtuality limit of the massive (FFNS) calculation.

Spec |= P : Theorems.C08_AsyMirrorsMassive / C08_MissingMirrors on Kernels.tla (MC_Lattice): for every FFNS cell the FFN0
            cell selects asymptotic kernels with the same exact parton weights, one per log tower; Trace_C08.Rel_PowerDecay
            is the relation a recorded sequence of differences must satisfy.
Code ~ Spec: for each heavy observable (NC F2/FL charm and bottom, also bottom with NfFF=3; CC F2/FL/F3 charm; the 'missing'
            channel through F2/FL_light) FFNS and FFN0 runs at Q2/m2 = 1e2..1e6, orders 0..2, contracted with a test PDF,
            per row class (gluon / light quarks / heavy quark); TLC judges the decay relation on the quantised sequences.
"""
import numpy as np

from .. import cards, common

RATIOS = (1e2, 1e3, 1e4, 1e5, 1e6)
M = {4: 2.0, 5: 5.0}


def job_run(job):
    cards.silence()
    kind, proc, flav, hq, nfff, x = job
    xg = cards.make_grid(5, 5, x_min=1e-3)
    f = np.array([xx**-0.1 * (1 - xx) ** 3 for xx in xg])
    name, ref = f"{kind}_{flav}", f"F2_{flav}"
    proj = "neutrino" if proc == "CC" else "electron"
    seq = {}
    scale = {}
    outcome = "OK"
    note = ""
    pids = None
    for r in RATIOS:
        q2 = M[hq] ** 2 * r
        res = {}
        for fns in ("FFNS", "FFN0"):
            # light observables carry the 'missing' heavy-quark loops of ALL massive quarks at once: the limit needs Q2 >> every mass,
            # so the heavier quarks are put just above the charm
            masses = dict(mc=M[4], mb=2.2, mt=2.4) if flav == "light" else dict(mc=M[4], mb=M[5], mt=1e4)
            th = cards.theory(PTO=2, PTODIS=2, FNS=fns, NfFF=nfff, Q0=1.0, **masses)
            ob = cards.obs({n: [dict(x=x, Q2=q2)] for n in {name, ref}}, xgrid=xg, deg=3, prDIS=proc, ProjectileDIS=proj)
            try:
                res[fns] = cards.run(th, ob)
            except Exception as ex:
                outcome = ("Reject_" if isinstance(ex, (ValueError, NotImplementedError)) else "Crash_") + type(ex).__name__
                note = str(ex)[:150]
                break
        if outcome != "OK":
            break
        pids = list(res["FFNS"]["pids"])
        nf = nfff
        classes = {"gluon": [21], "heavy": [hq, -hq]}
        if flav == "light":
            classes["light_but_last"] = [s * q for q in range(1, nf) for s in (1, -1)]
            classes["last_light"] = [nf, -nf]
        else:
            classes["light"] = [s * q for q in range(1, nf + 1) for s in (1, -1)]
            # the quarks that are neither light nor the heavy quark of the observable (charm for F2_bottom with NfFF = 3): no rows
            # in either scheme
            other = [s * q for q in range(nf + 1, 7) if q != hq for s in (1, -1)]
            if other:
                classes["other_massive"] = other
        for o in (0, 1, 2):
            a = res["FFNS"][name][0].orders[(o, 0, 0, 0)][0] @ f
            b = res["FFN0"][name][0].orders[(o, 0, 0, 0)][0] @ f
            sref = max(float(np.abs(res[s][ref][0].orders[(o, 0, 0, 0)][0] @ f).max()) for s in ("FFNS", "FFN0"))
            scale[o] = max(scale.get(o, 0.0), sref)
            for cname, rows in classes.items():
                idx = [pids.index(p) for p in rows]
                seq.setdefault((o, cname), []).append(float(np.abs(a[idx] - b[idx]).max()))
    lines = []
    for (o, cname), ds in seq.items():
        s = scale[o]
        if s == 0.0:
            continue   # nothing of this heavyness at this order (e.g. LO of a gluon-initiated observable)
        fin = all(np.isfinite(ds)) and np.isfinite(s)
        d = [int(min(round(v / s * 1e9), 2**30)) if np.isfinite(v) else 2**30 for v in ds]
        lines.append(dict(what="decay", kind=kind, proc=proc, flav=flav, hq=hq, nfff=nfff, x=x, order=o, cls=cname, outcome="OK", finite=bool(fin),
                          d=d, note=f"D/S at Q2/m2=1e2..1e6: {[f'{v / s:.2e}' for v in ds]}"))
    if outcome != "OK":
        lines.append(dict(what="decay", kind=kind, proc=proc, flav=flav, hq=hq, nfff=nfff, x=x, order=-1, cls="-", outcome=outcome, finite=False, d=[], note=note))
    return lines


def run(ctx):
    q = ctx.quick
    ctx.cov["rule"] = ("(observable, scheme pair, x) jobs x order 0..2 x row class; each line is a five-point sequence in Q2/m2; "
                       "non-trivial = sequence whose first difference is above 1e-6 of the scale")
    ctx.cov["trusted_base"] = ["TLC", "LeProHQ (massive O(a_s^2) coefficients)", "numpy"]
    ctx.assumptions += ["the limit is sampled on decades; the bound at 1e5 and 1e6 (5e-3 of the scale) is set by the accuracy of the massive "
                        "library measured on the pinned tree (largest value 9.8e-4)", "N3LO heavy is an interpolated approximation, excluded as in the property",
                        "NC g1 FFN0 is an explicit rejection ('high virtuality limit not known') and out of scope"]
    from .. import relcheck
    relcheck.mc(ctx, ["Inv_C08_Mirror", "Inv_C08_Missing"],
                consts=dict(NFZM=set(), NFFF={3, 4} if q else {3, 4, 5}, KINDS={"F2", "FL", "F3", "g1"}, PROCS={"EM", "NC", "CC"},
                            FLAVS={"light", "charm", "bottom"}), subst=dict(ORDERS="ORD_few" if q else "ORD_all"), min_states=1000)
    xs = (0.1,) if q else (0.01, 0.1, 0.4)
    jobs = []
    for x in xs:
        for kind in ("F2", "FL"):
            jobs += [(kind, "NC", "charm", 4, 3, x), (kind, "NC", "bottom", 5, 3, x), (kind, "NC", "light", 4, 3, x)]
            if not q:
                jobs += [(kind, "NC", "bottom", 5, 4, x), (kind, "EM", "charm", 4, 3, x)]
        for kind in ("F2", "FL", "F3"):
            jobs.append((kind, "CC", "charm", 4, 3, x))
        jobs.append(("F2", "CC", "bottom", 5, 3, x))     # a heavy quark that is not adjacent to the light ones
        if not q:
            jobs += [("FL", "CC", "bottom", 5, 3, x), ("F3", "CC", "bottom", 5, 3, x), ("F2", "CC", "bottom", 5, 4, x)]
    res = ctx.pmap(job_run, jobs, chunksize=1)
    lines = [ln for rows in res for ln in rows]
    for ln in lines:
        ln["oid"] = common.oid_of("C08", {k: ln[k] for k in ("kind", "proc", "flav", "hq", "nfff", "x", "order", "cls")})
        ctx.count(1, nontrivial_key=ln["oid"] if ln["d"] and ln["d"][0] > 1000 else None)
    for ln in lines[:: max(1, len(lines) // 3)][:3]:
        ctx.sample({k: v for k, v in ln.items() if k != "oid"})
    bad = ctx.tlc_validate("Trace_C08", "Trace.cfg", [{k: v for k, v in ln.items() if k != "note"} for ln in lines])
    ctx.selftest("Trace_C08", "Trace.cfg", [{k: v for k, v in ln.items() if k not in ('note',)} for ln in lines if ln["oid"] not in bad and (ln["outcome"] == "OK")], [
        ("constant", lambda l: dict(l, d=[max(l["d"][0], 400000)] * 5)),
        ("growing", lambda l: dict(l, d=[10 ** (i + 3) for i in range(5)])),
        ("short", lambda l: dict(l, d=l["d"][:4])),
        ("finite", lambda l: dict(l, finite=False))])
    by = {ln["oid"]: ln for ln in lines}
    for oid, clause in bad.items():
        ln = by[oid]
        key = f"{ln['proc']}:{ln['kind']}_{ln['flav']}:NfFF{ln['nfff']}:order{ln['order']}:{ln['cls']}:{clause}"
        ctx.violation(key, f"{ln['kind']}_{ln['flav']} {ln['proc']} NfFF={ln['nfff']} x={ln['x']} order {ln['order']} rows {ln['cls']}: {clause} "
                      f"[{ln['note']}]", dict(kind="C08", job=[ln["kind"], ln["proc"], ln["flav"], ln["hq"], ln["nfff"], ln["x"]]))


def replay(ctx, obj):
    lines = job_run(tuple(obj["job"]))
    for ln in lines:
        ln["oid"] = "r" + str(ln["order"]) + ln["cls"]
    bad = ctx.tlc_validate("Trace_C08", "Trace.cfg", [{k: v for k, v in ln.items() if k != "note"} for ln in lines])
    for ln in lines:
        print(ln["order"], ln["cls"], ln["note"], "->", bad.get(ln["oid"], "ok"))
    return 1 if bad else 0
