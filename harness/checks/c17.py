"""C17 - applying a PDF contracts the operator with the right scales and couplings.

Spec |= P : OutputIO.tla - the prediction as a polynomial in LR = ln(1/xiR^2), LF = ln(1/xiF^2) with exact rational
            coefficients (LogCoeff); TLC proves linearity in the PDF and independence of partons the PDF lacks
            (MC_ApplyPdf).  FlavourNumber/Cards give the nf policy of the coupling (NfFF in fixed / FONLL cards,
            threshold-following on the card's (m k)^2 in ZM-VFNS).
Code ~ Spec: TLC emits integer operators, integer PDF tables (depending on the factorisation scale), rational couplings
            (depending on the renormalisation scale) and the exact prediction at LR, LF in {0,1,2} (xi = 1, e^-1/2, e^-1);
            the real apply_pdf_alphas_alphaqed_xir_xif is run with table-driven fakes that also record the scales they are
            called at; Trace_C17 recomputes the formula.  For apply_pdf_theory the captured alpha_s callable is compared
            with an independent closed-form one-loop running through the card's matching scales (nf policy from TLC).
"""
import math

import numpy as np

from .. import cards, common

PIDS = [21, 1, -2]
GRID = [0.1, 0.5, 1.0]
Q2 = 16.0
XI = [1.0, math.exp(-0.5), math.exp(-1.0)]   # ln(1/xi^2) = 0, 1, 2


class FakePdf:
    def __init__(self, table, has, xif, state, as_int=False):
        self.t, self.has, self.state, self.as_int = table, has, state, as_int
        self.mu2 = Q2 * xif**2

    def hasFlavor(self, pid):
        r = pid in PIDS and self.has[PIDS.index(pid)]
        return int(r) if self.as_int else bool(r)      # (lhapdf-like objects answer with a bool or with 0/1)

    def xfxQ2(self, pid, x, mu2):
        if pid not in PIDS or not self.has[PIDS.index(pid)]:
            self.state["read_missing"] = True
            return 1e99
        if mu2 != self.mu2 or x not in GRID:
            self.state["scales_ok"] = False
        return float(self.t[PIDS.index(pid)][GRID.index(x)]) * x


def execute(ob):
    cards.silence()
    from yadism.esf.result import ESFResult, EXSResult
    from yadism.output import Output

    xs = ob.get("cls") == "XS"
    oname = "XSHERANC_total" if xs else "F2_total"
    line = dict(oid=ob["oid"], kind="pred", cls=ob.get("cls", "SF"), pto=ob["pto"], v=ob["v"], keys=ob["keys"], op=ob["op"], has=ob["has"], aem=ob["aem"],
                pdf=ob["pdf"], **{"as": ob["as"]}, outcome="OK", scales_ok=True, read_missing=False, observed=[], observed_err=[], raw=[])
    out = Output()
    out.update(dict(xgrid=dict(grid=list(GRID), log=True), polynomial_degree=1, is_log=True))
    out["pids"] = list(PIDS)
    out["projectilePID"] = 11
    r = EXSResult(0.3, Q2, 0.7, None) if xs else ESFResult(0.3, Q2, None)
    # opexp: the same operator in units of 2^-opexp (entries far below 1e-8; the contraction is homogeneous, the rescaling exact)
    unit = 2.0 ** -ob.get("opexp", 0)
    for key, opk in zip(ob["keys"], ob["op"]):
        v = np.array(opk, dtype=float) * unit
        r.orders[tuple(key)] = (v, 2.0 * v)
    out[oname] = [r]
    state = dict(scales_ok=True, read_missing=False)
    try:
        for lr in range(3):
            row, rowe = [], []
            for lf in range(3):
                a_s = float(common.frac(ob["as"][lr]))
                aem = float(common.frac(ob["aem"]))

                def alpha_s(mu, a_s=a_s, lr=lr):
                    if mu != np.sqrt(Q2) * XI[lr]:
                        state["scales_ok"] = False
                    return a_s * 4 * np.pi

                def alpha_qed(mu, aem=aem, lr=lr):
                    if mu != np.sqrt(Q2) * XI[lr]:
                        state["scales_ok"] = False
                    return aem
                pdf = FakePdf(ob["pdf"][lf], ob["has"], XI[lf], state, as_int=bool(ob.get("opexp")) or xs)
                p = out.apply_pdf_alphas_alphaqed_xir_xif(pdf, alpha_s, alpha_qed, XI[lr], XI[lf])[oname][0]
                if xs and p.get("y") != 0.7:
                    line["outcome"] = "Crash_LostY"
                e = common.frac(ob["expect"][lr][lf])
                row.append(common.snap(float(p["result"]) / unit, e, rel=1e-11, abs_=1e-12))
                rowe.append(common.snap(float(p["error"]) / unit, 2 * e, rel=1e-11, abs_=1e-12))
                line["raw"].append(float(p["result"]) / unit)
            line["observed"].append(row)
            line["observed_err"].append(rowe)
    except Exception as ex:
        line["outcome"] = "Crash_" + type(ex).__name__
    line["scales_ok"], line["read_missing"] = state["scales_ok"], state["read_missing"]
    return line


# ---------------------------------------------------------------- alpha_s of apply_pdf_theory
def beta0(nf):
    return 11.0 - 2.0 / 3.0 * nf


def oneloop_path(a_ref, q2ref, nfref, thr, mu2, nf_to):
    """a_s = alpha_s/4pi at mu2 with nf_to flavours: one-loop running, continuous matching at the matching scales thr[nf]
    (scale at which quark nf becomes active), walking from (q2ref, nfref) to nf_to as the threshold landscape prescribes."""
    a, q2, nf = a_ref, q2ref, nfref

    def run(a, q2a, q2b, nf):
        return a / (1.0 + beta0(nf) * a * math.log(q2b / q2a))
    while nf != nf_to:
        if nf < nf_to:
            wall = thr[nf + 1]
            a, q2, nf = run(a, q2, wall, nf), wall, nf + 1
        else:
            wall = thr[nf]
            a, q2, nf = run(a, q2, wall, nf), wall, nf - 1
    return run(a, q2, mu2, nf)


def execute_alpha(ob):
    cards.silence()
    from yadism.output import Output

    m = [float(common.frac(v)) for v in ob["m"]]
    k = [float(common.frac(v)) for v in ob["k"]]
    line = dict(oid=ob["oid"], kind="alphas", fns=ob["fns"], nfff=ob["nfff"], m=ob["m"], k=ob["k"], probes=ob["probes"],
                nf=list(ob["nf"]), outcome="OK", ref_milli=0, run_milli=0, modev_milli=0, note="")
    qref, nfref, aref = 9.0, 5, 0.2
    th = cards.theory(PTO=0, PTODIS=0, FNS=ob["fns"], NfFF=ob["nfff"], mc=m[0], mb=m[1], mt=m[2], kcThr=k[0], kbThr=k[1],
                      ktThr=k[2], Qmc=m[0], Qmb=m[1], Qmt=m[2], Qref=qref, nfref=nfref, alphas=aref, Q0=1.0, MaxNfAs=6, MaxNfPdf=6)
    out = Output()
    out.theory = th
    got = {}
    out.apply_pdf_alphas_alphaqed_xir_xif = lambda pdf, a_s, a_qed, xir, xif: got.update(a_s=a_s, xir=xir, xif=xif)
    try:
        out.apply_pdf(None)
    except Exception as ex:
        line["outcome"] = ("Reject_" if isinstance(ex, ValueError) else "Crash_") + type(ex).__name__
        line["note"] = str(ex)[:200]
        return line
    a_s = got["a_s"]
    thr = {4: (m[0] * k[0]) ** 2, 5: (m[1] * k[1]) ** 2, 6: (m[2] * k[2]) ** 2}
    # at the reference scale the card's value is recovered through the same path (nf policy at Qref^2 may differ from nfref)
    nf_at_ref = [nf for pr, nf in zip(ob["probes"], ob["nf"]) if float(common.frac(pr)) == qref**2][0]
    ref = float(a_s(qref))
    line["ref_milli"] = common.milli(abs(ref - 4 * math.pi * oneloop_path(aref / (4 * math.pi), qref**2, nfref, thr, qref**2, nf_at_ref)),
                                     1e-6 * aref)
    worst = 0
    for pr, nf in zip(ob["probes"], ob["nf"]):
        mu2 = float(common.frac(pr))
        exp = 4 * math.pi * oneloop_path(aref / (4 * math.pi), qref**2, nfref, thr, mu2, nf)
        obs = float(a_s(math.sqrt(mu2)))
        mm = common.milli(abs(obs - exp), 1e-6 * exp)
        if mm > worst:
            worst = mm
            line["note"] = f"mu2={mu2} nf={nf}: alpha_s code={obs!r} oracle={exp!r}"
    line["run_milli"] = worst
    # the METHOD of the running follows the card whatever spelling of it the card uses: at NNLO every name of the expanded family gives
    # the running of "EXP", every name of the exact family the running of "EXA", the two differ, an unknown name is refused
    fam = {"EXA": ("iterate-exact", "perturbative-exact", "decompose-exact"),
           "EXP": ("iterate-expanded", "perturbative-expanded", "decompose-expanded", "TRN", "truncated", "ordered-truncated")}

    def running(name):
        o2 = Output()
        o2.theory = dict(th, PTO=2, PTODIS=2, ModEv=name)
        g2 = {}
        o2.apply_pdf_alphas_alphaqed_xir_xif = lambda pdf, a_s, a_qed, xir, xif: g2.update(a_s=a_s)
        o2.apply_pdf(None)
        return [float(g2["a_s"](math.sqrt(mu2))) for mu2 in (2.3, 9.0, 700.0)]
    try:
        base = {k: running(k) for k in fam}
        dev = max(abs(a - b) / abs(b) for k, names in fam.items() for n in names for a, b in zip(running(n), base[k]))
        split = max(abs(a - b) / abs(b) for a, b in zip(base["EXA"], base["EXP"]))
        try:
            running("no-such-method")
            refused = False
        except ValueError:
            refused = True
        line["modev_milli"] = max(common.milli(dev, 1e-13), 0 if split > 1e-6 else 2**30, 0 if refused else 2**30)
        if line["modev_milli"] > 1000:
            line["note"] += f" method spellings: worst deviation within a family {dev:.3e}, exact vs expanded {split:.3e}, unknown name refused: {refused}"
    except Exception as ex:
        line["outcome"] = "Crash_" + type(ex).__name__
        line["note"] = "method spellings: " + str(ex)[:160]
    return line


def run(ctx):
    q = ctx.quick
    ctx.cov["rule"] = ("pred obligations = key sets up to pto 0..3 (+ a key with a power of alpha_qed) x operator/PDF/mask/coupling "
                       "variants, each at 9 (xiR, xiF) pairs; alphas obligations = scheme x NfFF x masses x matching ratios at 9 "
                       "scales; non-trivial = every obligation (all have non-zero expectations)")
    ctx.cov["trusted_base"] = ["TLC", "numpy", "math.log/exp"]
    ctx.assumptions.append("alpha_s oracle is the closed-form one-loop running (PTO=0 cards); higher orders of the running are eko's")
    ctx.tlc_check("MC_ApplyPdf", common.cfg_text({}, invariants=["Inv_Linear", "Inv_Missing"]), coverage=False, min_states=500, min_depth=2)
    out2 = ctx.dir / "alphas.ndjson"
    obls = ctx.tlc_emit("Emit_C17", common.cfg_text(dict(PTOS={0, 1, 2, 3}, VARIANTS={1, 2, 3} if q else {1, 2, 3, 4, 5, 6, 7, 8, 9}), spec=None),
                        env=dict(OUT2=str(out2)))
    alph = [o for o in common.read_ndjson(out2) if o["valid"]]
    # every obligation on a structure-function result and on a cross-section result (EXSResult: the same contraction, plus y)
    obls = [dict(o, cls=c, opexp=e) for o in obls for c, e in (("SF", 0), ("XS", 0), ("SF", 40))]
    for o in obls:
        o["oid"] = common.oid_of("C17", dict(pto=o["pto"], v=o["v"], cls=o["cls"], opexp=o["opexp"]))
    for o in alph:
        o["oid"] = common.oid_of("C17", {k: o[k] for k in ("fns", "nfff", "m", "k")})
    lines = ctx.pmap(execute, obls, chunksize=2) + ctx.pmap(execute_alpha, alph, chunksize=4)
    for ln in lines:
        ctx.count(1, nontrivial_key=ln["oid"])
    ctx.sample({k: lines[0][k] for k in ("pto", "v", "keys", "has", "as", "aem", "observed")})
    ctx.sample({k: lines[-1][k] for k in ("fns", "nfff", "m", "k", "probes", "nf", "ref_milli", "run_milli")})
    bad = ctx.tlc_validate("Trace_C17", "Trace.cfg", [{k: v for k, v in ln.items() if k not in ("raw", "note")} for ln in lines])
    ctx.selftest("Trace_C17", "Trace.cfg", [{k: v for k, v in ln.items() if k not in ('raw', 'note')} for ln in lines if ln["oid"] not in bad and (ln["outcome"] == "OK")], [
        ("observed", lambda l: dict(l, observed=[[[l["observed"][0][0][0] + 1, l["observed"][0][0][1]]] + l["observed"][0][1:]] + l["observed"][1:]) if l.get("kind") != "alphas" else None),
        ("scales", lambda l: dict(l, scales_ok=False) if l.get("kind") != "alphas" else None),
        ("missing", lambda l: dict(l, read_missing=True) if l.get("kind") != "alphas" else None),
        ("nf", lambda l: dict(l, nf=[l["nf"][0] + 1] + l["nf"][1:]) if l.get("kind") == "alphas" else None),
        ("running", lambda l: dict(l, run_milli=3000) if l.get("kind") == "alphas" else None),
        ("method", lambda l: dict(l, modev_milli=3000) if l.get("kind") == "alphas" else None)])
    by = {ln["oid"]: ln for ln in lines}
    allob = {o["oid"]: o for o in obls + alph}
    for oid, clause in bad.items():
        ln = by[oid]
        if ln["kind"] == "pred":
            key = f"pred:{ln['cls']}{'.tiny' if allob[oid].get('opexp') else ''}:pto{ln['pto']}:v{ln['v']}:{clause}"
            what = f"apply_pdf on integer operators ({ln['cls']} result, keys up to pto {ln['pto']}, variant {ln['v']}): {clause}"
        else:
            key = f"alphas:{ln['fns']}{ln['nfff']}:m{ln['m']}:k{ln['k']}:{clause}"
            what = f"apply_pdf_theory coupling for {ln['fns']} NfFF={ln['nfff']} k={ln['k']}: {clause} {ln['note']}"
        ctx.violation(key, what, dict(kind="C17", obligation=allob[oid]))


def replay(ctx, obj):
    o = obj["obligation"]
    ln = execute_alpha(o) if o.get("kind") == "alphas" else execute(o)
    bad = ctx.tlc_validate("Trace_C17", "Trace.cfg", [{k: v for k, v in ln.items() if k not in ("raw", "note")}])
    print({k: v for k, v in ln.items() if k in ("observed", "raw", "note", "ref_milli", "run_milli", "outcome")}, "verdict:", bad.get(ln["oid"], "ok"))
    return 1 if bad else 0
