"""C14 - results do not depend on request history or cache state.

Spec |= P : RunLoop.tla (runner loop, SF caches keyed as the code keys them, lazily created SFs, TMC/XS request
            plans, local memo, scale-variation operator memo, repeated get_result) model-checked exhaustively over all
            plans of a small kinematic universe: SlotsIdeal, CacheCoherent, AllFilledAtReturn, SlotsStable.
Spec -> Code: Emit_C14 - TLC draws request plans from the plan space of MC_RunLoop instantiated on the real kinematic
            universe (observables incl. both card spellings, TMC modes, 1-3 points in either dict order, 1-2 calls); the
            real runner executes them.
Code ~ Spec: real Runner executions of these and of seeded plans (permutations, duplicates, repeated Q2, dict field order,
            points sitting exactly on the Nachtmann xi of other points and on grid nodes, cross sections, TMC modes,
            two get_result calls) are recorded (harness/recorder.py) and validated by Trace_C14: every step must be a
            step of RunLoop with the same drop_cache calls and the same computations, and the result digest must be
            a function of the history-free ideal term across ALL recorded runs (bit-for-bit).
"""
import itertools
import json
import random

import numpy as np

from .. import cards, common, recorder, session

NAMES = {"F2": "F2_total", "FL": "FL_total", "XS": "XSHERANCAVG_total", "F2s": "F2"}   # "F2s": the short card spelling of F2_total
RNAMES = {v: k for k, v in NAMES.items()}
QS = [10.0, 40.0, 0.8, 0.5]   # nf = 4, 5, 3, 3 with mc=2, mb=5; the last two overlap numerically with x values
QSORT = sorted(QS)            # Q2 ids are assigned in ascending order (the runner sorts elements by Q2)
NFQ = {10.0: 4, 40.0: 5, 0.8: 3, 0.5: 3}
MP = 0.938
YVAL = 0.4
GRID_N = 10


def xi_of(x, Q2):
    mu = MP**2 / Q2
    rho = np.sqrt(1 + 4 * x**2 * mu)
    return float(2 * x / (1 + rho))


def universe():
    """All x values that can appear, their ids, and the header functions of the specification."""
    from eko.interpolation import InterpolatorDispatcher, XGrid

    xg = cards.make_grid(GRID_N // 2, GRID_N - GRID_N // 2, x_min=1e-2)
    xb = 0.35
    user = [xb] + [xi_of(xb, q) for q in QS[:2]] + [xg[6], 0.5, 0.8, xb + 4e-7]    # (last: a distinct request 4e-7 away from xb)
    allx = set(user) | set(xg)
    for x in user:
        for q in QS:
            allx.add(xi_of(x, q))
    xs = sorted(allx)
    xid = {x: i + 1 for i, x in enumerate(xs)}
    interp = InterpolatorDispatcher(XGrid(xg, True), 3, mode_N=False)
    shift, nodes = [], []
    for x in xs:
        srow, nrow = [], []
        for q in QSORT:
            if x in user:
                xi = xi_of(x, q)
                srow.append(xid[xi])
                nrow.append([xid[xj] for xj, pj in zip(xg, interp) if not pj.is_below_x(xi)])
            else:
                srow.append(0)
                nrow.append([])
        shift.append(srow)
        nodes.append(nrow)
    hdr = dict(shift=shift, nodes=nodes, nf=[NFQ[q] for q in QSORT],
               user=[xid[x] for x in user[:4]], uq=[QSORT.index(q) + 1 for q in QS])   # what Emit_C14 may request
    return xg, user, xid, hdr


def make_plans(seed, quick):
    rng = random.Random(seed)
    xg, user, xid, hdr = universe()
    reqs = [(x, q) for x in user[:4] for q in QS[:2]]
    plans = []

    def kin(x, q, swapped, xs=False):
        d = [["Q2", q], ["x", x]] if swapped else [["x", x], ["Q2", q]]
        if xs:
            d.append(["y", YVAL])
        return d

    def rand_kins(n, name, allow_swap=True):
        return [kin(*rng.choice(reqs), swapped=allow_swap and rng.random() < 0.3, xs=(name == "XS")) for _ in range(n)]

    tmcs = [0, 1, 2, 3]
    # systematic core: the collision pairs in both orders, alone and together, for every TMC mode
    xb, xa1, xa2, xn = user[:4]
    for t in tmcs:
        # x and Q2 values that coincide numerically, written in different field orders
        plans.append((t, 1, [("F2", [kin(0.5, 0.8, False), kin(0.8, 0.5, True)])]))
        plans.append((t, 1, [("F2", [kin(0.8, 0.5, True)])]))
        plans.append((t, 1, [("F2", [kin(0.8, 0.5, False), kin(0.5, 0.8, False)])]))
        for q, xa in zip(QS, (xa1, xa2)):
            for order in ([xb, xa], [xa, xb], [xa], [xb], [xn, xb], [xb, xn]):
                plans.append((t, 1, [("F2", [kin(x, q, False) for x in order])]))
        plans.append((t, 1, [("F2", [kin(xb, QS[0], False), kin(xb, QS[1], False)])]))
        plans.append((t, 1, [("F2", [kin(xb, QS[1], False), kin(xb, QS[0], False)])]))
        plans.append((t, 1, [("F2", [kin(xb, QS[1], False)])]))
        # two distinct requests that agree to six decimals, together in both orders and alone
        xc = user[6]
        plans.append((t, 1, [("F2", [kin(xb, QS[0], False), kin(xc, QS[0], False)])]))
        plans.append((t, 1, [("F2", [kin(xc, QS[0], False), kin(xb, QS[0], False)])]))
        plans.append((t, 1, [("F2", [kin(xc, QS[0], False)])]))
        # three and four distinct virtualities listed in an order that is NOT a self-inverse permutation of the sorted one
        plans.append((t, 1, [("F2", [kin(xb, QS[1], False), kin(xb, QS[3], False), kin(xb, QS[0], False)])]))
        plans.append((t, 1, [("FL", [kin(xb, QS[0], False), kin(xb, QS[1], True), kin(xb, QS[3], False), kin(xb, QS[2], False)])]))
        plans.append((t, 2, [("FL", [kin(xb, QS[0], False), kin(xa1, QS[0], True)]), ("F2", [kin(xa1, QS[0], False)])]))
        plans.append((t, 1, [("F2", [kin(xa1, QS[0], False)]), ("FL", [kin(xb, QS[0], False), kin(xa1, QS[0], True)])]))
        plans.append((t, 1, [("XS", [kin(xb, QS[0], False, True)]), ("F2", [kin(xb, QS[0], False)])]))
        plans.append((t, 1, [("F2", [kin(xb, QS[0], False)]), ("XS", [kin(xb, QS[0], False, True), kin(xb, QS[1], True, True)])]))
        # both spellings of the same structure function side by side, different kinematics, both orders
        plans.append((t, 1, [("F2s", [kin(xb, QS[0], False), kin(xa1, QS[0], False)]), ("F2", [kin(xn, QS[1], False)])]))
        plans.append((t, 2, [("F2", [kin(xn, QS[1], False)]), ("F2s", [kin(xb, QS[0], False), kin(xa1, QS[0], False)])]))
    # seeded random histories
    n_rand = 24 if quick else 260
    for _ in range(n_rand):
        t = rng.choice(tmcs)
        nobs = rng.choice([1, 2, 2, 3])
        names = rng.sample(["F2", "FL", "XS", "F2s"], nobs)
        plan = [(n, rand_kins(rng.choice([1, 2, 3]), n)) for n in names]
        plans.append((t, rng.choice([1, 1, 2]), plan))
    return plans, hdr, xid


def execute(job):
    """One real Runner execution of a plan; returns the recorded trace lines (floats still raw)."""
    tid, tmc, ncalls, plan = job[:4]
    target = job[4] if len(job) > 4 else "proton"
    xg = cards.make_grid(GRID_N // 2, GRID_N - GRID_N // 2, x_min=1e-2)
    th = cards.theory(PTO=1, PTODIS=1, FNS="ZM-VFNS", mc=2.0, mb=5.0, mt=170.0, TMC=tmc, MP=MP, Q0=1.0)
    obsd = {}
    alias = bool(job[5]) if len(job) > 5 else False
    memo = {}
    for n, ks in plan:
        if alias:
            # the card shares objects: equal points are ONE dict, equal point lists ONE list (pts = [...]; {"F2": pts, "FL": pts})
            lst = memo.setdefault(("list", json.dumps(ks)), [memo.setdefault(json.dumps(kd), {k: v for k, v in kd}) for kd in ks])
            obsd[NAMES[n]] = lst
        else:
            obsd[NAMES[n]] = [{k: v for k, v in kd} for kd in ks]
    ob = cards.obs(obsd, xgrid=xg, deg=3, prDIS="EM", TargetDIS=target)
    cards.silence()
    from yadism import runner as yr

    rec = recorder.Recorder()
    lines = [dict(tid=tid, ev="Begin", tmc=tmc, ncalls=ncalls, plan=[[n, ks] for n, ks in plan])]
    names = [NAMES[n] for n, _ in plan]
    with rec.installed():
        try:
            r = yr.Runner(th, ob)
            rec.wrap_elements(r, names)
            for _ in range(ncalls):
                out = r.get_result()
                rec.call_end(out, names)
        except Exception as ex:
            rec.log.append(dict(ev="Crash", etype=type(ex).__name__, msg=str(ex)[:200]))
    for e in rec.log:
        e["tid"] = tid
        lines.append(e)
    return lines


def to_ids(lines, xid, dig):
    """Projection onto the abstract state of RunLoop: float kinematics -> ids, sha1 -> small digest ids."""
    qid = {q: i + 1 for i, q in enumerate(QSORT)}

    def did(d):
        return dig.setdefault(d, len(dig) + 1)

    out = []
    for e in lines:
        if e["ev"] == "Begin":
            plan = []
            for n, ks in e["plan"]:
                kk = []
                for kd in ks:
                    kk.append([[k, (xid[v] if k == "x" else qid[v] if k == "Q2" else 0)] for k, v in kd])
                plan.append(dict(name=n, kins=kk))
            out.append(dict(tid=e["tid"], ev="Begin", tmc=e["tmc"], ncalls=e["ncalls"], plan=plan))
        elif e["ev"] == "Elem":
            evs = []
            for s in e["events"]:
                if s[0] == "Compute":
                    evs.append(["Compute", RNAMES.get(s[1], s[1]), xid.get(s[2], 0), qid.get(s[3], 0)])
                else:
                    evs.append(s)
            out.append(dict(tid=e["tid"], ev="Elem", obs=RNAMES[e["obs"]], x=xid[e["x"]], q=qid[e["Q2"]], drops=e["drops"],
                            events=evs, digest=did(e["digest"])))
        elif e["ev"] == "CallEnd":
            out.append(dict(tid=e["tid"], ev="CallEnd", drops=e["drops"], slots=[[did(d) for d in row] for row in e["slots"]]))
        else:
            out.append(dict(e))
    return out


TRACE_CFG = common.cfg_text(dict(KeyMode="byname"), dict(ShiftOf="HdrShift", NodesOf="HdrNodes", NfOf="HdrNf"),
                            invariants=["SlotsIdeal", "CacheCoherent", "AllFilledAtReturn"], spec="TraceSpec")


def validate(ctx, traces, hdr, name):
    """Returns {tid: clause} of rejected runs."""
    hf = ctx.dir / f"{name}.header.json"
    hf.write_text(json.dumps(hdr))
    tf = ctx.dir / f"{name}.trace.ndjson"
    rows = [e for t in traces for e in t] + [dict(ev="EOF", tid=-2)]
    common.write_ndjson(tf, rows)
    r = common.run_tlc("Trace_C14", TRACE_CFG, workdir=ctx.dir / f"tlc_{name}", env=dict(HEADER_FILE=hf, TRACE_FILE=tf),
                       workers=1)
    out = r["out"]
    import re

    bad = {}
    for m in re.finditer(r'<<\s*"VERDICT",\s*"(-?\d+)",\s*"([^"]+)"\s*>>', out):
        bad.setdefault(int(m.group(1)), m.group(2))
    notes = {}
    for m in re.finditer(r'<<\s*"NOTE",\s*"(-?\d+)",\s*"([^"]+)",\s*(\d+)\s*>>', out):
        notes.setdefault(int(m.group(1)), f"{m.group(2)}@line{m.group(3)}")
    ctx.cov["conformance_notes"] = ctx.cov.get("conformance_notes", 0) + len(notes)
    ctx.cov.setdefault("conformance_note_samples", []).extend(list(notes.values())[:5])
    ctx.cov["runs_followed_by_spec_to_the_end"] = ctx.cov.get("runs_followed_by_spec_to_the_end", 0) + len(traces) - len(notes) - len(bad)
    if not r["ok"]:
        inv = r.get("invariant_violated")
        if inv:
            # an invariant of RunLoop failed on a recorded execution: find the run it happened in
            m = re.findall(r"/\\ l = (\d+)", out)
            at = int(m[-1]) if m else 0
            tid = rows[min(at, len(rows)) - 1]["tid"] if at else -1
            bad[tid] = f"invariant_{inv}_violated_on_recorded_run"
        else:
            raise common.MachineryError(f"Trace_C14 did not complete: {out[-2000:]}")
    else:
        m = re.search(r'<<\s*"CONSUMED",\s*(\d+)\s*>>', out)
        if not m or int(m.group(1)) != len(rows) - 1:
            raise common.MachineryError(f"Trace_C14 consumed {m.group(1) if m else '?'} of {len(rows) - 1} lines:\n{out[-1500:]}")
    ctx.cov["traces_validated_against_impl"] += len(traces)
    ctx.cov["tlc_runs"].append(dict(module="Trace_C14", cfg=name, states=r["distinct"], wall_s=round(r["wall"], 1),
                                    role="validate", lines=len(rows), rejected=len(bad)))
    return bad


def mc_cfg(key, **c):
    base = dict(KeyMode=key, MaxPts=2, MaxObs=1, AllowSwapped=True, TMCS={0, 1}, MaxCalls=1, OBS={"F2"})
    base.update(c)
    return common.cfg_text(base, dict(ShiftOf="MCShift", NodesOf="MCNodes", NfOf="MCNf"),
                           invariants=["SlotsIdeal", "CacheCoherent", "AllFilledAtReturn", "ComputeOnce"],
                           properties=["SlotsStable"], view="View")


def run(ctx):
    q = ctx.quick
    ctx.cov["rule"] = ("histories = plans (observable order, kinematic lists with duplicates / repeated Q2 / dict field order / "
                       "points on xi of other points and on grid nodes, TMC mode, number of get_result calls); systematic core "
                       "plus seeded random plans; non-trivial = recorded run with at least two elements or two calls")
    ctx.cov["trusted_base"] = ["TLC", "sha1 of value/error bytes", "eko is_below_x (header NodesOf)"]
    # 1. Spec |= P, exhaustive over all plans of the small universe
    ctx.tlc_check("MC_RunLoop", mc_cfg("byname", MaxObs=1, AllowSwapped=True, TMCS={0, 1, 2, 3}, MaxCalls=2, OBS={"F2", "FL", "XS"}),
                  coverage=False, min_states=1000, min_depth=8)   # depth 8 = two calls of a two-point observable (Again taken)
    ctx.tlc_check("MC_RunLoop", mc_cfg("byname", MaxObs=2, AllowSwapped=False, TMCS={0, 1} if q else {0, 1, 2, 3},
                                       MaxCalls=1 if q else 2, OBS={"F2", "FL", "XS"}),
                  coverage=False, min_states=10000, timeout=3000)
    # the two spellings of one structure function in one card (an SF object each, shared internals)
    ctx.tlc_check("MC_RunLoop", mc_cfg("byname", MaxObs=2, AllowSwapped=False, TMCS={0, 1} if q else {0, 1, 2, 3},
                                       MaxCalls=1 if q else 2, OBS={"F2", "F2s"} if q else {"F2", "F2s", "XS"}),
                  coverage=False, min_states=10000, timeout=3000)
    # sensitivity of the model: keyed by the VALUES in dict order (the behaviour before the repair) TLC must find the collision
    r = common.run_tlc("MC_RunLoop", mc_cfg("dictorder"), workdir=ctx.dir / "tlc_dictorder")
    if r["ok"] or r["invariant_violated"] != "SlotsIdeal":
        raise common.MachineryError("model lost its sensitivity: a dict-order cache key must violate SlotsIdeal")
    ctx.cov["negative_control"] = "KeyMode=dictorder violates SlotsIdeal (TLC counterexample found)"
    # 2. recorded executions of the real runner
    plans, hdr, xid = make_plans(ctx.seed, q)
    # specification -> code: plans drawn by TLC from the plan space of MC_RunLoop on the real universe (Emit_C14)
    hf0 = ctx.dir / "emit.header.json"
    hf0.write_text(json.dumps(hdr))
    drawn = ctx.tlc_emit("Emit_C14", common.cfg_text(dict(N=16 if q else 200, MaxPts=3, OBS={"F2", "FL", "XS", "F2s"}, TMCS={0, 1, 2, 3}, MaxCalls=2),
                                                     spec=None), env=dict(HEADER_FILE=str(hf0)), extra=["-seed", str(ctx.seed + 7)])
    xof = {i: x for x, i in xid.items()}
    for d in drawn:
        plan = [(e["name"], [[[k, (xof[v] if k == "x" else QSORT[v - 1] if k == "Q2" else YVAL)] for k, v in kd] for kd in e["kins"]]) for e in d["plan"]]
        plans.append((d["tmc"], d["ncalls"], plan))
    ctx.cov["plans_drawn_by_tlc"] = len(drawn)
    jobs = [(i, t, n, p) for i, (t, n, p) in enumerate(plans)]
    raw = ctx.pmap(execute, jobs, chunksize=2)
    dig = {}
    traces = [to_ids(t, xid, dig) for t in raw]
    for t in traces:
        nel = sum(1 for e in t if e["ev"] == "Elem")
        ctx.count(1, nontrivial_key=t[0]["tid"] if nel >= 2 else None)
    for t in traces[:: max(1, len(traces) // 3)][:3]:
        ctx.sample(t[:6])
    bad = validate(ctx, traces, hdr, "runs")
    for t, rawt in zip(traces, raw):
        tid = t[0]["tid"]
        crash = [e for e in t if e["ev"] == "Crash"]
        if crash and tid not in bad:
            bad[tid] = "crash_" + crash[0]["etype"]
    for tid, clause in sorted(bad.items()):
        t, n, p = plans[tid] if 0 <= tid < len(plans) else (None, None, None)
        desc = json.dumps(dict(tmc=t, ncalls=n, plan=[[nm, [[[k, (round(v, 9) if isinstance(v, float) else v)] for k, v in kd] for kd in ks]] for nm, ks in (p or [])]))
        key = f"history:{common.oid_of('C14', dict(tmc=t, ncalls=n, plan=p))}:{clause}"
        ctx.violation(key, f"{clause} in recorded run {desc}", dict(kind="C14", job=[tid, t, n, p], clause=clause))
    ctx.cov["distinct_digests"] = len(dig)
    # the same histories on a nuclear target (the isospin rotation is applied per kernel, in place on the kernel's own weights):
    # a batch of its own - the ideal term of RunLoop does not name the target, which is constant within the batch
    sub = [(i, t, n, p) for i, (t, n, p) in enumerate(plans) if t in (0, 1)][:: (3 if q else 2)]
    raw2 = ctx.pmap(execute, [j + ("iron",) for j in sub], chunksize=2)
    dig2 = {}
    traces2 = [to_ids(t, xid, dig2) for t in raw2]
    for t in traces2:
        ctx.count(1, nontrivial_key=("iron", t[0]["tid"]) if sum(1 for e in t if e["ev"] == "Elem") >= 2 else None)
    bad2 = validate(ctx, traces2, hdr, "runs_iron")
    for t in traces2:
        tid = t[0]["tid"]
        crash = [e for e in t if e["ev"] == "Crash"]
        if crash and tid not in bad2:
            bad2[tid] = "crash_" + crash[0]["etype"]
    for tid, clause in sorted(bad2.items()):
        t, n, p = plans[tid]
        desc = json.dumps(dict(target="iron", tmc=t, ncalls=n, plan=[[nm, [[[k, (round(v, 9) if isinstance(v, float) else v)] for k, v in kd] for kd in ks]] for nm, ks in p]))
        key = f"history:iron:{common.oid_of('C14', dict(tmc=t, ncalls=n, plan=p))}:{clause}"
        ctx.violation(key, f"{clause} in recorded run {desc}", dict(kind="C14", job=[tid, t, n, p, "iron"], clause=clause))
    # cards that SHARE objects (one point dict / one point list under two observables, the same dict twice in a list): the same
    # plans with and without sharing, validated together - a kinematics dict is a value for the specification
    ali = []
    u = universe()[1]
    for t in ((1, 2) if q else (0, 1, 2, 3)):
        k1, k2 = [["x", u[0]], ["Q2", QS[0]]], [["x", u[1]], ["Q2", QS[0]]]
        ali.append((t, 1, [("F2", [k1, k2]), ("FL", [k1, k2])]))
        ali.append((t, 2, [("FL", [k1, k1, k2])]))
        ali.append((t, 1, [("F2", [k2, k1]), ("F2s", [k2, k1])]))
    jobs3 = [(1000 + 2 * i + a, t, n, p, "proton", bool(a)) for i, (t, n, p) in enumerate(ali) for a in (0, 1)]
    raw3 = ctx.pmap(execute, jobs3, chunksize=1)
    dig3 = {}
    traces3 = [to_ids(t, xid, dig3) for t in raw3]
    for t in traces3:
        ctx.count(1, nontrivial_key=("alias", t[0]["tid"]))
    bad3 = validate(ctx, traces3, hdr, "runs_alias")
    for t in traces3:
        crash = [e for e in t if e["ev"] == "Crash"]
        if crash and t[0]["tid"] not in bad3:
            bad3[t[0]["tid"]] = "crash_" + crash[0]["etype"]
    for tid, clause in sorted(bad3.items()):
        _i, t, n, p, _tg, a = next(j for j in jobs3 if j[0] == tid)
        desc = json.dumps(dict(shared_objects=a, tmc=t, ncalls=n, plan=[[nm, [[[k, (round(v, 9) if isinstance(v, float) else v)] for k, v in kd] for kd in ks]] for nm, ks in p]))
        key = f"history:alias:{common.oid_of('C14', dict(tmc=t, ncalls=n, plan=p))}:{clause}"
        ctx.violation(key, f"{clause} in recorded run {desc}", dict(kind="C14", job=[tid, t, n, p, "proton", a], clause=clause))
    selftest(ctx, [t for t in traces if t[0]["tid"] not in bad], hdr, len(dig))
    # the level above one runner: several runners of different configurations alive in one process (Session.tla)
    session.run(ctx)


def selftest(ctx, good, hdr, ndig):
    """Binding self-test: accepted recorded runs are replayed to the trace specification with ONE recorded field corrupted
    (an element digest, a slot digest, a missing slot, a crash marker); each corrupted copy must be rejected."""
    import copy

    base = next((t for t in good if sum(1 for e in t if e["ev"] == "Elem") >= 2 and any(e["ev"] == "CallEnd" for e in t)), None)
    if base is None:
        return
    def corrupt(tid, fn):
        t = copy.deepcopy(base)
        for e in t:
            e["tid"] = tid
        return fn(t)
    def elem_digest(t):
        next(e for e in t if e["ev"] == "Elem")["digest"] = ndig + 7
        return t
    def slot_digest(t):
        e = next(e for e in t if e["ev"] == "CallEnd")
        e["slots"][0][0] = ndig + 8
        return t
    def slot_missing(t):
        e = next(e for e in t if e["ev"] == "CallEnd")
        e["slots"][0] = e["slots"][0][:-1]
        return t
    def crash(t):
        i = next(i for i, e in enumerate(t) if e["ev"] == "CallEnd")
        return t[:i] + [dict(tid=t[0]["tid"], ev="Crash", etype="KeyError", msg="x")]
    cases = [("elem_digest", elem_digest, "result_depends_on_history"), ("slot_digest", slot_digest, "result_depends_on_history"),
             ("slot_missing", slot_missing, "slot_count_differs"), ("crash", crash, "crash_KeyError")]
    muts = [corrupt(900001 + i, fn) for i, (_n, fn, _c) in enumerate(cases)]
    saved = {k: copy.deepcopy(ctx.cov.get(k)) for k in ("conformance_notes", "conformance_note_samples", "runs_followed_by_spec_to_the_end",
                                                        "traces_validated_against_impl", "tlc_runs")}
    bad = validate(ctx, [base] + muts, hdr, "selftest")
    ctx.cov.update(saved)
    wrong = [n for i, (n, _f, c) in enumerate(cases) if bad.get(900001 + i) != c]
    ctx.cov.setdefault("binding_selftest", {})["Trace_C14"] = dict(corrupted_runs=len(cases), rejected=len(cases) - len(wrong), fields=[n for n, _f, _c in cases])
    if wrong or base[0]["tid"] in bad:
        raise common.MachineryError(f"binding self-test: Trace_C14 verdicts {bad} for corruptions {[n for n, _f, _c in cases]}")


def replay(ctx, obj):
    if obj.get("kind") == "C14session":
        return session.replay(ctx, obj)
    tid, t, n, p = obj["job"][:4]
    tgt = tuple(obj["job"][4:6])
    plans, hdr, xid = make_plans(obj.get("seed", 0), True)
    # the offending run together with solo runs of each of its requests (the history-free reference)
    jobs = [(0, t, n, p) + tgt]
    k = 1
    for nm, ks in p:
        for kd in ks:
            jobs.append((k, t, 1, [(nm, [kd])]) + tgt)
            k += 1
    raw = [execute(j) for j in jobs]
    dig = {}
    traces = [to_ids(tr, xid, dig) for tr in raw[1:]] + [to_ids(raw[0], xid, dig)]
    bad = validate(ctx, traces, hdr, "replay")
    print("plan:", p, "tmc:", t, "calls:", n, "verdicts:", bad or "ok")
    return 1 if bad else 0
