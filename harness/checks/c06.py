"""C06 - the number of active flavours follows the thresholds and the scheme.

Spec |= P : FlavourNumber.tla - NfActive (count of matching scales <= Q2) = the walls/digitize reading = the
            position-class reading, for every theory of the lattice (incl. coincident scales) and every class
            {below, pred, at, succ, above} of every matching scale; fixed schemes have nf = NfFF at every Q2;
            massive flags per scheme (MC_Cards).
Code ~ Spec: TLC emits (theory, threshold, class) with exact nf and beta0; the driver instantiates exactly
            representable masses/ratios, Q2 exactly at / one ulp below / above each matching scale, runs all points
            of a theory in ONE real run at PTODIS=2 and reads nf from the OUTPUT only: active quark rows at LO and
            orders[(2,0,1,0)] = -beta0(nf) orders[(1,0,0,0)].  Trace_C06 (TLC) recomputes nf and beta0.
"""
import math

import numpy as np

from .. import cards, common


def q2_of(thr, cls):
    if cls == "at":
        return thr
    if cls == "pred":
        return math.nextafter(thr, 0.0)
    if cls == "succ":
        return math.nextafter(thr, math.inf)
    return thr * (0.9 if cls == "below" else 1.1)


def execute(group):
    """One real run for all probes of one theory."""
    obls = group["obls"]
    o0 = obls[0]
    m = [float(common.frac(v)) for v in o0["m"]]
    k = [float(common.frac(v)) for v in o0["k"]]
    q2s = []
    for o in obls:
        thr = float(common.frac(o["thr"]))
        assert thr == (m[o["i"] - 1] ** 2) * (k[o["i"] - 1] ** 2), "matching scale not exactly representable"
        q2s.append(q2_of(thr, o["cls"]) if not o.get("unordered") else thr * 1.1)
    th = cards.theory(PTO=2, PTODIS=2, FNS=o0["fns"], NfFF=o0["nfff"], mc=m[0], mb=m[1], mt=m[2], kcThr=k[0], kbThr=k[1],
                      ktThr=k[2], Q0=1.0)
    xg = cards.make_grid(4, 4, x_min=1e-2)
    ob = cards.obs({n: [dict(x=0.2, Q2=q) for q in q2s] for n in ("F2_light", "F2_total")}, xgrid=xg, deg=3, prDIS="EM")
    lines = []
    try:
        out = cards.run(th, ob)
        err = None
    except Exception as ex:
        err = ("Reject_" if isinstance(ex, (ValueError, NotImplementedError)) else "Crash_") + type(ex).__name__
    pids = None if err else list(out["pids"])
    for j, o in enumerate(obls):
        ln = dict(oid=o["oid"], fns=o["fns"], nfff=o["nfff"], m=o["m"], k=o["k"], i=o["i"], cls=o["cls"], outcome=err or "OK",
                  nf_rows=0, beta0=[0, 1], beta0_total=[0, 1], raw="")
        if not err:
            r = out["F2_light"][j]
            lo = r.orders[(0, 0, 0, 0)][0]
            nfr = 0
            for q in range(1, 7):
                if np.any(lo[pids.index(q)] != 0) or np.any(lo[pids.index(-q)] != 0):
                    nfr = q
            a = r.orders[(1, 0, 0, 0)][0]
            b = r.orders[(2, 0, 1, 0)][0]
            mask = np.abs(a) > 1e-6 * np.abs(a).max()
            ratios = -(b[mask] / a[mask])
            b0 = float(np.median(ratios))
            spread = float(np.max(np.abs(ratios - b0)))
            ln["nf_rows"] = nfr
            ln["beta0"] = common.snap(b0 if spread < 1e-8 else float("nan"), common.frac(o["beta0"]), rel=1e-9)
            # every contribution (massive, heavy-quark initiated) runs with the same number of flavours: the ratio on ALL rows of
            # the total, entry by entry
            at, bt = out["F2_total"][j].orders[(1, 0, 0, 0)][0], out["F2_total"][j].orders[(2, 0, 1, 0)][0]
            mt_ = np.abs(at) > 1e-6 * np.abs(at).max()
            rt = -(bt[mt_] / at[mt_])
            b0t = float(np.median(rt))
            spt = float(np.max(np.abs(rt - b0t)))
            ln["beta0_total"] = common.snap(b0t if spt < 1e-8 else float("nan"), common.frac(o["beta0"]), rel=1e-9)
            ln["raw"] = f"Q2={q2s[j]!r} nf_rows={nfr} beta0={b0!r} spread={spread:.1e}; total: beta0={b0t!r} spread={spt:.1e}"
        lines.append(ln)
    return lines


def execute_seq(groups):
    """Several theories one after the other in ONE process (fixed schemes with DEscending, then ascending NfFF)."""
    out = []
    for g in groups:
        out.extend(execute(g))
    return out


def run(ctx):
    q = ctx.quick
    ctx.cov["rule"] = ("(theory, matching scale, position class) triples enumerated by TLC; all probes of a theory in one real "
                       "multi-point run; non-trivial = probe within one ulp of / exactly at a matching scale or in a fixed scheme")
    ctx.cov["trusted_base"] = ["TLC", "numpy", "math.nextafter"]
    lat = dict(NFFFS={3, 4, 5}, MASSES={"a", "b", "c"}, KS={"one", "two", "half", "mix"})
    ctx.tlc_check("MC_Cards", common.cfg_text(lat, invariants=["Inv_NfIsCount", "Inv_Fixed", "Inv_Massive"]),
                  coverage=True, must_cover=("Pick",), min_states=500)
    em = dict(FNSS={"ZM-VFNS", "FFNS", "FONLL-FFNS"} if q else {"ZM-VFNS", "FFNS", "FFN0", "FONLL-FFNS", "FONLL-FFN0"},
              NFFFS={4} if q else {3, 4, 5}, MASSES={"a", "c"} if q else {"a", "b", "c"},
              KS={"one", "two", "mix"} if q else {"one", "two", "half", "mix"})
    obls = ctx.tlc_emit("Emit_C06", common.cfg_text(em, spec=None))
    groups = {}
    for o in obls:
        o["oid"] = common.oid_of("C06", {k: o[k] for k in ("fns", "nfff", "m", "k", "i", "cls")})
        if not o["valid"] and not (o["unordered"] and o["fns"] == "ZM-VFNS" and o["cls"] == "at"):
            continue
        groups.setdefault((o["fns"], o["nfff"], repr(o["m"]), repr(o["k"])), []).append(o)
    ctx.cov["obligations_emitted"] = len(obls)
    jobs = [dict(obls=v) for v in groups.values()]
    res = ctx.pmap(execute, jobs)
    # history at the process level: the fixed-flavour theories of one (masses, ratios) point in one fresh process, the larger NfFF
    # FIRST, then back up (whatever compatibility.update or the runner keep at module level must not leak into the next theory)
    em2 = dict(FNSS={"FFNS", "FFN0"}, NFFFS={3, 4, 5}, MASSES={"a"}, KS={"one"} if q else {"one", "mix"})
    obls2 = [o for o in ctx.tlc_emit("Emit_C06", common.cfg_text(em2, spec=None), name="Emit_C06_seq") if o["valid"]]
    import copy
    seqs = {}
    for o in obls2:
        seqs.setdefault((o["fns"], repr(o["m"]), repr(o["k"])), {}).setdefault(o["nfff"], []).append(o)
    sjobs = []
    for (fns, _m, _k), bynf in seqs.items():
        order = sorted(bynf, reverse=True) + sorted(bynf)[1:]
        grp = []
        for step, nf in enumerate(order):
            g = copy.deepcopy(bynf[nf])
            for o in g:
                o["oid"] = common.oid_of("C06", {k: o[k] for k in ("fns", "nfff", "m", "k", "i", "cls")}) + f"~seq{step}"
            grp.append(dict(obls=g))
            obls.extend(g)
        sjobs.append(grp)
    res += ctx.pmap(execute_seq, sjobs, fresh=True)
    ctx.cov["process_level_sequences"] = [[g["obls"][0]["nfff"] for g in grp] for grp in sjobs][:4]
    lines = [ln for r in res for ln in r]
    for ln in lines:
        ctx.count(1, nontrivial_key=ln["oid"] if (ln["cls"] in ("pred", "at", "succ") or ln["fns"] != "ZM-VFNS") else None)
    for ln in lines[:: max(1, len(lines) // 4)][:4]:
        ctx.sample({k: ln[k] for k in ("fns", "nfff", "m", "k", "i", "cls", "nf_rows", "beta0", "raw")})
    bad = ctx.tlc_validate("Trace_C06", "Trace.cfg", [{k: v for k, v in ln.items() if k != "raw"} for ln in lines])
    by = {ln["oid"]: ln for ln in lines}
    good = [{k: v for k, v in ln.items() if k != "raw"} for ln in lines if ln["oid"] not in bad]
    ctx.selftest("Trace_C06", "Trace.cfg", good, [("nf_rows", lambda l: dict(l, nf_rows=l["nf_rows"] + 1)),
                                                   ("beta0", lambda l: dict(l, beta0=[l["beta0"][0] + 1, l["beta0"][1]])),
                                                   ("beta0_total", lambda l: dict(l, beta0_total=[l["beta0_total"][0] + 1, l["beta0_total"][1]]))])
    ob = {o["oid"]: o for o in obls}
    for oid, clause in bad.items():
        ln = by[oid]
        key = f"{ln['fns']}{ln['nfff']}:m{ln['m']}:k{ln['k']}:thr{ln['i']}:{ln['cls']}:{clause}"
        ctx.violation(key, f"{ln['fns']} NfFF={ln['nfff']} Q2 {ln['cls']} matching scale {ln['i']}: {clause} ({ln['raw']}; "
                      f"expected nf={ob[oid]['nf']})", dict(kind="C06", group=[o for o in obls if o["valid"] and
                      (o["fns"], o["nfff"], o["m"], o["k"]) == (ln["fns"], ln["nfff"], ln["m"], ln["k"])], oid=oid))
    # the number of flavours INSIDE the coefficient functions (their explicit nf dependence starts at a_s^2, nf^2 at a_s^3): a
    # flavour-tagged observable on the massless path must use the same number as the total restricted to that quark's couplings
    # (Theorems.C07_TaggedIsRestricted), on both sides of the next threshold
    from .. import relcheck
    insts = relcheck.emit(ctx, ["TaggedIsRestricted"], PROCS={"NC"} if q else {"EM", "NC"}, PROJS={"e-"}, KINDS={"F2"} if q else {"F2", "FL"},
                          FLAVS={"charm"} if q else {"charm", "bottom"}, SCHEMES={"ZM4", "ZM5"} if q else {"ZM4", "ZM5", "ZM6"}, ORDERS={"33"})
    relcheck.drive_and_validate(ctx, "C06", insts, extra=dict(xs=[0.23]))


def replay(ctx, obj):
    if obj.get("kind") == "relation":
        from .. import relcheck
        return relcheck.replay(ctx, obj)
    lines = execute(dict(obls=obj["group"]))
    bad = ctx.tlc_validate("Trace_C06", "Trace.cfg", [{k: v for k, v in ln.items() if k != "raw"} for ln in lines])
    for ln in lines:
        print(ln["cls"], "thr", ln["i"], ln["raw"], "->", bad.get(ln["oid"], "ok"))
    return 1 if bad else 0
