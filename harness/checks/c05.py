"""C05 - scale-variation terms satisfy the renormalisation-group equations.

Spec |= P : ScaleVar.tla - the tables exactly as the code combines them (sector_mapping, ren_coeffs, binomial split,
            switch filtering, intrinsic denial) in exact rationals; TLC proves RGE_muR (through a_s^3), RGE_muF (through
            a_s^2, against an independently stated NLO DGLAP), SwitchOff, KeysCovered, IntrinsicDenied on generic integer
            instantiations x nf 3..6 x pto 1..3 x every flavour sector (MC_ScaleVar).
Code ~ Spec: (a) replay, exact: the same integer instantiations are injected into the REAL compute_local (operators
            pre-seeded in ScaleVariations.operators, one test kernel per flavour sector); every key and entry of
            res.orders must equal the table TLC recomputes (Trace_C05).  (b) end-to-end: real runs in the four switch
            combinations - switched-off keys exactly zero, every other key bit-identical, key set = build_orders.
            (c) numeric anchor: Mellin moments of each convolved splitting label equal the product of the moments of
            its factors (the side condition LabelsConsistent of the theorems).
"""
import numpy as np

from .. import cards, common

LABELS = {"P_qq_0": "qq0", "P_qg_0": "qg0", "P_gq_0": "gq0", "P_gg_0": "gg0", "P_qq_1": "qq1", "P_qg_1": "qg1",
          "P_nsp_1": "nsp1", "P_nsm_1": "nsm1", "P_qq_0^2": "qq0sq", "P_qg_0P_gq_0": "qg0gq0", "P_qq_0P_qg_0": "qq0qg0",
          "P_qg_0P_gg_0": "qg0gg0"}
Q2_NF = {3: 2.0, 4: 10.0, 5: 50.0}
G = np.array([1.0, 2.0, 3.0, 5.0])


def sector_vectors(sec, nf, pids):
    v = {}
    if sec == "nsp":
        v = {2: 1.0, -2: 1.0, 1: -1.0, -1: -1.0}
    elif sec == "nsm":
        v = {2: 1.0, -2: -1.0, 1: -1.0, -1: 1.0}
    elif sec == "nsv":
        v = {s * q: float(s) for q in range(1, nf + 1) for s in (1, -1)}
    elif sec == "S":
        v = {s * q: 1.0 for q in range(1, nf + 1) for s in (1, -1)}
    elif sec == "G":
        v = {21: 1.0}
    own = np.array([v.get(p, 0.0) for p in pids])
    sing = np.array([1.0 if (p != 21 and p != 22 and abs(p) <= nf) else 0.0 for p in pids])
    glu = np.array([1.0 if p == 21 else 0.0 for p in pids])
    qvec = own if sec in ("nsp", "nsm", "nsv") else sing
    return v, qvec, glu


def execute(ob):
    """Run the REAL compute_local with injected operators and a stub kernel; project the result."""
    cards.silence()
    from eko import basis_rotation as br
    from yadism import coefficient_functions as cf
    from yadism import runner as yr
    from yadism.coefficient_functions import kernels as K
    from yadism.coefficient_functions.partonic_channel import RSL, PartonicChannel
    from yadism.esf import esf as esfmod

    nf, pto, sec = ob["nf"], ob["pto"], ob["sec"]
    line = dict(oid=ob["oid"], n=ob["n"], sec=sec, nf=nf, pto=pto, evol=ob["evol"], ren=ob["ren"], fact=ob["fact"], intrinsic=ob["intrinsic"],
                labels=ob["labels"], c=ob["c"], outcome="OK", observed=[], shape_ok=True, note="")
    pids = list(br.flavor_basis_pids)
    xg = [0.1, 0.3, 0.6, 1.0]
    ng = len(xg)
    o = cards.obs({"F2_light": [dict(x=0.3, Q2=Q2_NF[nf])]}, xgrid=xg, deg=1)
    th = cards.theory(PTO=ob["evol"], PTODIS=pto, RenScaleVar=ob["ren"], FactScaleVar=ob["fact"], mc=1.5, mb=4.5, mt=170.0, Q0=1.0)
    r = yr.Runner(th, o)
    e = r.observables["F2_light"].elements[0]
    svm = r.configs.managers["sv_manager"]
    for lab, fld in LABELS.items():
        svm.operators[(lab, nf)] = float(common.frac(ob["labels"][fld])) * np.eye(ng)
    partons, qvec, glu = sector_vectors(sec, nf, pids)
    cvals = [float(common.frac(cc[1] if sec == "G" else cc[0])) for cc in ob["c"]]
    state = {}
    Cls = type(("Intrinsic0" if ob["intrinsic"] else "NonSinglet0"), (PartonicChannel,), {})
    for order, mname in enumerate(["LO", "NLO", "NNLO", "N3LO"]):
        def mk(order=order):
            def g(self):
                if order > pto or (sec == "G" and order == 0):
                    return None
                state["cur"] = order
                return RSL.from_delta(1.0)
            return g
        setattr(Cls, mname, mk())

    def fake_collect(self):
        return [K.Kernel(dict(partons), Cls(self.esf, self.nf))]

    def fake_cv(rsl, interp, x):
        return cvals[state["cur"]] * G / x, np.zeros(ng)

    oc, ov = cf.Combiner.collect_elems, esfmod.conv.convolve_vector
    cf.Combiner.collect_elems = fake_collect
    esfmod.conv.convolve_vector = fake_cv
    try:
        res = e.get_result()
        if cf.Combiner(e).nf != nf:
            raise common.MachineryError("injection run used a different nf")
    except common.MachineryError:
        raise
    except Exception as ex:
        line["outcome"] = "Crash_" + type(ex).__name__
        line["note"] = str(ex)[:200]
        return line
    finally:
        cf.Combiner.collect_elems = oc
        esfmod.conv.convolve_vector = ov
    exp = {(e_[0], e_[1], e_[2]): (common.frac(e_[3]), common.frac(e_[4])) for e_ in ob["expect"]}
    iq = int(np.argmax(np.abs(qvec)))
    ig = pids.index(21)
    for key, (val, _err) in sorted(res.orders.items()):
        val = np.asarray(val)
        qp = float(val[iq][0] / G[0] / qvec[iq])
        gp = float(val[ig][0] / G[0])
        recon = qp * np.outer(qvec, G) + gp * np.outer(glu, G)
        if np.max(np.abs(val - recon)) > 1e-9 * (1 + np.max(np.abs(val))):
            line["shape_ok"] = False
            line["note"] = f"key {key}: tensor is not qpart*V + gpart*G"
        k3 = (key[0], key[2], key[3])
        eq, eg = exp.get(k3, (0, 0))
        line["observed"].append([key[0], key[2], key[3], common.snap(qp, eq, rel=1e-10, abs_=1e-10),
                                 common.snap(gp, eg, rel=1e-10, abs_=1e-10)])
        if key[1] != 0:
            line["shape_ok"] = False
    return line


def switch_runs(cell):
    """End-to-end: one real cell in the four switch combinations; returns per-combination comparison with (T,T)."""
    kind, proc, pto = cell[:3]
    scheme = dict(FNS=cell[3], NfFF=cell[4]) if len(cell) > 3 else {}
    res = {}
    for ren in (True, False):
        for fact in (True, False):
            th = cards.theory(PTO=pto, PTODIS=pto, RenScaleVar=ren, FactScaleVar=fact, mc=2.0, mb=5.0, mt=170.0, Q0=1.0, **scheme)
            xg = cards.make_grid(4, 4, x_min=1e-2)
            ob = cards.obs({f"{kind}_total": [dict(x=0.12, Q2=30.0)]}, xgrid=xg, deg=3, prDIS=proc,
                           ProjectileDIS="neutrino" if proc == "CC" else "electron")
            out = cards.run(th, ob)
            res[(ren, fact)] = {k: np.asarray(v[0]) for k, v in out[f"{kind}_total"][0].orders.items()}
    full = res[(True, True)]
    bad = []
    import itertools
    want = {(a, 0, r, f) for a in range(pto + 1) for f in range(a + 1) for r in range(max(a, 1))}
    for (ren, fact), t in res.items():
        if set(t) != want:
            bad.append(f"ren={ren} fact={fact}: key set differs from build_orders")
            continue
        for k in want:
            off = (not ren and k[2] > 0) or (not fact and k[3] > 0)
            if off and np.any(t[k] != 0):
                bad.append(f"ren={ren} fact={fact}: switched-off key {k} is not zero")
            if not off and not np.array_equal(t[k], full[k]):
                bad.append(f"ren={ren} fact={fact}: key {k} changed (max diff {np.max(np.abs(t[k]-full[k])):.3e})")
    # the renormalisation-group identity on the OUTPUT, entry by entry and for every parton row (massive and heavy-quark initiated
    # contributions included): (2,0,1,0) = -beta0 (1,0,0,0) with ONE beta0 = 11 - 2/3 nf, nf = NfFF in a fixed scheme
    if pto >= 2:
        nf = scheme.get("NfFF", 5)     # Q2 = 30 > mb^2 = 25 in the variable-flavour cells
        b0 = 11.0 - 2.0 / 3.0 * nf
        a, b = full[(1, 0, 0, 0)], full[(2, 0, 1, 0)]
        dev = float(np.max(np.abs(b + b0 * a)))
        if dev > 1e-12 * float(np.max(np.abs(b))) + 1e-300:
            i = int(np.argmax(np.max(np.abs(b + b0 * a), axis=1)))
            bad.append(f"ren identity: (2,0,1,0) + beta0({nf}) (1,0,0,0) = {dev:.3e} (of {np.max(np.abs(b)):.3e}) in parton row {i}")
    nontrivial = sum(1 for k in want if np.any(full[k] != 0) and (k[2] > 0 or k[3] > 0))
    return dict(cell=list(cell), bad=bad, nontrivial_sv_keys=nontrivial)


def moments(args):
    """Mellin moments of the convolved labels vs products of the moments of their factors."""
    import scipy.integrate as si
    from yadism.coefficient_functions import splitting_functions as split

    nf, N = args
    labs = {}
    for d in split.raw_labels:
        labs.update(d)

    def mom(label):
        rsl = labs[label](nf)
        tot = 0.0
        if rsl.reg is not None:
            tot += si.quad(lambda z: z ** (N - 1) * rsl.reg(z, rsl.args["reg"]), 0, 1, epsabs=1e-12, epsrel=1e-12, limit=400)[0]
        if rsl.sing is not None:
            tot += si.quad(lambda z: (z ** (N - 1) - 1) * rsl.sing(z, rsl.args["sing"]), 0, 1, epsabs=1e-12, epsrel=1e-12, limit=400)[0]
        if rsl.loc is not None:
            tot += rsl.loc(0.0, rsl.args["loc"])
        return tot
    out = []
    for conv, (a, b) in {"P_qq_0^2": ("P_qq_0", "P_qq_0"), "P_qg_0P_gq_0": ("P_qg_0", "P_gq_0"),
                         "P_qq_0P_qg_0": ("P_qq_0", "P_qg_0"), "P_qg_0P_gg_0": ("P_qg_0", "P_gg_0")}.items():
        lhs, rhs = mom(conv), mom(a) * mom(b)
        out.append(dict(label=conv, nf=nf, N=N, lhs=lhs, rhs=rhs, ok=abs(lhs - rhs) <= 1e-7 * max(1.0, abs(rhs))))
    return out


HISTS = {"fresh": [], "same_nodes_other_degree_first": ["deg"], "other_nodes_first": ["nodes"], "other_size_first": ["size"],
         "all_first": ["size", "nodes", "deg"]}


def operator_job(job):
    """The REAL ScaleVariations.compute_raw on a real grid, after other runners of this process computed theirs; columns of every
    operator against an own quadrature of (P (x) p_l)(x_k) on the runner's own interpolation."""
    nf, hist = job
    cards.silence()
    from yadism import runner as yr
    from yadism.coefficient_functions import splitting_functions as split
    from .c01 import oracle_vector

    def mk(xg, deg):
        th = cards.theory(PTO=2, PTODIS=2, mc=1.5, mb=4.5, mt=170.0, Q0=1.0)
        ob = cards.obs({"F2_light": [dict(x=0.3, Q2=Q2_NF.get(nf, 1e5))]}, xgrid=xg, deg=deg)
        return yr.Runner(th, ob)

    xg = cards.make_grid(4, 4, x_min=1e-2)
    decoy = dict(deg=(xg, 2), nodes=(cards.make_grid(3, 5, x_min=3e-2), 3), size=(cards.make_grid(5, 5, x_min=1e-2), 3))
    for d in HISTS[hist]:
        try:
            mk(*decoy[d]).configs.managers["sv_manager"].compute_raw(nf)
        except Exception:
            pass
    lines = []
    base = dict(nf=nf, hist=hist, outcome="OK", present=True, finite=True, corner_zero=True, dev_milli=0, note="")
    try:
        r = mk(xg, 3)
        svm = r.configs.managers["sv_manager"]
        interp = r.configs.managers["interpolator"]
        svm.compute_raw(nf)
    except Exception as ex:
        return [dict(base, label="P_qq_0", col=0, outcome="Crash_" + type(ex).__name__, note=str(ex)[:150])]
    n = len(xg)
    for order_labels in split.raw_labels[:2]:
        for lab, fnc in order_labels.items():
            M = svm.operators.get((lab, nf))
            if M is None or np.shape(M) != (n, n):
                lines.append(dict(base, label=lab, col=0, present=False, note=f"shape {np.shape(M)}"))
                continue
            M = np.asarray(M, dtype=float)
            for k in (1, n // 2, n - 1):
                ora, oerr = oracle_vector(fnc(nf), interp, xg, xg[k])
                code = M[:, k].copy()
                corner = True
                if k == n - 1:
                    corner = code[n - 1] == 0.0
                    code[n - 1] = ora[n - 1] = 0.0
                scale = max(float(np.abs(code).max()), float(np.abs(ora).max()), 1e-300)
                tol = 10 * oerr + 5e-6 * scale + 1e-12
                fin = bool(np.all(np.isfinite(code)))
                dev = float(np.max(np.abs(code - ora) / tol)) if fin and np.all(np.isfinite(ora)) else float("inf")
                lines.append(dict(base, label=lab, col=k, finite=fin, corner_zero=bool(corner), dev_milli=common.milli(dev, 1.0),
                                  note=f"max|code-oracle|={float(np.max(np.abs(code - ora))):.3e} scale={scale:.3e}"))
    return lines


def run(ctx):
    q = ctx.quick
    ctx.cov["rule"] = ("injection obligations = instance x flavour sector x nf x pto x switch combination (x intrinsic) "
                       "enumerated by TLC; non-trivial = obligation with at least one non-zero predicted scale-variation entry")
    ctx.cov["trusted_base"] = ["TLC", "eko ad_projectors (flavour sectors)", "numpy", "scipy.quad (moments)"]
    ctx.assumptions.append("the LO coefficient has no gluon component (assumption of the code's tables, stated in the spec)")
    ctx.tlc_check("MC_ScaleVar", common.cfg_text(dict(NI=4 if q else 16, NFS={3, 4, 5, 6}, PTOS={1, 2, 3}),
                                                 invariants=["Inv_RGE_muR", "Inv_RGE_muF", "Inv_SwitchOff", "Inv_Keys", "Inv_Intrinsic"]),
                  coverage=False, min_states=200, min_depth=2)
    obls = ctx.tlc_emit("Emit_C05", common.cfg_text(dict(NI=2 if q else 6, NFS={4} if q else {3, 4, 5}, PTOS={1, 2, 3}), spec=None))
    for o in obls:
        o["oid"] = common.oid_of("C05", {k: o[k] for k in ("n", "sec", "nf", "pto", "evol", "ren", "fact", "intrinsic")})
    lines = ctx.pmap(execute, obls, chunksize=4)
    for o, ln in zip(obls, lines):
        nz = any((e[1] > 0 or e[2] > 0) and (e[3][0] != 0 or e[4][0] != 0) for e in o["expect"])
        ctx.count(1, nontrivial_key=o["oid"] if nz else None)
    for ln in lines[:: max(1, len(lines) // 3)][:3]:
        ctx.sample({k: ln[k] for k in ("sec", "nf", "pto", "ren", "fact", "intrinsic", "labels", "c", "observed")})
    bad = ctx.tlc_validate_sharded("Trace_C05", "Trace.cfg", [{k: v for k, v in ln.items() if k != "note"} for ln in lines])
    by = {ln["oid"]: (o, ln) for o, ln in zip(obls, lines)}
    good = [{k: v for k, v in ln.items() if k != "note"} for ln in lines if ln["oid"] not in bad and ln["pto"] >= 2]
    ctx.selftest("Trace_C05", "Trace.cfg", good, [
        ("entry", lambda l: dict(l, observed=[[e[0], e[1], e[2], [e[3][0] + 1, e[3][1]], e[4]] for e in l["observed"][:1]] + l["observed"][1:])),
        ("keys", lambda l: dict(l, observed=l["observed"][1:])),
        ("shape", lambda l: dict(l, shape_ok=False))])
    for oid, clause in bad.items():
        o, ln = by[oid]
        key = f"inject:{ln['sec']}:nf{ln['nf']}:pto{ln['pto']}{'' if ln['evol'] == ln['pto'] else '.evol' + str(ln['evol'])}:ren{int(ln['ren'])}:fact{int(ln['fact'])}:intr{int(ln['intrinsic'])}:{clause}"
        ctx.violation(key, f"sector {ln['sec']} nf={ln['nf']} pto={ln['pto']} RenScaleVar={ln['ren']} FactScaleVar={ln['fact']} "
                      f"intrinsic={ln['intrinsic']}: {clause} {ln['note']}", dict(kind="C05-inject", obligation=o, observed=ln))
    # (b) end-to-end switches on real runs
    cells = [("F2", "EM", 2), ("F3", "CC", 2), ("FL", "NC", 1), ("F2", "NC", 2, "FFNS", 3)] if q else \
        [("F2", "EM", 2), ("F3", "CC", 2), ("FL", "NC", 2), ("F3", "NC", 2), ("g1", "NC", 2), ("F2", "CC", 1), ("F2", "EM", 3),
         ("F2", "NC", 2, "FFNS", 3), ("FL", "NC", 2, "FFNS", 4), ("F2", "CC", 2, "FFNS", 3), ("F2", "NC", 2, "FONLL-FFNS", 4)]
    for r in ctx.pmap(switch_runs, cells):
        ctx.count(1, nontrivial_key=("switch", tuple(r["cell"])) if r["nontrivial_sv_keys"] else None)
        ctx.cov["traces_validated_against_impl"] += 0
        for b in r["bad"]:
            ctx.violation(f"switch:{r['cell'][0]}:{r['cell'][1]}:pto{r['cell'][2]}{':' + r['cell'][3] + str(r['cell'][4]) if len(r['cell']) > 3 else ''}:{b.split(':')[0]}",
                          f"end-to-end switch-off {r['cell']}: {b}", dict(kind="C05-switch", cell=r["cell"]))
    # (d) the operators behind the factorisation-scale terms on a real grid, whatever ran before in the process
    ojobs = [(nf, h) for nf in ((4,) if q else (3, 4, 5, 6)) for h in (("fresh", "all_first") if q else sorted(HISTS))]
    olines = [ln for part in ctx.pmap(operator_job, ojobs, fresh=True) for ln in part]
    for ln in olines:
        ln["oid"] = common.oid_of("C05", {k: ln[k] for k in ("label", "nf", "col", "hist")})
        ctx.count(1, nontrivial_key=("op", ln["label"], ln["nf"], ln["col"], ln["hist"]))
    obad = ctx.tlc_validate("Trace_C05op", "Trace.cfg", [{k: v for k, v in ln.items() if k != "note"} for ln in olines], name="operators")
    ogood = [{k: v for k, v in ln.items() if k != "note"} for ln in olines if ln["oid"] not in obad]
    ctx.selftest("Trace_C05op", "Trace.cfg", ogood, [
        ("dev", lambda l: dict(l, dev_milli=5000)), ("corner", lambda l: dict(l, corner_zero=False)),
        ("label", lambda l: dict(l, label="P_xx_9")), ("present", lambda l: dict(l, present=False))])
    for ln in olines:
        if ln["oid"] in obad:
            ctx.violation(f"operator:{ln['label']}:nf{ln['nf']}:col{ln['col']}:{ln['hist']}:{obad[ln['oid']]}",
                          f"scale-variation operator {ln['label']} nf={ln['nf']} column {ln['col']} (history {ln['hist']}): {obad[ln['oid']]} {ln['note']}",
                          dict(kind="C05-operator", job=[ln["nf"], ln["hist"]]))
    # (c) moments of the convolved labels
    jobs = [(nf, N) for nf in ((3, 5) if q else (3, 4, 5, 6)) for N in ((2.0, 3.5) if q else (2.0, 3.0, 3.5, 6.0))]
    for rows in ctx.pmap(moments, jobs):
        for r in rows:
            ctx.count(1, nontrivial_key=("mom", r["label"], r["nf"], r["N"]))
            if not r["ok"]:
                ctx.violation(f"moments:{r['label']}:N{r['N']}", f"Mellin moment N={r['N']} of {r['label']} (nf={r['nf']}) is {r['lhs']!r}, "
                              f"the product of the moments of its factors is {r['rhs']!r}", dict(kind="C05-moments", job=[r["nf"], r["N"]]))


def replay(ctx, obj):
    if obj["kind"] == "C05-inject":
        ln = execute(obj["obligation"])
        bad = ctx.tlc_validate("Trace_C05", "Trace.cfg", [{k: v for k, v in ln.items() if k != "note"}])
        print("observed:", ln["observed"], "\nexpected:", obj["obligation"]["expect"], "\nverdict:", bad.get(ln["oid"], "ok"))
        return 1 if bad else 0
    if obj["kind"] == "C05-switch":
        r = switch_runs(tuple(obj["cell"]))
        print(r)
        return 1 if r["bad"] else 0
    if obj["kind"] == "C05-operator":
        lines = common.pmap(operator_job, [tuple(obj["job"])], fresh=True)[0]
        for ln in lines:
            ln["oid"] = common.oid_of("C05", {k: ln[k] for k in ("label", "nf", "col", "hist")})
        bad = ctx.tlc_validate("Trace_C05op", "Trace.cfg", [{k: v for k, v in ln.items() if k != "note"} for ln in lines], name="operators")
        for ln in lines:
            if ln["oid"] in bad:
                print(ln["label"], ln["col"], bad[ln["oid"]], ln["note"])
        return 1 if bad else 0
    rows = moments(tuple(obj["job"]))
    print(rows)
    return 0 if all(r["ok"] for r in rows) else 1
