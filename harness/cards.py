"""Theory / observable cards accepted by the runner and by Output.apply_pdf (eko Legacy runcard)."""
import copy

PROJ_NAME = {11: "electron", -11: "positron", 12: "neutrino", -12: "antineutrino"}
PROJ_PID = {v: k for k, v in PROJ_NAME.items()}


def theory(**kw):
    t = dict(
        PTO=1, PTODIS=1, FNS="ZM-VFNS", NfFF=4, nf0=4, mc=1.51, mb=4.92, mt=172.5,
        kcThr=1.0, kbThr=1.0, ktThr=1.0, MaxNfPdf=6, MaxNfAs=6, MP=0.938, Q0=1.65, HQ="POLE", TMC=0,
        RenScaleVar=True, FactScaleVar=True,
        CKM="0.97428 0.22530 0.003470 0.22520 0.97345 0.041000 0.00862 0.04030 0.999152",
        MW=80.398, MZ=91.1876, GF=1.1663787e-05, SIN2TW=0.23126, FONLLParts="full", n3lo_cf_variation=0,
        ModEv="EXA", alphas=0.118, alphaqed=0.007496, Qref=91.2, nfref=5, XIR=1.0, XIF=1.0, QED=0,
        ModSV=None, IC=1, IB=0, Qmc=1.51, Qmb=4.92, Qmt=172.5, kDIScThr=1.0, kDISbThr=1.0, kDIStThr=1.0,
    )
    t.update(kw)
    return t


def make_grid(n_low, n_mid, x_min=1e-3):
    from eko import interpolation

    return interpolation.make_grid(n_low, n_mid, x_min=x_min).tolist()


def obs(observables, xgrid=None, n=12, deg=4, is_log=True, **kw):
    if xgrid is None:
        xgrid = make_grid(n // 2, n - n // 2)
    o = dict(
        interpolation_xgrid=list(xgrid), interpolation_polynomial_degree=deg, interpolation_is_log=is_log,
        prDIS="EM", TargetDIS="proton", ProjectileDIS="electron", PolarizationDIS=0.0,
        PropagatorCorrection=0.0, NCPositivityCharge=None, observables=copy.deepcopy(observables),
    )
    o.update(kw)
    return o


def silence():
    import warnings

    warnings.filterwarnings("ignore")
    import yadism.log

    yadism.log.silent_mode = True


def run(th, ob):
    """run_yadism with logging silenced."""
    silence()
    import yadism

    return yadism.run_yadism(th, ob)
