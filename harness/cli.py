"""./vcheck <Cxx> quick|thorough   |   ./vcheck --replay <path>"""
import importlib
import json
import os
import sys
import traceback

from . import common

LEVELS = {
    "C01": "model_checking", "C02": "model_checking", "C03": "exploration", "C04": "exploration",
    "C05": "model_checking", "C06": "model_checking", "C07": "model_checking", "C08": "exploration",
    "C09": "model_checking", "C10": "model_checking", "C11": "model_checking", "C12": "model_checking",
    "C13": "model_checking", "C14": "model_checking", "C15": "model_checking", "C16": "model_checking",
    "C17": "model_checking", "C18": "translation_validation", "C19": "exploration", "C20": "model_checking",
}


def main(argv):
    if len(argv) >= 2 and argv[0] == "--replay":
        obj = json.loads(open(argv[1]).read())
        prop = obj["property"]
        mod = importlib.import_module(f"harness.checks.{prop.lower()}")
        common.setup_env()
        ctx = common.Ctx(prop, "replay", int(obj.get("seed", 0)), LEVELS[prop])
        try:
            rc = mod.replay(ctx, obj)
        except common.MachineryError as ex:
            print("MACHINERY:", ex)
            return 2
        return rc
    if len(argv) < 2:
        print(__doc__)
        return 2
    prop, tier = argv[0].upper(), argv[1]
    tier = os.environ.get("VERIF_TIER", tier)
    seed = int(os.environ.get("VERIF_SEED", "0"))
    mod = importlib.import_module(f"harness.checks.{prop.lower()}")
    common.setup_env()
    ctx = common.Ctx(prop, tier, seed, LEVELS[prop])
    try:
        mod.run(ctx)
        return ctx.finish()
    except common.MachineryError as ex:
        print("MACHINERY FAILURE:", ex)
        return 2
    except Exception:
        traceback.print_exc()
        print("MACHINERY FAILURE: unexpected exception in the harness")
        return 2


if __name__ == "__main__":
    sys.exit(main(sys.argv[1:]))
