"""ESFResult arithmetic (esf/result.py) against Result.tla.

Spec |= P : MC_Result - all results over two order keys in both dict orders: addition commutes in content, is associative
            and has the empty result as identity, multiplication distributes and composes, the kinematics come from the
            left operand, errors are propagated linearly with sign (ErrorsAreLinear: the code's behaviour, named), a cross
            section without F3 has exactly the keys of F2 and FL in order of first appearance.
Code ~ Spec: Emit_Result enumerates programs (add, sub, mul, rmul, neg, the three-term numpy dot of exs.py) over small
            results; the real class executes them on integer-valued arrays; Trace_Result recomputes the expected result
            (key ORDER, entries, metadata, which arrays are shared with an operand, operands untouched).
"""
import numpy as np

from . import cards, common

SHAPE = (2, 3)


def build(r):
    from yadism.esf.result import ESFResult

    x, q2, nf = {"A": (0.25, 8.0, 4), "B": (0.5, 2.0, 3)}[r["meta"]]
    out = ESFResult(x, q2, nf)
    for k, (v, e) in zip(r["keys"], r["tab"]):
        out.orders[(k, 0, 0, 0)] = (np.full(SHAPE, float(v)), np.full(SHAPE, float(e)))
    return out


def ser(res, metas):
    keys, tab = [], []
    for k, (v, e) in res.orders.items():
        keys.append(int(k[0]))
        if not (np.all(v == v.flat[0]) and np.all(e == e.flat[0]) and v.shape == SHAPE and e.shape == SHAPE):
            return None
        tab.append([int(v.flat[0]), int(e.flat[0])] if float(v.flat[0]).is_integer() and float(e.flat[0]).is_integer() else [float(v.flat[0]), float(e.flat[0])])
    meta = metas.get((res.x, res.Q2, res.nf), "?")
    return dict(meta=meta, keys=keys, tab=tab)


def execute(ob):
    cards.silence()
    args = [build(a) for a in ob["args"]]
    if len(args) > 1:    # distinguishable kinematics for the right operands
        for other in args[1:]:
            other.x, other.Q2, other.nf = 0.5, 2.0, 3
    metas = {(0.25, 8.0, 4): "A", (0.5, 2.0, 3): "B"}
    before = [{k: (v.copy(), e.copy()) for k, (v, e) in a.orders.items()} for a in args]
    line = dict(oid=ob["oid"], op=ob["op"], args=ob["args"], s=ob["s"], outcome="OK", observed=dict(meta="?", keys=[], tab=[]), shared=[],
                operands_modified=False, note="")
    try:
        s = ob["s"]
        if ob["op"] == "add":
            res = args[0] + args[1]
        elif ob["op"] == "sub":
            res = args[0] - args[1]
        elif ob["op"] == "mul":
            res = args[0] * (float(s[0]) if s[1] == 0 else (float(s[0]), float(s[1])))
        elif ob["op"] == "rmul":
            res = (float(s[0]) if s[1] == 0 else (float(s[0]), float(s[1]))) * args[0]
        elif ob["op"] == "neg":
            res = -args[0]
        elif ob["op"] == "lin3":
            res = np.array([float(c) for c in s]) @ np.array(args)
        else:
            raise KeyError(ob["op"])
    except Exception as ex:
        line["outcome"] = "Crash_" + type(ex).__name__
        line["note"] = str(ex)[:150]
        return line
    obs = ser(res, metas)
    if obs is None:
        line["outcome"] = "Crash_NonUniformArray"
        return line
    line["observed"] = obs
    for a, b in zip(args, before):
        if list(a.orders) != list(b) or any(not (np.array_equal(a.orders[k][0], b[k][0]) and np.array_equal(a.orders[k][1], b[k][1])) for k in b):
            line["operands_modified"] = True
    if ob["op"] == "add":
        for k, (v, e) in res.orders.items():
            if any(k in a.orders and (np.shares_memory(v, a.orders[k][0]) or np.shares_memory(e, a.orders[k][1])) for a in args):
                line["shared"].append(int(k[0]))
    return line


def run(ctx, prop):
    ctx.tlc_check("MC_Result", common.cfg_text({}, invariants=["Inv_Add", "Inv_Mul", "Inv_XS"]), coverage=False, min_states=60000)
    obls = ctx.tlc_emit("Emit_Result", common.cfg_text({}, spec=None))
    for o in obls:
        o["oid"] = common.oid_of(prop, dict(alg=1, op=o["op"], args=o["args"], s=o["s"]))
    lines = ctx.pmap(execute, obls, chunksize=64)
    for ln in lines:
        ctx.count(1, nontrivial_key=ln["oid"] if ln["observed"]["keys"] else None)
    ctx.sample({k: lines[len(lines) // 2][k] for k in ("op", "args", "s", "observed", "shared")})
    strip = lambda ln: {k: v for k, v in ln.items() if k != "note"}
    bad = ctx.tlc_validate("Trace_Result", "Trace.cfg", [strip(ln) for ln in lines])
    good = [strip(ln) for ln in lines if ln["oid"] not in bad and len(ln["observed"]["keys"]) == 2]
    ctx.selftest("Trace_Result", "Trace.cfg", good, [
        ("key_missing", lambda l: dict(l, observed=dict(l["observed"], keys=l["observed"]["keys"][:-1], tab=l["observed"]["tab"][:-1]))),
        ("value", lambda l: dict(l, observed=dict(l["observed"], tab=[[l["observed"]["tab"][0][0] + 1, l["observed"]["tab"][0][1]]] + l["observed"]["tab"][1:]))),
        ("modified", lambda l: dict(l, operands_modified=True)),
        ("crash", lambda l: dict(l, outcome="Crash_KeyError"))])
    # the fields behind NOTES must be seen as well (a note, not a verdict)
    probe = [dict(good[0], oid="note~order", observed=dict(good[0]["observed"], keys=good[0]["observed"]["keys"][::-1], tab=good[0]["observed"]["tab"][::-1])),
             dict(good[0], oid="note~error", observed=dict(good[0]["observed"], tab=[[t[0], t[1] + 1] for t in good[0]["observed"]["tab"]])),
             dict(good[0], oid="note~meta", observed=dict(good[0]["observed"], meta="B"))]
    saved = (dict(ctx.cov.get("spec_conformance_notes", {})), ctx.cov["traces_validated_against_impl"], list(ctx.cov["tlc_runs"]))
    ctx.last_notes.clear()
    pb = ctx.tlc_validate("Trace_Result", "Trace.cfg", probe, name="noteprobe")
    seen = dict(ctx.last_notes)
    ctx.cov["spec_conformance_notes"], ctx.cov["traces_validated_against_impl"], ctx.cov["tlc_runs"] = saved
    if not ctx.cov["spec_conformance_notes"]:
        del ctx.cov["spec_conformance_notes"]
    if pb or set(seen) != {"note~order", "note~error", "note~meta"}:
        raise common.MachineryError(f"Trace_Result note probe: verdicts {pb}, notes {seen}")
    by = {ln["oid"]: ln for ln in lines}
    for oid, clause in bad.items():
        ln = by[oid]
        shape = "+".join("".join(map(str, a["keys"])) or "-" for a in ln["args"])
        ctx.violation(f"algebra:{ln['op']}:{shape}:{clause}", f"ESFResult {ln['op']} on results with keys {shape} (scalar {ln['s']}): {clause}; "
                      f"observed {ln['observed']} {ln['note']}", dict(kind="algebra", obligation={k: ln[k] for k in ("oid", "op", "args", "s")}))


def replay(ctx, obj):
    ln = execute(obj["obligation"])
    bad = ctx.tlc_validate("Trace_Result", "Trace.cfg", [{k: v for k, v in ln.items() if k != "note"}])
    print({k: ln[k] for k in ("op", "args", "s", "observed", "shared", "operands_modified", "outcome")}, "verdict:", bad.get(ln["oid"], "ok"))
    return 1 if bad else 0
