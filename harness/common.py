"""Shared machinery: environment, TLC runner, obligation/trace files, evidence, verdicts.

Everything a check does goes through a `Ctx`:
  ctx.tlc_check(...)      Spec |= P on a small-constant config (states/transitions/coverage recorded)
  ctx.tlc_emit(...)       obligations written by TLC (ndjson) -> list of dicts
  ctx.pmap(fn, items)     drive the REAL code (pool of /venv/bin/python workers, JIT cache per tree)
  ctx.tlc_validate(...)   trace validation: TLC judges every recorded line, total verdicts
  ctx.violation(...)      VIOLATION / KNOWN-FINDING bookkeeping with replay files
Exit codes: 0 held, 1 violation(s), 2 machinery failure.
"""
from __future__ import annotations

import hashlib
import json
import os
import pathlib
import re
import shutil
import subprocess
import sys
import time
import traceback
import fnmatch
from fractions import Fraction

ROOT = pathlib.Path(__file__).resolve().parent.parent
SPEC = ROOT / "spec"
# VERIF_REPO / VERIF_OUT: used only by seeded_matrix.py to run the checks against scratch worktrees in parallel; the registered
# commands never set them (they check /repo's working tree and write under /verif)
OUT = pathlib.Path(os.environ.get("VERIF_OUT", ROOT))
BUILD = OUT / "build"
EVID = OUT / "evidence"
REPLAYS = OUT / "replays"
REPO = pathlib.Path(os.environ.get("VERIF_REPO", "/repo"))
TLA_CP = "/opt/veriftools/tla/tla2tools.jar:/opt/veriftools/tla/CommunityModules-deps.jar"
NCPU = int(os.environ.get("VERIF_NCPU", os.cpu_count() or 4))


class MachineryError(Exception):
    """The checking machinery itself failed (exit 2); never a verdict about the code."""


# --------------------------------------------------------------------------- environment
def tree_hash() -> str:
    """sha256 over every file of the package under test + interpreter/library versions."""
    h = hashlib.sha256()
    src = REPO / "src"
    for p in sorted(src.rglob("*")):
        if p.is_file() and "__pycache__" not in p.parts and not p.name.endswith((".pyc", ".nbi", ".nbc")):
            h.update(str(p.relative_to(src)).encode())
            h.update(p.read_bytes())
    h.update(sys.version.encode())
    try:
        import numba, numpy, scipy  # noqa

        h.update(f"{numba.__version__}{numpy.__version__}{scipy.__version__}".encode())
    except Exception:
        pass
    return h.hexdigest()[:20]


_TREE = None


def setup_env():
    """Set the process environment for running the real code (call before importing yadism)."""
    global _TREE
    if _TREE is None:
        _TREE = os.environ.get("VERIF_TREE_HASH") or tree_hash()
    cache_root = ROOT / ".cache" / "numba"
    cache = cache_root / _TREE
    cache.mkdir(parents=True, exist_ok=True)
    # prune caches of other trees (keep the 2 most recent besides ours)
    try:
        import time as _t
        others = sorted((d for d in cache_root.iterdir() if d.is_dir() and d != cache), key=lambda d: d.stat().st_mtime)
        for d in [o for o in others[:-2] if _t.time() - o.stat().st_mtime > 3 * 3600]:   # (never one a concurrent run may be using)
            shutil.rmtree(d, ignore_errors=True)
    except Exception:
        pass
    if str(REPO) != "/repo":     # a scratch tree: shadow the editable install, here and in every child process
        src = str(REPO / "src")
        if src not in sys.path:
            sys.path.insert(0, src)
        os.environ["PYTHONPATH"] = src + (os.pathsep + os.environ["PYTHONPATH"] if os.environ.get("PYTHONPATH") and src not in os.environ["PYTHONPATH"] else "")
    os.environ["VERIF_TREE_HASH"] = _TREE
    os.environ["NUMBA_CACHE_DIR"] = str(cache)
    os.environ["YADISM_VERIF"] = "1"
    os.environ.setdefault("PYTHONHASHSEED", "0")
    os.environ["PYTHONDONTWRITEBYTECODE"] = "1"
    os.environ.setdefault("OMP_NUM_THREADS", "1")
    os.environ.setdefault("OPENBLAS_NUM_THREADS", "1")
    os.environ.setdefault("MKL_NUM_THREADS", "1")
    os.environ.setdefault("NUMBA_NUM_THREADS", "1")
    return _TREE


# --------------------------------------------------------------------------- rationals / quantisation
def frac(x) -> Fraction:
    """[num, den] (as TLC writes rationals) -> Fraction."""
    if isinstance(x, (list, tuple)):
        return Fraction(int(x[0]), int(x[1]))
    return Fraction(x)


def ratj(fr: Fraction):
    fr = Fraction(fr)
    if abs(fr.numerator) >= 2**31 or fr.denominator >= 2**31:
        raise MachineryError(f"rational {fr} does not fit TLC integers")
    return [fr.numerator, fr.denominator]


def snap(value: float, expected: Fraction, rel=1e-12, abs_=1e-14):
    """Projection of a float observation onto exact rationals.

    Returns the expected fraction when the float agrees with it within the stated tolerance,
    otherwise the closest fraction with a small denominator (which then differs from the
    expectation and is reported as such by the trace validator)."""
    e = float(expected)
    if abs(value - e) <= abs_ + rel * max(abs(e), abs(value)):
        return ratj(expected)
    if value != value or value in (float("inf"), float("-inf")):
        return [2**30, 1]
    f = Fraction(value).limit_denominator(10**6)
    if f == expected:  # would be mistaken for agreement: move off by one unit
        f = f + Fraction(1, 10**6)
    if abs(f.numerator) >= 2**31:
        f = Fraction(2**30 if value > 0 else -(2**30), 1)
    return ratj(f)


def quant(a: float, b: float, floor=1e-300):
    """Common-scale quantisation of two floats to 9 significant digits (|ints| <= 1e9)."""
    s = max(abs(a), abs(b), floor)
    qa, qb = int(round(a / s * 10**9)), int(round(b / s * 10**9))
    return qa, qb


def milli(dev: float, tol: float) -> int:
    """dev/tol in thousandths, capped so that it fits a TLC integer (<= 1000 means within tolerance)."""
    if dev != dev:
        return 2**30
    r = dev / tol * 1000.0 if tol > 0 else (0.0 if dev == 0 else float("inf"))
    return int(min(r, 2**30)) if r == r else 2**30


# --------------------------------------------------------------------------- TLC
_COV_RE = re.compile(r"^<(\w+) line (\d+), col (\d+) to line (\d+), col (\d+) of module (\w+)>: (\d+):(\d+)")


def run_tlc(module: str, cfg: str, *, workdir: pathlib.Path, env=None, workers=None, coverage=False,
            timeout=3600, extra=(), xss="16m", xmx="8g", simulate=None, deadlock=False):
    """Run TLC on spec/<module>.tla with spec/<cfg>.  Returns dict(ok, out, states, distinct, ...)."""
    workdir.mkdir(parents=True, exist_ok=True)
    meta = workdir / "meta"
    shutil.rmtree(meta, ignore_errors=True)
    cmd = ["java", f"-Xss{xss}", f"-Xmx{xmx}", "-XX:+UseSerialGC", "-cp", TLA_CP, "tlc2.TLC",
           "-workers", str(workers or NCPU), "-metadir", str(meta), "-noGenerateSpecTE"]
    if coverage:
        cmd += ["-coverage", "1"]
    if simulate:
        cmd += ["-simulate", simulate]
    cmd += list(extra)
    if "\n" in cfg:  # cfg given as text
        cfgp = workdir / f"{module}.cfg"
        cfgp.write_text(cfg)
    else:
        cfgp = pathlib.Path(cfg)
        if not cfgp.is_absolute():
            cfgp = SPEC / cfg
    cmd += ["-config", str(cfgp), str(SPEC / f"{module}.tla")]
    e = dict(os.environ)
    e.pop("JAVA_TOOL_OPTIONS", None)
    if env:
        e.update({k: str(v) for k, v in env.items()})
    t0 = time.time()
    try:
        p = subprocess.run(cmd, cwd=str(SPEC), env=e, capture_output=True, text=True, timeout=timeout)
    except subprocess.TimeoutExpired as ex:
        if simulate:
            out = (ex.stdout or b"").decode() if isinstance(ex.stdout, bytes) else (ex.stdout or "")
            return dict(ok=True, out=out, timed_out=True, wall=time.time() - t0, states=0, distinct=0, coverage={})
        raise MachineryError(f"TLC timed out after {timeout}s: {module} {cfg}")
    out = p.stdout + p.stderr
    (workdir / "tlc.out").write_text(out)
    shutil.rmtree(meta, ignore_errors=True)
    res = dict(out=out, wall=time.time() - t0, rc=p.returncode, coverage={})
    m = re.search(r"(\d+) states generated, (\d+) distinct states found", out)
    res["states"] = int(m.group(1)) if m else 0
    res["distinct"] = int(m.group(2)) if m else 0
    m = re.search(r"depth of the complete state graph search is (\d+)", out)
    res["depth"] = int(m.group(1)) if m else 0
    if coverage:
        for line in out.splitlines():
            mm = _COV_RE.match(line.strip())
            if mm:
                res["coverage"][mm.group(1)] = res["coverage"].get(mm.group(1), 0) + int(mm.group(8))
    res["ok"] = ("Model checking completed. No error has been found." in out) or (
        simulate is not None and p.returncode == 0)
    res["invariant_violated"] = None
    m = re.search(r"Invariant (\w+) is violated", out)
    if m:
        res["invariant_violated"] = m.group(1)
    m = re.search(r"Action property (\w+) is violated", out)
    if m:
        res["invariant_violated"] = m.group(1)
    if not res["ok"] and res["invariant_violated"] is None and "is violated" not in out:
        if "Overflow" in out:
            raise MachineryError(f"TLC integer overflow in {module}/{cfg}: see {workdir/'tlc.out'}")
        if simulate is None:
            raise MachineryError(f"TLC failed on {module}/{cfg} (rc={p.returncode}): see {workdir/'tlc.out'}\n" + out[-1500:])
    return res


def cfg_text(consts: dict, subst: dict = None, invariants=(), spec="Spec", postcondition=None, properties=(),
             constraint=None, view=None):
    """Materialise a TLC config: consts maps names to python values (sets of str/int -> TLA set literals),
    subst maps constant names to definitions in the module (`C <- Def`)."""
    def lit(v):
        if isinstance(v, bool):
            return "TRUE" if v else "FALSE"
        if isinstance(v, int):
            return str(v)
        if isinstance(v, str):
            return json.dumps(v)
        if isinstance(v, (set, frozenset, list, tuple)):
            return "{" + ", ".join(lit(x) for x in (sorted(v, key=str) if isinstance(v, (set, frozenset)) else v)) + "}"
        raise MachineryError(f"cannot write {v!r} into a cfg")
    lines = []
    if spec:
        lines.append(f"SPECIFICATION {spec}")
    if consts or subst:
        lines.append("CONSTANTS")
        for k, v in (consts or {}).items():
            lines.append(f"  {k} = {lit(v)}")
        for k, v in (subst or {}).items():
            lines.append(f"  {k} <- {v}")
    for inv in invariants:
        lines.append(f"INVARIANT {inv}")
    for pr in properties:
        lines.append(f"PROPERTY {pr}")
    if constraint:
        lines.append(f"CONSTRAINT {constraint}")
    if view:
        lines.append(f"VIEW {view}")
    if postcondition:
        lines.append(f"POSTCONDITION {postcondition}")
    lines.append("CHECK_DEADLOCK FALSE")
    return "\n".join(lines) + "\n"


def read_ndjson(path):
    out = []
    with open(path) as f:
        for line in f:
            line = line.strip()
            if line:
                out.append(json.loads(line))
    return out


def write_ndjson(path, rows):
    with open(path, "w") as f:
        for r in rows:
            f.write(json.dumps(r, separators=(",", ":")) + "\n")


def oid_of(prop: str, rec: dict) -> str:
    s = json.dumps(rec, sort_keys=True, separators=(",", ":"))
    return f"{prop}-{hashlib.sha1(s.encode()).hexdigest()[:10]}"


# --------------------------------------------------------------------------- known findings
def load_known():
    p = ROOT / "known_findings.json"
    if not p.exists():
        return []
    return json.loads(p.read_text())["findings"]


# --------------------------------------------------------------------------- pool
_POOL = None


def _init_worker():
    setup_env()
    import warnings

    warnings.filterwarnings("ignore")


def _call(args):
    fn, item = args
    try:
        return ("ok", fn(item))
    except Exception as ex:  # the driver function itself failed: machinery
        return ("err", f"{type(ex).__name__}: {ex}\n{traceback.format_exc()[-1500:]}")


def warm_jit():
    """Compile-and-cache every njit kernel once in a single process so that pool workers only load."""
    tree = setup_env()
    stamp = ROOT / ".cache" / "numba" / tree / ".warm"
    if stamp.exists():
        return 0.0
    t0 = time.time()
    code = (
        "import warnings; warnings.filterwarnings('ignore')\n"
        "import yadism, yadism.log\n"
        "import yadism.esf.tmc, yadism.esf.conv\n"
        "import importlib, pkgutil, yadism.coefficient_functions as cf\n"
        "for m in pkgutil.walk_packages(cf.__path__, cf.__name__ + '.'):\n"
        "    try: importlib.import_module(m.name)\n"
        "    except Exception as e: print('warm: skip', m.name, type(e).__name__)\n"
    )
    p = subprocess.run([sys.executable, "-c", code], env=dict(os.environ), capture_output=True, text=True, timeout=1800)
    if p.returncode != 0:
        raise MachineryError("JIT warm-up failed:\n" + p.stderr[-2000:])
    stamp.write_text(p.stdout)
    return time.time() - t0


def pmap(fn, items, procs=None, chunksize=1, fresh=False):
    """Map a top-level function over items in worker processes running the real code.
    fresh=True: every item gets a NEW process (module-level state of the code under test starts empty)."""
    import multiprocessing as mp

    items = list(items)
    if not items:
        return []
    setup_env()
    warm_jit()
    procs = min(procs or NCPU, len(items))
    if procs <= 1 and not fresh:
        _init_worker()
        res = [_call((fn, it)) for it in items]
    else:
        ctx = mp.get_context("spawn")
        procs = max(procs, 1)
        with ctx.Pool(procs, initializer=_init_worker, maxtasksperchild=1 if fresh else None) as pool:
            res = pool.map(_call, [(fn, it) for it in items], chunksize=1 if fresh else chunksize)
    out = []
    for it, (st, val) in zip(items, res):
        if st == "err":
            raise MachineryError(f"driver failed on {json.dumps(it, default=str)[:300]}:\n{val}")
        out.append(val)
    return out


# --------------------------------------------------------------------------- context
class Ctx:
    def __init__(self, prop: str, tier: str, seed: int, level: str):
        self.prop, self.tier, self.seed, self.level = prop, tier, seed, level
        self.t0 = time.time()
        self.dir = BUILD / prop / tier
        shutil.rmtree(self.dir, ignore_errors=True)
        self.dir.mkdir(parents=True, exist_ok=True)
        self.cov = dict(states=0, transitions=0, traces_validated_against_impl=0, samples=[], evaluations=0,
                        distinct_nontrivial=0, rule="", tlc_runs=[], trusted_base=[], exhaustive=False)
        self.assumptions = []
        self.viol = []      # (key, what, replay_path)
        self.known_hit = [] # (key, what)
        self.known = [k for k in load_known() if k["property"] == prop]
        self.quick = tier == "quick"
        self._distinct = set()

    # ---- TLC wrappers
    def _name(self, module, cfg, name):
        if name:
            return name
        if "\n" in cfg:
            self._n = getattr(self, "_n", 0) + 1
            return f"{module}_{self._n}"
        return cfg.replace(".cfg", "")

    def tlc_check(self, module, cfg, name=None, must_cover=(), coverage=True, min_states=1, min_depth=0, **kw):
        """Spec |= P.  Anti-vacuity: with coverage on, every action in must_cover has to be taken; in any case the
        run must reach min_states distinct states and depth min_depth (staged lattices: the leaves are at the last stage)."""
        name = self._name(module, cfg, name)
        r = run_tlc(module, cfg, workdir=self.dir / f"tlc_{name}", coverage=coverage, **kw)
        self.cov["states"] += r["distinct"]
        self.cov["transitions"] += r["states"]
        self.cov["tlc_runs"].append(dict(module=module, cfg=cfg if "\n" not in cfg else name, states=r["distinct"], generated=r["states"],
                                         depth=r["depth"], wall_s=round(r["wall"], 1),
                                         coverage={k: v for k, v in r["coverage"].items()}))
        if not r["ok"]:
            inv = r["invariant_violated"]
            path = self.replay_file(dict(kind="spec", module=module, cfg=cfg, invariant=inv,
                                         tlc_output_tail=r["out"][-6000:]))
            self.violation(f"spec:{module}:{inv}", f"TLC: {inv} violated on the specification ({module}/{cfg})", path)
        if coverage:
            for a in must_cover:
                if r["coverage"].get(a, 0) == 0:
                    raise MachineryError(f"vacuous: action {a} never taken in {module}/{cfg}")
        if r["ok"] and (r["distinct"] < min_states or r["depth"] < min_depth):
            raise MachineryError(f"vacuous: {module}/{cfg} reached {r['distinct']} states, depth {r['depth']} "
                                 f"(need {min_states}, {min_depth})")
        return r

    def tlc_emit(self, module, cfg, name=None, env=None, **kw):
        """Run an emission config; the module writes IOEnv.OUT (ndjson). Returns the rows."""
        name = self._name(module, cfg, name)
        out = self.dir / f"{name}.obligations.ndjson"
        e = dict(env or {})
        e["OUT"] = str(out)
        r = run_tlc(module, cfg, workdir=self.dir / f"tlc_{name}", env=e, **kw)
        if not r["ok"]:
            raise MachineryError(f"emission {module}/{cfg} failed: {r['out'][-1500:]}")
        self.cov["states"] += r["distinct"]
        self.cov["transitions"] += r["states"]
        self.cov["tlc_runs"].append(dict(module=module, cfg=cfg if "\n" not in cfg else name, states=r["distinct"],
                                         generated=r["states"], wall_s=round(r["wall"], 1), role="emit"))
        if not out.exists():
            raise MachineryError(f"emission {module}/{cfg} wrote nothing")
        return read_ndjson(out)

    last_notes = {}

    def tlc_validate(self, module, cfg, rows, name=None, env=None, **kw):
        """Trace validation of stateless obligations.  `rows` is the recorded trace (list of dicts, each with
        'oid').  The trace spec consumes one line per step, prints <<"VERDICT", oid, clause>> for every line it
        does not accept, and its POSTCONDITION requires that all lines were consumed.
        Returns {oid: clause} for rejected lines."""
        name = self._name(module, cfg, name)
        if not rows:
            return {}
        tf = self.dir / f"{name}.trace.ndjson"
        write_ndjson(tf, rows)
        e = dict(env or {})
        e["TRACE_FILE"] = str(tf)
        r = run_tlc(module, cfg, workdir=self.dir / f"tlc_{name}", env=e, workers=1, **kw)
        out = r["out"]
        bad = {}
        for m in re.finditer(r'<<\s*"VERDICT",\s*"([^"]+)",\s*"([^"]+)"\s*>>', out):   # TLC wraps long tuples over several lines
            bad[m.group(1)] = m.group(2)
        # departures from the specification in behaviour the property does not constrain (never a violation)
        for m in re.finditer(r'<<\s*"NOTE",\s*"([^"]+)",\s*"([^"]+)"\s*>>', out):
            notes = self.cov.setdefault("spec_conformance_notes", {})
            notes[m.group(2)] = notes.get(m.group(2), 0) + 1
            self.last_notes[m.group(1)] = m.group(2)
        if not r["ok"]:
            raise MachineryError(f"trace validation {module}/{cfg} did not complete: {out[-2500:]}")
        m = re.search(r'<<\s*"CONSUMED",\s*(\d+)\s*>>', out)
        if not m or int(m.group(1)) != len(rows):
            raise MachineryError(f"trace validation {module}/{cfg}: consumed {m.group(1) if m else '?'} of {len(rows)} lines")
        self.cov["traces_validated_against_impl"] += len(rows)
        self.cov["tlc_runs"].append(dict(module=module, cfg=cfg if "\n" not in cfg else name, states=r["distinct"],
                                         wall_s=round(r["wall"], 1), role="validate", lines=len(rows), rejected=len(bad)))
        return bad

    def tlc_emit_many(self, module, cfgs, env=None, **kw):
        """Several emission configs of one module run concurrently (one single-worker TLC each)."""
        from concurrent.futures import ThreadPoolExecutor

        names = [self._name(module, c, None) for c in cfgs]

        def one(args):
            c, n = args
            return self.tlc_emit(module, c, name=n, env=env, workers=1, **kw)

        with ThreadPoolExecutor(max_workers=min(NCPU, len(cfgs))) as ex:
            parts = list(ex.map(one, zip(cfgs, names)))
        return [r for part in parts for r in part]

    def tlc_validate_sharded(self, module, cfg, rows, shards=None, **kw):
        """Trace validation of independent lines, split over concurrent TLC processes."""
        from concurrent.futures import ThreadPoolExecutor

        if not rows:
            return {}
        shards = max(1, min(shards or NCPU, len(rows) // 50 or 1))
        parts = [rows[i::shards] for i in range(shards)]
        names = [f"{self._name(module, cfg, None)}_s{i}" for i in range(shards)]

        def one(args):
            part, n = args
            return self.tlc_validate(module, cfg, part, name=n, **kw)

        with ThreadPoolExecutor(max_workers=shards) as ex:
            res = list(ex.map(one, zip(parts, names)))
        bad = {}
        for r in res:
            bad.update(r)
        return bad

    def selftest(self, module, cfg, lines, corruptions, env=None):
        """Binding demonstrated, not assumed: lines the trace specification ACCEPTED are corrupted in one recorded field each
        and the specification must REJECT every corrupted line.  corruptions: [(name, fn(line) -> corrupted line or None)].
        A corruption the specification accepts is a machinery failure (the trace spec would be vacuous in that field)."""
        import copy

        rows, names = [], {}
        for name, fn in corruptions:
            done = 0
            for ln in lines:
                c = fn(copy.deepcopy(ln))
                if c is None:
                    continue
                c["oid"] = f"{ln['oid']}~{name}"
                names[c["oid"]] = name
                rows.append(c)
                done += 1
                if done >= 2:
                    break
        if not rows:
            return
        before = self.cov["traces_validated_against_impl"]
        bad = self.tlc_validate(module, cfg, rows, name=f"selftest_{module}", env=env)
        self.cov["traces_validated_against_impl"] = before
        self.cov["tlc_runs"] = [r for r in self.cov["tlc_runs"] if r.get("cfg") != f"selftest_{module}"]
        missed = sorted({names[o] for o in names if o not in bad})
        st = self.cov.setdefault("binding_selftest", {}).setdefault(module, dict(corrupted_lines=0, rejected=0, fields=[]))
        st["corrupted_lines"] += len(rows)
        st["rejected"] += len([o for o in names if o in bad])
        st["fields"] = sorted(set(st["fields"]) | set(names.values()))
        if missed:
            raise MachineryError(f"binding self-test: {module} accepted lines corrupted in {missed}")

    def pmap(self, fn, items, **kw):
        return pmap(fn, items, **kw)

    # ---- bookkeeping
    def count(self, n=1, nontrivial_key=None):
        self.cov["evaluations"] += n
        if nontrivial_key is not None:
            self._distinct.add(nontrivial_key)
            self.cov["distinct_nontrivial"] = len(self._distinct)

    def sample(self, obj, maxn=6):
        if len(self.cov["samples"]) < maxn:
            self.cov["samples"].append(obj)

    def replay_file(self, obj: dict) -> str:
        d = REPLAYS / self.prop
        d.mkdir(parents=True, exist_ok=True)
        obj = dict(obj)
        obj["property"] = self.prop
        obj["seed"] = self.seed
        s = json.dumps(obj, sort_keys=True, default=str)
        p = d / f"{hashlib.sha1(s.encode()).hexdigest()[:12]}.json"
        p.write_text(json.dumps(obj, indent=1, sort_keys=True, default=str))
        return str(p)

    def violation(self, key: str, what: str, replay):
        """Register a violation with a stable key.  Known findings (exact key or fnmatch pattern listed in
        known_findings.json with status 'known') are reported as KNOWN-FINDING and do not fail the check."""
        if isinstance(replay, dict):
            replay = self.replay_file(dict(replay, key=key, what=what))
        for k in self.known:
            if k.get("status") == "known" and (k["key"] == key or fnmatch.fnmatchcase(key, k["key"])):
                self.known_hit.append((k["key"], k["what"]))
                return False
        self.viol.append((key, what, replay))
        return True

    def finish(self) -> int:
        wall = time.time() - self.t0
        cov = self.cov
        seen = set()
        for key, what in self.known_hit:
            if key not in seen:
                seen.add(key)
                print(f"KNOWN-FINDING: property={self.prop} {what} [{key}]")
        shown = set()
        for key, what, path in self.viol:
            if key in shown:
                continue
            shown.add(key)
            print(f"VIOLATION property={self.prop} replay={path}")
            print(f"  {key}: {what}")
        cov["known_findings_seen"] = sorted(seen)
        if self.level == "model_checking":
            cov["states"] = max(cov["states"], 0)
        ev = dict(property_id=self.prop, tier=self.tier, seed=self.seed, level=self.level, coverage=cov,
                  assumptions=self.assumptions, wall_s=round(wall, 2), violations=len(shown))
        EVID.mkdir(exist_ok=True)
        (EVID / f"{self.prop}.json").write_text(json.dumps(ev, indent=1, default=str))
        print(f"[{self.prop} {self.tier}] states={cov['states']} transitions={cov['transitions']} "
              f"traces={cov['traces_validated_against_impl']} evaluations={cov['evaluations']} "
              f"distinct={cov['distinct_nontrivial']} violations={len(shown)} known={len(seen)} wall={wall:.1f}s")
        return 1 if shown else 0
