"""Generic evaluator of relation instances  sum_i coef_i RowMap_i Op(point_i) = 0  on real run_yadism outputs.

The relation (which runs, which coefficients, which row maps) comes from TLC (Lattice.RelTerms); this module only
instantiates the points, performs the real runs and measures the residual.  The verdict is taken by Trace_Rel (TLC).
"""
import numpy as np

from . import cells, common

REL_TOL = 1e-12


def apply_sets(pt, sets):
    c = dict(pt)
    for f, v in sets:
        c[f] = v
    return c


def rowmap_matrix(rm):
    n = len(cells.PIDSEQ) + 1
    if rm == "id":
        return np.eye(n)
    m = np.zeros((n, n))
    for pout, pin, val in rm:
        m[cells.PIDSEQ.index(pout), cells.PIDSEQ.index(pin)] += float(common.frac(val))
    return m


def execute(inst):
    pt = inst["pt"]
    line = dict(oid=inst["oid"], rel=inst["rel"], pt=pt, terms=inst["terms"], outcome="OK", keyset_ok=True,
                nkeys=0, resid_milli=0, finite=True, nontrivial=False, worst="")
    extra = inst.get("extra", {})
    # group terms by run (cells that differ only in flavour share one run)
    groups = {}
    tcells = []
    for t in inst["terms"]:
        c = apply_sets(pt, t["sets"])
        c.update(extra)
        name = f"{c.get('xs_kind') or c['kind']}_{c['flav']}"
        base = dict(c)
        base.pop("flav")
        gk = repr(sorted(base.items(), key=lambda kv: kv[0]))
        groups.setdefault(gk, (base, []))[1].append(name)
        tcells.append((gk, name))
    runs = {}
    for gk, (base, names) in groups.items():
        base = dict(base, flav="total")
        r = cells.run_cell(base, sorted(set(names)))
        runs[gk] = r
        if r["outcome"] != "OK":
            line["outcome"] = r["outcome"]
            line["worst"] = r["msg"]
            return line
    ops = [runs[gk]["ops"][name] for gk, name in tcells]
    npts = len(ops[0])
    keysets = [frozenset(o[0].keys()) for o in ops]
    if len(set(keysets)) != 1:
        line["keyset_ok"] = False
        return line
    keys = sorted(keysets[0])
    line["nkeys"] = len(keys)
    mats = [rowmap_matrix(t["rowmap"]) for t in inst["terms"]]
    coefs = [float(common.frac(t["coef"])) for t in inst["terms"]]
    worst = 0
    for i in range(npts):
        for k in keys:
            resid = 0.0
            scale = 0.0
            full = 0.0
            for o, m, cf in zip(ops, mats, coefs):
                v = m @ o[i][k][0]
                resid = resid + cf * v
                scale = max(scale, float(np.abs(v).max()) * abs(cf))
                fa = np.abs(o[i][k][0][np.isfinite(o[i][k][0])])
                full = max(full, (float(fa.max()) if fa.size else 0.0) * abs(cf))
            if scale > 0:
                line["nontrivial"] = True
            if not np.all(np.isfinite(resid)):
                # judged by its own clause; the other order keys of the instance are still compared
                line["finite"] = False
                line["worst"] = line["worst"] or f"pt{i} key{k} has non-finite entries"
                continue
            rmax = float(np.abs(resid).max())
            # tolerance: 1e-12 of the rows the relation speaks about + the rounding floor of the operator they belong to (rows that
            # vanish up to 1e-18 next to entries of order one carry no information)
            tol = REL_TOL * scale + 1e-14 * full
            mm = common.milli(rmax, tol) if tol > 0 else (0 if rmax == 0 else 2**30)
            if mm > worst:
                worst = mm
                line["worst"] = f"pt{i} key{k} resid={rmax:.3e} scale={scale:.3e} operator={full:.3e}"
    line["resid_milli"] = worst
    return line


def strip(line):
    return {k: v for k, v in line.items() if k not in ("worst", "nontrivial")}
