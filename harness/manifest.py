"""Generates /verif/MANIFEST.json from the table below (python -m harness.manifest) and validates it."""
import json
import pathlib

ROOT = pathlib.Path(__file__).resolve().parent.parent

# property -> (level, technique, text, note, design_ref)
CHECKS = {
    "C02": ("model_checking",
            "TLC exhaustive on the rational EW/CKM lattice (assembled LO weight = chiral-amplitude parton model) + "
            "TLC-emitted obligations replayed through run_yadism + TLC trace validation of the observed LO rows",
            "TLC proves, for every cell of the rational lattice, that the LO weight produced by the assembly model "
            "(Couplings/Kernels.tla, transcribed from the code) equals an independently written textbook parton model; "
            "the real code is then run at a grid node for every TLC-emitted cell and TLC accepts the recorded row only "
            "if it equals the textbook row it recomputes. Exhaustive on the lattice, sampled in the continuous EW parameters.",
            "Trusted: TLC, exact rational arithmetic of Rat.tla (TLC raises on overflow), eko's interpolation basis being a "
            "Kronecker delta at nodes. Neutrino NC beams compared at zero polarisation only.", "DESIGN.md 7/C02"),
    "C07": ("model_checking",
            "TLC partition theorems on exact kernel bags + TLC-emitted relation instances executed as real runs + TLC trace validation",
            "TLC proves the four partition theorems (FFNS total = light + massive flavours, ZM total = light, FONLL full = massless + "
            "massive, sum over NCPositivityCharge = unrestricted) as equalities of exact-rational kernel bags for every cell of the "
            "lattice; the relation instances TLC emits are executed with the real runner and the operators compared entry-wise for "
            "every order key; TLC accepts a recorded line only if the spec asserts the relation there and the residual is within 1e-12.",
            "Trusted: TLC, numpy. Lattice sampled in kinematics (two x per run) and EW point.", "DESIGN.md 7/C07"),
    "C12": ("model_checking",
            "TLC isospin theorems on exact kernel bags (incl. heap-level in-place rotation model) + (target, proton) real-run pairs "
            "+ TLC trace validation",
            "TLC proves that rotating each kernel's weights once is the PDF rotation, that the neutron is the u<->d swap, and that the "
            "code's in-place loop equals it iff no u/d-asymmetric weight dict is shared; TLC-emitted (target, proton) pairs, targets "
            "with Z/A outside {0,1/2,1}, all schemes incl. FFN0 with PTO != PTODIS, and the named-target table are run for real.",
            "Trusted: TLC, numpy. Iron/lead appear only in the named-target relations (their Z/A overflow exact 32-bit arithmetic).",
            "DESIGN.md 7/C12"),
    "C13": ("model_checking",
            "TLC symmetry theorems on the rational EW lattice and kernel bags + paired real runs + TLC trace validation",
            "TLC proves NC(eta=0)=EM, positron(P)=electron(-P), charge conjugation (arbitrary CKM, F3 sign) and equal-charge row "
            "equality on the full rational EW lattice; TLC-emitted pairs of real runs are compared row-wise for every order key.",
            "Trusted: TLC, numpy.", "DESIGN.md 7/C13"),
    "C16": ("model_checking",
            "TLC OutcomeTotal on the configuration lattice + every TLC-enumerated cell executed for real + TLC trace validation of outcome classes",
            "TLC proves on the assembly model that every class a cell names exists or the cell is an explicit rejection and enumerates the "
            "documented lattice (kinds x heavyness x process x projectile x scheme x NfFF x PTO x TMC, cross sections, out-of-domain "
            "kinematics) with the intended outcome; each enumerated cell is run (all LO/NLO cells, a seed-rotated share of NNLO/N3LO in the "
            "quick tier) and TLC accepts a line only for OK-and-all-finite or an explicit rejection.",
            "Trusted: TLC, numpy.isfinite. Kinematics sampled (two x per cell). Known findings listed in known_findings.json.",
            "DESIGN.md 7/C16"),
    "C14": ("model_checking",
            "TLC exhaustive on RunLoop.tla (runner/cache/memo state machine, all plans of a small kinematic universe) + trace validation "
            "of recorded real Runner executions against RunLoop with a cross-run digest map",
            "TLC checks SlotsIdeal, CacheCoherent, AllFilledAtReturn, SlotsStable on every plan (observable order, duplicates, repeated Q2, "
            "dict field order, TMC modes 0-3, cross sections, two get_result calls) of a universe in which TMC look-ups collide with user "
            "requests; a negative control (cache key by dict order) must produce TLC's counterexample. Real executions of seeded plans are "
            "recorded at call boundaries and validated by Trace_C14: each step must be a RunLoop step (cache hits, drops, computations - "
            "departures are conformance notes) and, as the verdict, the sha1 of every returned tensor must be a function of the "
            "history-free ideal term of its request across all recorded runs.",
            "Trusted: TLC, sha1, eko is_below_x for the header. The continuum of kinematics is represented by a universe of ~40 x values "
            "and 4 Q2 values chosen to collide.", "DESIGN.md 7/C14"),
    "C06": ("model_checking",
            "TLC exhaustive on the threshold lattice (count = digitize = position class; fixed schemes; massive flags) + TLC-emitted "
            "(theory, matching scale, class) probes replayed in multi-point real runs + TLC trace validation of nf read from the output",
            "TLC proves that the number of active flavours is the count of matching scales <= Q2 in three independent formulations for every "
            "theory of the lattice (coincident scales included) and every position class of every scale, that fixed schemes use NfFF at "
            "every Q2 and the massive flags per scheme; the real runner is driven with exactly representable scales and Q2 exactly at / one "
            "ulp below / above them, all probes of a theory in one run, and nf is read from the output alone (active quark rows at LO, "
            "(2,0,1,0) = -beta0(nf) (1,0,0,0)); TLC recomputes nf and beta0 for each recorded probe.",
            "Trusted: TLC, numpy, math.nextafter. Non-monotone matching scales are outside the domain (eko rejects them).", "DESIGN.md 7/C06"),
    "C20": ("model_checking",
            "TLC exhaustive on the heap model of compatibility.update / Runner over all card shapes + every shape replayed on real dicts "
            "(content and object-identity snapshots) + TLC trace validation of the updated-card projection",
            "TLC proves CallerHeapUnchanged, UpdateIdempotent and EchoExact on a heap of caller objects with identity for all 12 960 card "
            "shapes (FNS x NfFF x optional keys absent/None/set x QED x alphaqed x target spelling); every TLC-emitted shape is instantiated, "
            "compatibility.update is applied twice, a seed-rotated subset goes through Runner construction, two get_result calls and a second "
            "construction from the same objects; TLC accepts a line only if the observed projection of the updated cards equals the one the "
            "heap model computes and all recorded snapshot comparisons hold.",
            "Trusted: TLC, python dict equality, id() for identity.", "DESIGN.md 7/C20"),
    "C05": ("model_checking",
            "TLC proves the RGE identities on ScaleVar.tla (tables as the code combines them, exact rationals) + exact replay: the same "
            "integer instantiations injected into the real compute_local, every order key and entry validated by TLC; end-to-end switch runs",
            "TLC proves, as identities of truncated polynomials in (a_s, tR, tF) with 2x2 channel matrices over exact rationals, that the "
            "tables (sector_mapping, ren_coeffs, binomial split) make the observable independent of muR through a_s^3 and of muF through "
            "a_s^2 (against an independently stated NLO DGLAP), that switching a variation off zeroes exactly its log terms and that "
            "intrinsic kernels get no muF logs, for generic integer instantiations x nf 3..6 x pto 1..3 x every flavour sector. The same "
            "instantiations are injected into the real ScaleVariations/compute_local and TLC accepts the recorded tensors only if every "
            "entry equals its own table. Real runs in the four switch combinations and moments of the convolved labels anchor the rest.",
            "Trusted: TLC, eko's flavour-sector projectors, numpy, scipy.quad. Domain assumption of the code's tables: LO coefficients have "
            "no gluon component. The N3LO muF terms do not exist in the code (pto<=2 for muF, as the property states).", "DESIGN.md 7/C05"),
    "C15": ("model_checking",
            "TLC RoundTripIdentity over all output shapes x dump/load sequences (OutputIO.tla) + every TLC-enumerated (shape, sequence) "
            "executed on real Output objects with bitwise comparison after every cycle + TLC trace validation",
            "TLC checks that any sequence of tar/YAML cycles (depth <= 3, thorough 4) keeps the content of every output shape (SF / XS / "
            "None / empty observables, unsorted key lists, value classes, list vs ndarray metadata left behind by the loaders); each "
            "enumerated pair is executed with the real dump_tar/load_tar/dump_yaml/load_yaml and the loaded object is compared with the "
            "ORIGINAL after every cycle: kinematics, key order, value and error bytes (signed zeros, subnormals, 17-digit, huge, negative "
            "errors), grid, metadata, cards and toy-PDF predictions; real NNLO / TMC / cross-section outputs go through the same sequences.",
            "Trusted: TLC, numpy tobytes, python == on cards. The order of observables inside the container is not part of the content.",
            "DESIGN.md 7/C15"),
    "C17": ("model_checking",
            "TLC linearity / missing-flavour theorems on the contraction formula (OutputIO.tla) + TLC-emitted integer operators, PDF tables "
            "and couplings replayed through the real apply_pdf at logarithms 0,1,2 with exact comparison + nf policy of the coupling from "
            "the spec against a closed-form one-loop running",
            "TLC proves linearity in the PDF and independence of absent partons on the exact-rational contraction formula and emits, for key "
            "sets up to pto 3 (incl. a key with a power of alpha_qed), integer operators, scale-dependent integer PDF tables, flavour masks "
            "and scale-dependent rational couplings together with the exact prediction at ln(1/xi^2) in {0,1,2}^2; the real "
            "apply_pdf_alphas_alphaqed_xir_xif is run with table-driven fakes that record the scales they are called at and TLC accepts "
            "only if result and error equal the formula it recomputes. The alpha_s callable built by apply_pdf_theory is compared at ten "
            "scales with a one-loop closed form that follows the nf policy TLC computes from the card (all schemes, NfFF, two mass sets, "
            "matching ratios != 1).",
            "Trusted: TLC, numpy, math. The running beyond one loop is eko's (trusted); only PTO=0 cards have a closed-form oracle.",
            "DESIGN.md 7/C17"),
    "C11": ("model_checking",
            "TLC theorems on XS.tla (documented coefficients as exact rationals times atoms, over a rational kinematic lattice) + real runs "
            "requesting each cross-section kind with F2/FL/F3 of the same run + TLC trace validation of the linear relation",
            "TLC checks the F3 sign rule, HERA CC = y+/4 HERA NC, the equivalence with the documented N(F2 - yL/y+ FL +- y-/y+ xF3) form and "
            "which kinds need F3 over a rational lattice of (x, y, Q2, M, MW2); for every kind x projectile x lattice point (one with the "
            "CHORUS/NuTeV y+ negative) x heavyness x TMC mode x scheme a real run requests the cross section together with its structure "
            "functions and the residual XS - (a F2 + b FL + c xF3) must vanish entry-wise for every order key; TLC recomputes (a,b,c).",
            "Trusted: TLC, numpy, the numerical values of pi, G_F and the unit conversion (atoms).", "DESIGN.md 7/C11"),
    "C09": ("model_checking",
            "TLC threshold theorems on a dyadic lattice (Thresholds.tla) + real FFNS runs at lattice points exactly on / one ulp below / "
            "beside the thresholds + TLC trace validation of exact zeros, the 'missing' channel and the slow-rescaling point",
            "TLC proves hadronic = partonic pair threshold, class consistency, monotonicity and the slow-rescaling condition in exact "
            "rationals on a lattice containing points exactly on the threshold; real runs at those exact-float points (and one ulp below) "
            "must give exactly 0.0 in every non-heavy-parton row of F2/FL_charm at every order iff the spec says empty, light observables "
            "(NNLO 'missing' channel) must not change when the charm mass is raised below threshold, the massive gluon/singlet integrands "
            "are sampled on both sides of zmax, and CC F2/F3_charm/bottom rows are zero iff chi >= 1 with the LO row in the direction "
            "p_j(chi) for the chi the spec computes.",
            "Trusted: TLC, numpy, eko basis functions, math.nextafter.", "DESIGN.md 7/C09"),
    "C10": ("model_checking",
            "TLC theorems on TMC.tla (published exact / APFEL / approximate formulas as exact rational prefactors on a rational-rho "
            "lattice) + term operators rebuilt from a TMC=0 run with an independent quadrature and combined with TLC's prefactors, "
            "compared with the real TMC runs + TLC trace validation",
            "TLC proves the M -> 0 limit, APFEL = exact without g2, F_L = rho^2 F_2 - 2xF_1 on the integral weights and xi < x; for "
            "every kind (F2, FL, xF3) x mode x lattice point the bare operators at xi and at every node come from a TMC=0 run, h2/g2/h3 "
            "are integrals of the interpolant computed by an own quadrature, TLC's exact prefactors (ln xi as an atom) combine them, and "
            "the real TMC operators must agree for every order key (2e-7); the same request is first run on another grid in the same "
            "process; continuity at M -> 0 (incl. M = 0 exactly) and rejection of requests whose xi leaves the grid are replayed.",
            "Trusted: TLC, scipy.quad, eko basis functions. g1: only continuity, rejection and (via C14/C16) that its integrals run over "
            "g1 are checked - the normalisation convention of the reference could not be settled from the repository.", "DESIGN.md 7/C10"),
    "C03": ("exploration",
            "TLC-enumerated registry of every (kind, process, class, order) kernel (registry completeness model-checked on the assembly "
            "model) instantiated through the real assembly; loc/sing contract evaluated by quadrature; TLC judges every line",
            "Whether loc(x) - loc(x0) = -int sing holds for all x is a statement of real analysis: it is sampled (x lattice, adaptive "
            "quadrature). What the specification contributes is exhaustive: TLC proves that every class the assembly of any lattice cell "
            "names is in the registry (Inv_Registry), enumerates the 257 (class, order) elements and the 12 splitting labels, and the run "
            "must reach each of them (or see the real class answer None) through the production call sites for nf 3..6 and several mass "
            "ratios; TLC takes the verdict per line (residual <= 2e-5 of the scale, all parts finite).",
            "Trusted: TLC, scipy.quad, the third-party libraries called inside kernels. Tolerance 2e-5 from the published-digit rounding of "
            "the NNLO/N3LO parametrisations (largest legitimate residual 1.6e-6, seeded defects >= 5e-3).", "DESIGN.md 7/C03"),
    "C04": ("exploration",
            "TLC proves Adler / GLS / Bjorken on the literature NLO tables by exact Mellin integration over Q[zeta2] (Numerics.tla) and emits "
            "tables and sum-rule constants; first moments and pointwise values of the real kernels by quadrature / z lattice; TLC judges",
            "Moments and 'for all z' are statements of real analysis, sampled here (quadrature, 64-point lattice). The specification "
            "contributes the exact constants per order and nf (zeta atoms at a_s^3, light-by-light term separately), the NLO closed forms "
            "as exact monomial tables whose own first moments TLC proves to obey the sum rules (validating the oracle), the enumeration "
            "(rule x order x nf x NC/CC even/odd class, every nf requested twice in one process) and the verdict per recorded line.",
            "Trusted: TLC, scipy.quad, numerical zeta values. Tolerances: per mille of the constant (authors' stated accuracy of the "
            "parametrisations; measured <= 1.7e-4) plus 3e-5 of int|c| for vanishing constants; closed forms 1e-10.", "DESIGN.md 7/C04"),
    "C18": ("translation_validation",
            "differential execution of every njit dispatcher against its interpreted function + arity of every production call site "
            "(transitive AST bound vs the argument vector passed) + end-to-end runs with compilation on/off; TLC judges every line",
            "Whether machine code equals the interpreter is outside any TLA+ model: the decision is differential execution. All 143 "
            "dispatchers are discovered by import and compared with py_func on arguments of their own signature; every registry element "
            "TLC enumerates is instantiated through the real assembly and, for each of its compiled parts, the largest index the kernel "
            "(or a kernel it hands the vector to) reads must be below the length of the vector the class passes (ArityCovered) and the "
            "values must agree to 1e-11; whole runs are repeated in a subprocess with NUMBA_DISABLE_JIT=1 and compared (1e-7).",
            "Trusted: numba's py_func as the interpreted semantics, python ast for constant indices (dynamic indices are only caught by the "
            "interpreted end-to-end runs). The numba cache directory is keyed by a hash of the whole source tree.", "DESIGN.md 7/C18"),
    "C01": ("model_checking",
            "TLC proves the case analysis of conv.convolution total and sound (Convolution.tla) and enumerates the kernels (Registry.tla); "
            "every kernel's real convolve_vector against an independent quadrature in the PDF variable, every element's operator against "
            "the weighted sum of x_c times the convolutions; TLC trace validation",
            "The structure is exhaustive (decision table of the convolution proved against the mathematical convolution; every registry "
            "element reached through the real assembly at interior / on-node / large-x convolution points, nf 3..6, massive ratios, NC and "
            "CC); the numeric side is sampled: each real vector is compared entry-wise with a quadrature of the definition in u = x/z (own "
            "breakpoints, subtraction for the plus prescription), zeros below the support exactly, and each element's tensor with "
            "sum_k partons_k (x) x_c,k vec_k where x_c is the kernel's own convolution point; requests on other grids precede the tested "
            "one (pool workers and fresh processes).",
            "Trusted: TLC, scipy.quad, eko basis functions, third-party kernels. Tolerance 10 x (reported quadrature errors) + 5e-6 of the "
            "scale (5e-5 at N3LO: the code trims the window by 1e-10 against ln^5(1-z) growth); largest deviation on the pinned tree is 10% of it.",
            "DESIGN.md 7/C01"),
    "C08": ("exploration",
            "TLC proves AsyMirrorsMassive on the assembly model (same exact parton weights, one asymptotic kernel per log tower) + FFNS vs "
            "FFN0 real runs over five decades of Q2/m2 contracted with a test PDF; TLC judges the decay relation on the quantised sequences",
            "A limit is a statement of analysis: it is sampled on decades of Q2/m2. The specification proves exhaustively, on the lattice of "
            "cells, that the FFN0 assembly mirrors the FFNS one (heavy gluon/singlet VV+AA, heavy-quark initiated, CC quark/gluon; the "
            "'missing' channel with its named deviation) and states Rel_PowerDecay; real FFNS and FFN0 runs for NC F2/FL charm and bottom "
            "(also bottom with NfFF=3), CC F2/FL/F3 charm and the missing channel through F2/FL_light, orders 0..2, per row class, are "
            "judged by TLC.",
            "Trusted: TLC, LeProHQ. Bound at Q2/m2 = 1e5, 1e6: 5e-3 of the F2-type row scale (largest value on the pinned tree 9.8e-4; the "
            "massive O(a_s^2) library shows isolated spikes at intermediate ratios, so no step-by-step bound). Known findings: missing channel.",
            "DESIGN.md 7/C08"),
    "C19": ("exploration",
            "TLC-enumerated grid family and refinement relations (Refinement.tla); real runs differing only in interpolation settings (all "
            "members in one process) contracted with a smooth PDF; TLC judges every (case, x, xiF) line",
            "Convergence is a statement of analysis and is sampled: six grids (two of equal size and different spacing, degrees 3-5, a "
            "medium and a reference grid), three (thorough six) observable/process/order cases, x from 2e-3 to 0.93, xiF = 1 and 2, plus a "
            "request exactly on a node against one displaced by 1e-9. The specification supplies the family, the caps per member and x "
            "region, 'finer is not worse' and the node-continuity bound, and takes the verdict.",
            "Trusted: TLC, eko interpolation. Caps are >= 5 x the deviations measured on the pinned tree (table in Refinement.tla); defects in "
            "the handling of nodes / interpolation blocks / cached operators show up at 1e-2 .. 1.", "DESIGN.md 7/C19"),
}

PENDING = {}
COMMON_NOTE = ("Every run ends with a binding self-test: accepted trace lines are replayed to the trace specification with one recorded "
               "field corrupted each and must all be rejected (exit 2 otherwise; fields and counts in the evidence under binding_selftest).")
EXTRA_NOTE = {
    "C13": "Charged-current conjugation also runs on the asymptotic path (FFN0, FONLL-FFN0) in the quick tier.",
    "C04": "Each sum rule is evaluated with the local part read at x0 in {0, 0.5, 0.9} (first moment = int reg + loc(x0) + int_0^x0 sing).",
    "C01": "Nuclear-target cells in four card spellings are judged against the proton twin's assignment rotated by the harness; every massive NC class of a fixed-flavour cell must be built once per massive quark with that quark's mass (masses lines).",
    "C18": "Parts of registry elements that are Python functions calling compiled kernels (asymptotic towers, massive wrappers) are evaluated with compilation on and off in two interpreters (closure lines).",
    "C05": "The operators behind the factorisation-scale terms are also checked on a real grid: columns of ScaleVariations.compute_raw against an own quadrature of (P (x) p_l)(x_k), evaluated after other runners of the process (same nodes / other degree, other nodes, other size) computed theirs (Trace_C05op).",
    "C15": "FileStore.tla puts the cycles into a history: several output objects, paths that are written again and again, objects modified in place after loading (theorems LoadIsCurrent, Independent; the named faulty variant memo_by_path is refuted by TLC); its behaviours are driven through real Output objects with repeating path strings and validated by Trace_FileStore.",
    "C02": "A slice of the NC cells runs at other weak mixing angles than the lattice's own, so that every worker process meets several values of sin2thetaW one after the other. " 
           "The assembly model the theorem is proved on is itself bound to the code: for ~2 300 (thorough ~20 000) supported cells of every "
           "order, scheme, heavyness, coupling restriction and a nuclear target the class keys, per-class summed parton weights and number of "
           "flavours of Kernels.Assemble(cell) are compared with the real Combiner.collect_elems() (Emit_Asm / Trace_Asm; departures are "
           "conformance notes counted in the evidence under assembly_conformance). Neutrino NC rows are also taken at a propagator ratio r/2^16 (weights far below 1e-8) and compared after exact rescaling, "
           "justified by the theorem C02_NeutrinoScaling checked by TLC at four ratios.",
    "C06": "Fixed-flavour theories are additionally run in one fresh process in the order NfFF = 5, 4, 3, 4, 5 (module-level state of the card upgrade must not leak into the next theory). " 
           "Unordered matching scales (a ZM-VFNS card whose threshold ratios swap two scales) must be refused; the number of flavours inside "
           "the N3LO coefficient functions of flavour-tagged massless observables is bound through the relation TaggedIsRestricted.",
    "C17": "Predictions are taken on ESFResult and EXSResult objects, with operators in units of 1 and of 2^-40 and PDFs answering hasFlavor "
           "with bools and with 0/1; every spelling of the evolution method must give the running of its family (exact / expanded).",
    "C11": "The combination is also checked on PREDICTIONS (output applied to a PDF at xiR != xiF) and at two inelasticities per card. "
           "The arithmetic the combination is carried out with (ESFResult + - *, the numpy dot of exs.py) is specified in Result.tla and "
           "bound by ~2 200 TLC-emitted programs executed by the real class; values and key sets are verdicts, dict order / error propagation "
           "/ array sharing are conformance notes.",
    "C14": "Part of the recorded plans is drawn by TLC itself (Emit_C14, plan space of MC_RunLoop on the real universe); a second batch "
           "of histories runs on a nuclear target; the card spelling of an observable (F2 next to F2_total) is part of the model. "
           "Session.tla is the level above one runner: several runners of different configurations (17 named coordinates: grid, masses, "
           "scheme, NfFF, order, process, projectile, target, TMC, polarisation, scale-variation switches, sin2thetaW, IC, CKM, propagator "
           "correction, MP) alive in ONE process, constructed and evaluated in every interleaving; TLC proves SessionIdeal / OutputsStable / "
           "CfgFrozen, refutes the two named faulty variants (a coordinate kept at module level by the constructor; a module-level memo whose "
           "key omits a coordinate), and writes the behaviours of the specification on the real coordinate universe; each behaviour is driven "
           "through real runners in a fresh process and Trace_Session accepts it only if every slot digest (and the outcome of every "
           "construction) is a function of the runner's own configuration - every configuration also runs alone in a process.",
    "C16": "An exception counts as an explicit rejection only if a raise statement raised it (innermost frame); a ValueError out of "
           "list.index or a conversion is an internal error. The grammar of observable names (Names.tla: every well-formed and ~270 malformed names) is bound in the same check; the "
           "scale-variation switches are a lattice coordinate.",
}


def build():
    checks = []
    for pid, (level, tech, text, note, ref) in sorted(CHECKS.items()):
        checks.append(dict(
            property_id=pid, quick_cmd=f"./vcheck {pid} quick", thorough_cmd=f"./vcheck {pid} thorough",
            evidence_file=f"evidence/{pid}.json", replay_cmd_template="./vcheck --replay {path}",
            engine="tlc+replay", level_claimed=dict(category=level, text=text, design_ref=ref),
            level_note=note + " " + COMMON_NOTE + (" " + EXTRA_NOTE[pid] if pid in EXTRA_NOTE else ""), technique=tech))
    props = [json.loads(l)["id"] for l in (ROOT / "properties.jsonl").read_text().splitlines() if l.strip()]
    na = [dict(property_id=p, reason=PENDING.get(p, "check not built yet in this round (planned: see DESIGN.md section 7); "
                                                  "not claimed until its machinery exists"))
          for p in props if p not in CHECKS]
    man = dict(
        version=1, setup_cmd="./setup.sh",
        hooks=dict(guard="YADISM_VERIF", enable="no source hook is needed so far: checks set YADISM_VERIF=1 and wrap call "
                   "boundaries at run time (harness/recorder.py); /repo is imported from its working tree (editable install)",
                   baseline_off_cmd="./baseline_off.sh", source_commits=[], add_only=True),
        engines=[dict(name="tlc+replay", path="harness/", serves_properties=sorted(CHECKS),
                      kind_free_text="TLA+ specification (spec/*.tla) model-checked with TLC; TLC-emitted obligations replayed "
                      "through the real code by harness/checks/*.py; recorded observations validated by TLC trace specs")],
        checks=checks, not_applicable=na,
        notes="Exit codes: 0 held, 1 VIOLATION line(s), 2 machinery failure. VERIF_SEED seeds random choices. "
              "known_findings.json lists genuine defects (known / fixed).")
    (ROOT / "MANIFEST.json").write_text(json.dumps(man, indent=1))
    try:
        import jsonschema

        jsonschema.validate(man, json.load(open("/root/.vp/MANIFEST.schema.json")))
        print("MANIFEST.json valid;", len(checks), "checks,", len(na), "not claimed")
    except ImportError:
        print("MANIFEST.json written (jsonschema not available)")


if __name__ == "__main__":
    build()
