"""Imported once by the fork server of harness.session.fresh_map: everything a session needs is IMPORTED here (nothing is run), so
that every session starts in a fork of a process whose module-level state is exactly the state after import."""
import warnings

warnings.filterwarnings("ignore")
from . import common

common.setup_env()
import numpy  # noqa: E402,F401
import yadism  # noqa: E402,F401
import yadism.log  # noqa: E402,F401
from yadism import output, runner  # noqa: E402,F401
