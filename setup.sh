#!/bin/sh
# Offline setup: checks the tools and parses every TLA+ module. Nothing tree-dependent is built here.
cd "$(dirname "$0")" || exit 2
command -v java >/dev/null || { echo "java missing"; exit 2; }
[ -f /opt/veriftools/tla/tla2tools.jar ] || { echo "tla2tools.jar missing"; exit 2; }
[ -x /venv/bin/python ] || { echo "/venv/bin/python missing"; exit 2; }
mkdir -p build evidence replays .cache
rc=0
for f in spec/*.tla; do
  m=$(basename "$f" .tla)
  out=$(cd spec && java -cp /opt/veriftools/tla/tla2tools.jar:/opt/veriftools/tla/CommunityModules-deps.jar tla2sany.SANY "$m.tla" 2>&1)
  if echo "$out" | grep -q "Semantic errors\|Parse Error\|Fatal errors\|Could not find"; then
    echo "SANY FAILED: $m"; echo "$out" | tail -20; rc=2
  fi
done
/venv/bin/python -c "import yadism, eko, numba, scipy" || rc=2
[ $rc = 0 ] && echo "setup ok"
exit $rc
