#!/bin/sh
# usage: try_mutant.sh <patch.diff> <Cxx> [tier]   -- applies the patch to /repo, runs the check, reverts.
patch="$1"; prop="$2"; tier="${3:-quick}"
cd /repo || exit 2
git diff --quiet || { echo "/repo is dirty"; exit 2; }
git apply "$patch" || { echo "patch does not apply"; exit 2; }
cd /verif && ./vcheck "$prop" "$tier" > /verif/build/mutant_$prop.log 2>&1
rc=$?
git -C /repo checkout -- . 
echo "check $prop $tier on $(basename $(dirname $patch)): exit $rc; $(grep -c '^VIOLATION' /verif/build/mutant_$prop.log) violation line(s)"
grep -m3 -A1 '^VIOLATION' /verif/build/mutant_$prop.log | cut -c1-300
tail -1 /verif/build/mutant_$prop.log | cut -c1-200
exit $rc
